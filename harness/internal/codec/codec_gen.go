// Package codec holds the generators, reference implementations and oracles
// of property C20 (wire encoding and framing). It is shared by the vrun check
// (cmd/vrun/c20.go) and by the native fuzz targets (fuzz/).
package codec

import (
	"fmt"
	"strings"
	"unicode/utf8"

	"github.com/tonistiigi/fsutil/types"
	"google.golang.org/protobuf/encoding/protowire"
	"verif/internal/core"
)

// PoolBuf is the size of the pooled read buffer in util/protostream.go.
const PoolBuf = 32 << 10

var i64s = []int64{0, 1, -1, 2, 127, 128, 255, 256, 16383, 16384, 1<<31 - 1, 1 << 31, 1<<32 - 1, 1 << 32,
	1<<53 + 1, 1 << 56, 1<<63 - 1, -1 << 63, -1<<63 + 1, -128, -129, -1 << 31, -1<<31 - 1, 1700000000000000000}

var u32s = []uint32{0, 1, 2, 127, 128, 255, 256, 0644, 0755, 1 << 31, 1<<31 | 0755, 1<<27 | 0777, 16383, 16384, 65535, 65536, 1<<31 - 1, 1<<32 - 1, 1<<32 - 2}

var i32s = []int32{0, 1, 2, 3, 4, 5, 6, 127, 128, -1, -2, 1<<31 - 1, -1 << 31, 1 << 20}

var validNames = []string{"", "a", "foo", "foo/bar", "a/b/c/d", ".", "..", "../x", "/abs", "a\x00b", "a b", "a\nb", "é", "日本語/ファイル", "\U0001F600",
	" ", "a\\b", "\x7f", "\x01", "user.attr", "security.capability", "trusted.overlay.opaque", "system.posix_acl_access"}

var invalidNames = []string{"\xff", "a\xc3", "\xc3", "\xed\xa0\x80", "\xc0\xaf", "\xf8\x88\x80\x80\x80", "a/\xfe\xff/b", "caf\xe9", "\x80", "ok/\xf0\x9f\x98", "user.\xff"}

// GenOpt steers the value generators.
type GenOpt struct {
	// NoInvalidUTF8 keeps every string field valid UTF-8.
	NoInvalidUTF8 bool
	// MaxBig bounds the size of big strings/byte slices.
	MaxBig int
	// NoUnknown disables unknown fields.
	NoUnknown bool
}

func (o GenOpt) maxBig() int {
	if o.MaxBig <= 0 {
		return 200 << 10
	}
	return o.MaxBig
}

func genI64(r *core.Rand) int64 {
	switch r.Intn(4) {
	case 0:
		return 0
	case 1, 2:
		return core.Pick(r, i64s)
	}
	return int64(r.U64()) >> uint(r.Intn(64))
}

func genU32(r *core.Rand) uint32 {
	switch r.Intn(4) {
	case 0:
		return 0
	case 1, 2:
		return core.Pick(r, u32s)
	}
	return uint32(r.U64()) >> uint(r.Intn(32))
}

// GenString returns a name: pooled, random valid UTF-8, or arbitrary bytes.
func GenString(r *core.Rand, o GenOpt) string {
	switch r.Weighted([]int{2, 8, 3, 3, 2, 1}) {
	case 0:
		return ""
	case 1:
		return core.Pick(r, validNames)
	case 2:
		if o.NoInvalidUTF8 {
			return core.Pick(r, validNames)
		}
		return core.Pick(r, invalidNames)
	case 3:
		// random runes
		n := r.Range(1, 40)
		var sb strings.Builder
		for i := 0; i < n; i++ {
			switch r.Intn(4) {
			case 0:
				sb.WriteByte(byte('a' + r.Intn(26)))
			case 1:
				sb.WriteRune(rune(0x80 + r.Intn(0x700)))
			case 2:
				sb.WriteRune(rune(0x800 + r.Intn(0xD000)))
			default:
				sb.WriteRune(rune(0x10000 + r.Intn(0xFFFFF)))
			}
		}
		s := sb.String()
		if !utf8.ValidString(s) {
			return "x"
		}
		return s
	case 4:
		// arbitrary bytes
		b := r.Bytes(r.Range(1, 24))
		if o.NoInvalidUTF8 {
			for i := range b {
				b[i] &= 0x7f
			}
		}
		return string(b)
	default:
		// long names around varint length boundaries and beyond the pooled buffer
		n := core.Pick(r, []int{127, 128, 129, 255, 4095, 4096, 16383, 16384, 16385, PoolBuf - 1, PoolBuf, PoolBuf + 1, 70000})
		if n > o.maxBig() {
			n = o.maxBig()
		}
		return strings.Repeat(string(rune('a'+r.Intn(26))), n)
	}
}

// GenBytes returns a byte payload (nil, empty, small, around the pooled buffer size, big).
func GenBytes(r *core.Rand, o GenOpt) []byte {
	switch r.Weighted([]int{3, 2, 8, 3, 2}) {
	case 0:
		return nil
	case 1:
		return []byte{}
	case 2:
		return r.Bytes(r.Range(1, 300))
	case 3:
		n := core.Pick(r, []int{127, 128, 16383, 16384, PoolBuf - 16, PoolBuf - 5, PoolBuf - 4, PoolBuf - 3, PoolBuf - 1, PoolBuf, PoolBuf + 1, PoolBuf + 7, 2 * PoolBuf, 2*PoolBuf + 1})
		if n > o.maxBig() {
			n = o.maxBig()
		}
		return r.Bytes(n)
	default:
		return r.Bytes(r.Range(PoolBuf+1, o.maxBig()))
	}
}

// GenUnknown returns well-formed unknown fields (as a newer peer could send
// them) with field numbers > min.
func GenUnknown(r *core.Rand, min int, depth int) []byte {
	var b []byte
	n := r.Range(1, 4)
	for i := 0; i < n; i++ {
		num := protowire.Number(min + 1 + r.Intn(6))
		switch r.Intn(5) {
		case 0:
			num = protowire.Number(min + 1 + r.Intn(2000))
		case 1:
			num = protowire.MaxValidNumber - protowire.Number(r.Intn(3))
		}
		switch r.Intn(6) {
		case 0:
			b = protowire.AppendTag(b, num, protowire.VarintType)
			b = protowire.AppendVarint(b, uint64(genI64(r)))
		case 1:
			b = protowire.AppendTag(b, num, protowire.Fixed32Type)
			b = protowire.AppendFixed32(b, uint32(r.U64()))
		case 2:
			b = protowire.AppendTag(b, num, protowire.Fixed64Type)
			b = protowire.AppendFixed64(b, r.U64())
		case 3:
			b = protowire.AppendTag(b, num, protowire.BytesType)
			b = protowire.AppendBytes(b, r.Bytes(r.Intn(40)))
		case 4:
			b = protowire.AppendTag(b, num, protowire.StartGroupType)
			if depth < 3 && r.P(1, 2) {
				b = append(b, GenUnknown(r, 0, depth+1)...)
			}
			b = protowire.AppendTag(b, num, protowire.EndGroupType)
		default:
			b = protowire.AppendTag(b, num, protowire.BytesType)
			if depth < 3 {
				b = protowire.AppendBytes(b, GenUnknown(r, 0, depth+1))
			} else {
				b = protowire.AppendBytes(b, nil)
			}
		}
	}
	return b
}

// GenStat generates a Stat value.
func GenStat(r *core.Rand, o GenOpt) *types.Stat {
	s := &types.Stat{}
	if r.P(1, 12) {
		return s // empty value
	}
	if r.P(1, 12) {
		// everything at its extreme
		s.Mode, s.Uid, s.Gid = 1<<32-1, 1<<32-1, 1<<32-1
		s.Size, s.ModTime, s.Devmajor, s.Devminor = -1<<63, 1<<63-1, -1, -1<<63
		s.Path, s.Linkname = GenString(r, o), GenString(r, o)
		return s
	}
	s.Path = GenString(r, o)
	s.Mode = genU32(r)
	s.Uid = genU32(r)
	s.Gid = genU32(r)
	s.Size = genI64(r)
	s.ModTime = genI64(r)
	if r.P(1, 3) {
		s.Linkname = GenString(r, o)
	}
	if r.P(1, 4) {
		s.Devmajor = genI64(r)
		s.Devminor = genI64(r)
	}
	switch r.Weighted([]int{6, 2, 8, 1}) {
	case 0:
	case 1:
		s.Xattrs = map[string][]byte{}
	case 2:
		n := r.Range(1, 6)
		s.Xattrs = map[string][]byte{}
		for i := 0; i < n; i++ {
			k := GenString(r, o)
			if len(k) > 300 {
				k = k[:300]
				if o.NoInvalidUTF8 && !utf8.ValidString(k) {
					k = "cut"
				}
			}
			s.Xattrs[k] = GenBytes(r, GenOpt{MaxBig: 70000})
		}
	default:
		n := r.Range(50, 300)
		s.Xattrs = map[string][]byte{}
		for i := 0; i < n; i++ {
			s.Xattrs[fmt.Sprintf("user.k%d", i)] = r.Bytes(r.Intn(12))
		}
	}
	if !o.NoUnknown && r.P(1, 8) {
		s.ProtoReflect().SetUnknown(GenUnknown(r, 10, 0))
	}
	return s
}

// GenPacket generates a Packet value.
func GenPacket(r *core.Rand, o GenOpt) *types.Packet {
	p := &types.Packet{}
	if r.P(1, 12) {
		return p // the empty packet: zero-length frame
	}
	switch r.Intn(4) {
	case 0:
		p.Type = types.Packet_PacketType(core.Pick(r, i32s))
	case 1:
		p.Type = types.Packet_PacketType(int32(r.U64()))
	default:
		p.Type = types.Packet_PacketType(r.Intn(5))
	}
	switch r.Weighted([]int{4, 1, 6}) {
	case 0:
	case 1:
		p.Stat = &types.Stat{}
	default:
		p.Stat = GenStat(r, o)
	}
	p.ID = genU32(r)
	if r.P(2, 3) {
		p.Data = GenBytes(r, o)
	}
	if !o.NoUnknown && r.P(1, 8) {
		p.ProtoReflect().SetUnknown(GenUnknown(r, 4, 0))
	}
	return p
}

// ProtocolPacket generates the packets the sender/receiver really exchange.
func ProtocolPacket(r *core.Rand, o GenOpt) *types.Packet {
	switch r.Intn(6) {
	case 0:
		return &types.Packet{Type: types.PACKET_STAT, Stat: GenStat(r, o)}
	case 1:
		return &types.Packet{Type: types.PACKET_STAT} // end-of-stats marker == empty packet
	case 2:
		return &types.Packet{Type: types.PACKET_REQ, ID: genU32(r)}
	case 3:
		return &types.Packet{Type: types.PACKET_DATA, ID: genU32(r), Data: GenBytes(r, o)}
	case 4:
		return &types.Packet{Type: types.PACKET_FIN}
	default:
		return &types.Packet{Type: types.PACKET_ERR, Data: []byte(GenString(r, o))}
	}
}

// PacketOfSize returns a DATA packet whose encoding is exactly size bytes
// long (size >= 8), used to hit the pooled buffer boundary exactly.
func PacketOfSize(r *core.Rand, size int) *types.Packet {
	p := &types.Packet{Type: types.PACKET_DATA, ID: 1}
	n := size
	for n >= 0 {
		p.Data = make([]byte, n)
		if p.SizeVT() <= size {
			break
		}
		n--
	}
	d := r.Bytes(len(p.Data))
	copy(p.Data, d)
	if p.SizeVT() != size {
		// a varint boundary made the exact size unreachable with ID=1; widen the ID
		p.ID = 128
		for n = len(p.Data); n >= 0 && p.SizeVT() > size; n-- {
			p.Data = p.Data[:n]
		}
	}
	return p
}

// MutateStat returns a modified deep copy of s; the second result names the
// changed field ("" = the mutation happened to be the identity).
func MutateStat(r *core.Rand, s *types.Stat, o GenOpt) (*types.Stat, string) {
	c := CopyStat(s)
	if c == nil {
		return GenStat(r, o), "nil"
	}
	f := r.Intn(11)
	switch f {
	case 0:
		c.Path = GenString(r, o)
	case 1:
		c.Mode = genU32(r)
	case 2:
		c.Uid = genU32(r)
	case 3:
		c.Gid = genU32(r)
	case 4:
		c.Size = genI64(r)
	case 5:
		c.ModTime = genI64(r)
	case 6:
		c.Linkname = GenString(r, o)
	case 7:
		c.Devmajor = genI64(r)
	case 8:
		c.Devminor = genI64(r)
	case 9:
		if c.Xattrs == nil {
			c.Xattrs = map[string][]byte{}
		}
		k := "user.mut"
		if len(c.Xattrs) > 0 && r.P(1, 2) {
			for k = range c.Xattrs {
				break
			}
			if r.P(1, 3) {
				delete(c.Xattrs, k)
				break
			}
		}
		c.Xattrs[k] = append(append([]byte{}, c.Xattrs[k]...), byte(r.Intn(256)))
	default:
		if o.NoUnknown {
			c.Mode ^= 1
		} else {
			c.ProtoReflect().SetUnknown(append(append([]byte{}, c.ProtoReflect().GetUnknown()...), GenUnknown(r, 10, 0)...))
		}
	}
	return c, fmt.Sprintf("stat.%d", f)
}

// MutatePacket returns a modified deep copy of p.
func MutatePacket(r *core.Rand, p *types.Packet, o GenOpt) (*types.Packet, string) {
	c := CopyPacket(p)
	f := r.Intn(6)
	switch f {
	case 0:
		c.Type = types.Packet_PacketType(core.Pick(r, i32s))
	case 1:
		c.ID = genU32(r)
	case 2:
		c.Data = GenBytes(r, o)
	case 3:
		if c.Stat == nil {
			c.Stat = GenStat(r, o)
		} else if r.P(1, 5) {
			c.Stat = nil
		} else {
			c.Stat, _ = MutateStat(r, c.Stat, o)
		}
	case 4:
		if len(c.Data) > 0 {
			c.Data[r.Intn(len(c.Data))] ^= 1 << uint(r.Intn(8))
		} else {
			c.Data = []byte{byte(r.Intn(256))}
		}
	default:
		if o.NoUnknown {
			c.ID ^= 1
		} else {
			c.ProtoReflect().SetUnknown(append(append([]byte{}, c.ProtoReflect().GetUnknown()...), GenUnknown(r, 4, 0)...))
		}
	}
	return c, fmt.Sprintf("packet.%d", f)
}

// CopyStat is the harness's own deep copy (independent of CloneVT).
func CopyStat(s *types.Stat) *types.Stat {
	if s == nil {
		return nil
	}
	c := &types.Stat{Path: strings.Clone(s.Path), Mode: s.Mode, Uid: s.Uid, Gid: s.Gid, Size: s.Size, ModTime: s.ModTime,
		Linkname: strings.Clone(s.Linkname), Devmajor: s.Devmajor, Devminor: s.Devminor}
	if s.Xattrs != nil {
		c.Xattrs = make(map[string][]byte, len(s.Xattrs))
		for k, v := range s.Xattrs {
			if v == nil {
				c.Xattrs[strings.Clone(k)] = nil
			} else {
				c.Xattrs[strings.Clone(k)] = append([]byte{}, v...)
			}
		}
	}
	if u := s.ProtoReflect().GetUnknown(); len(u) > 0 {
		c.ProtoReflect().SetUnknown(append([]byte{}, u...))
	}
	return c
}

// CopyPacket is the harness's own deep copy (independent of CloneVT).
func CopyPacket(p *types.Packet) *types.Packet {
	if p == nil {
		return nil
	}
	c := &types.Packet{Type: p.Type, ID: p.ID, Stat: CopyStat(p.Stat)}
	if p.Data != nil {
		c.Data = append([]byte{}, p.Data...)
	}
	if u := p.ProtoReflect().GetUnknown(); len(u) > 0 {
		c.ProtoReflect().SetUnknown(append([]byte{}, u...))
	}
	return c
}

// StatUTF8 reports whether every proto3 string of s (path, linkname, xattr
// names) is valid UTF-8.
func StatUTF8(s *types.Stat) bool {
	if s == nil {
		return true
	}
	if !utf8.ValidString(s.Path) || !utf8.ValidString(s.Linkname) {
		return false
	}
	for k := range s.Xattrs {
		if !utf8.ValidString(k) {
			return false
		}
	}
	return true
}

// --- arbitrary byte strings -------------------------------------------------

func appendRandField(b []byte, r *core.Rand, maxNum int) []byte {
	num := uint64(r.Range(0, maxNum))
	if r.P(1, 10) {
		num = r.U64() >> uint(r.Intn(64))
	}
	wt := uint64(r.Intn(8))
	if r.P(2, 3) {
		wt = uint64(core.Pick(r, []int{0, 2, 2, 2, 1, 5}))
	}
	b = protowire.AppendVarint(b, num<<3|wt)
	switch wt {
	case 0:
		if r.P(1, 8) {
			// over-long varint
			n := r.Range(1, 12)
			for i := 0; i < n; i++ {
				b = append(b, 0x80|byte(r.Intn(128)))
			}
			b = append(b, byte(r.Intn(2)))
		} else {
			b = protowire.AppendVarint(b, uint64(genI64(r)))
		}
	case 1:
		b = append(b, r.Bytes(r.Range(0, 8))...)
	case 5:
		b = append(b, r.Bytes(r.Range(0, 4))...)
	case 2:
		payload := r.Bytes(r.Intn(30))
		if r.P(1, 3) {
			payload = nil
			for i, n := 0, r.Intn(4); i < n; i++ {
				payload = appendRandField(payload, r, 3)
			}
		}
		l := uint64(len(payload))
		switch r.Intn(8) {
		case 0:
			l = core.Pick(r, []uint64{1<<64 - 1, 1 << 63, 1<<63 - 1, 1 << 62, 1<<32 - 1, 1 << 32, 1 << 31, 1<<31 - 1, 1 << 40, uint64(len(payload)) + 1})
		case 1:
			if l > 0 {
				l--
			}
		}
		b = protowire.AppendVarint(b, l)
		b = append(b, payload...)
	}
	return b
}

// ArbitraryInput produces byte strings for the decoders: random bytes, random
// tag/value soup, and valid encodings that are mutated, truncated or spliced.
// The second result names the recipe.
func ArbitraryInput(r *core.Rand, packet bool) ([]byte, string) {
	valid := func() []byte {
		o := GenOpt{MaxBig: 40000}
		if r.P(3, 4) {
			o.MaxBig = 600
		}
		var b []byte
		if packet {
			b, _ = GenPacket(r, o).MarshalVT()
		} else {
			b, _ = GenStat(r, o).MarshalVT()
		}
		return b
	}
	switch r.Weighted([]int{3, 6, 8, 4, 3, 2, 2, 2, 1, 2}) {
	case 0:
		return r.Bytes(r.Range(0, 64)), "random"
	case 1:
		var b []byte
		for i, n := 0, r.Range(1, 12); i < n; i++ {
			b = appendRandField(b, r, 12)
		}
		return b, "fieldsoup"
	case 2:
		b := append([]byte{}, valid()...)
		if len(b) == 0 {
			return b, "mutated"
		}
		for i, n := 0, r.Range(1, 4); i < n && len(b) > 0; i++ {
			at := r.Intn(len(b))
			if r.P(1, 2) && len(b) > 24 {
				at = r.Intn(24) // headers live at the front
			}
			switch r.Intn(5) {
			case 0:
				b[at] ^= 1 << uint(r.Intn(8))
			case 1:
				b[at] = byte(r.Intn(256))
			case 2:
				b = append(b[:at], b[at+1:]...)
			case 3:
				b = append(b[:at], append([]byte{byte(r.Intn(256))}, b[at:]...)...)
			default:
				b[at] = core.Pick(r, []byte{0x00, 0x7f, 0x80, 0xff, 0x0a, 0x12, 0x52, 0x22})
			}
		}
		return b, "mutated"
	case 3:
		b := valid()
		if len(b) > 0 {
			b = b[:r.Intn(len(b))]
		}
		return b, "truncated"
	case 4:
		a, b := valid(), valid()
		if len(a) > 0 {
			a = a[:r.Intn(len(a)+1)]
		}
		if len(b) > 0 {
			b = b[r.Intn(len(b)):]
		}
		return append(append([]byte{}, a...), b...), "spliced"
	case 5:
		// a length-delimited field announcing a huge length
		num := core.Pick(r, []uint64{1, 2, 4, 7, 10, 11, 15, 99})
		b := protowire.AppendVarint(nil, num<<3|2)
		b = protowire.AppendVarint(b, core.Pick(r, []uint64{1<<64 - 1, 1 << 63, 1<<63 - 1, 1<<63 - 2, 1 << 62, 1<<32 - 1, 1 << 32, 1<<31 - 1, 1 << 31, 1 << 35, 1 << 20}))
		b = append(b, r.Bytes(r.Intn(16))...)
		if r.P(1, 2) {
			b = append(valid(), b...)
		}
		return b, "hugelen"
	case 6:
		// deep nesting of unknown groups / unknown length-delimited fields, balanced or not
		depth := core.Pick(r, []int{1, 10, 100, 1000, 10000, 50000})
		var b []byte
		num := uint64(r.Range(11, 40))
		if r.P(1, 2) {
			for i := 0; i < depth; i++ {
				b = protowire.AppendVarint(b, num<<3|3)
			}
			if r.P(2, 3) {
				for i := 0; i < depth; i++ {
					b = protowire.AppendVarint(b, num<<3|4)
				}
			}
		} else {
			if depth > 2000 {
				depth = 2000
			}
			for i := 0; i < depth; i++ {
				inner := b
				b = protowire.AppendVarint(nil, num<<3|2)
				b = protowire.AppendVarint(b, uint64(len(inner)))
				b = append(b, inner...)
			}
		}
		return b, "nested"
	case 7:
		// the same field many times: merges, map inserts, repeated sub-messages
		var b []byte
		n := r.Range(10, 3000)
		fieldNo := 10
		if packet {
			fieldNo = 2
		}
		for i := 0; i < n; i++ {
			var e []byte
			switch r.Intn(4) {
			case 0: // empty entry / empty sub-message
			case 1:
				e = protowire.AppendTag(e, 1, protowire.BytesType)
				e = protowire.AppendBytes(e, []byte(fmt.Sprintf("k%d", i)))
			case 2:
				e = protowire.AppendTag(e, 1, protowire.BytesType)
				e = protowire.AppendBytes(e, []byte(fmt.Sprintf("k%d", i)))
				e = protowire.AppendTag(e, 2, protowire.BytesType)
				e = protowire.AppendBytes(e, r.Bytes(r.Intn(4)))
			default:
				e = appendRandField(e, r, 3)
			}
			if packet && r.P(1, 2) {
				// xattr entry inside a stat inside the packet
				x := protowire.AppendTag(nil, 10, protowire.BytesType)
				e = protowire.AppendBytes(x, e)
			}
			b = protowire.AppendTag(b, protowire.Number(fieldNo), protowire.BytesType)
			b = protowire.AppendBytes(b, e)
		}
		return b, "repeated"
	case 8:
		return r.Bytes(r.Range(1000, 300000)), "bigrandom"
	default:
		// map entries with odd wire types / overlapping lengths (generated map code is lenient)
		var e []byte
		for i, n := 0, r.Range(1, 4); i < n; i++ {
			e = protowire.AppendVarint(e, uint64(r.Range(1, 3))<<3|uint64(r.Intn(6)))
			switch r.Intn(3) {
			case 0:
				e = protowire.AppendVarint(e, uint64(r.Intn(40)))
			case 1:
				e = protowire.AppendVarint(e, r.U64()>>uint(r.Intn(64)))
			default:
				e = protowire.AppendBytes(e, r.Bytes(r.Intn(6)))
			}
		}
		b := protowire.AppendTag(nil, 10, protowire.BytesType)
		b = protowire.AppendBytes(b, e)
		b = append(b, r.Bytes(r.Intn(12))...)
		if packet {
			b = protowire.AppendBytes(protowire.AppendTag(nil, 2, protowire.BytesType), b)
		}
		return b, "mapentry"
	}
}
