package codec

import (
	"github.com/tonistiigi/fsutil/types"
	"google.golang.org/protobuf/encoding/protowire"
	"google.golang.org/protobuf/proto"
	"verif/internal/core"
)

// Non-canonical but valid encodings: the protobuf wire format allows an
// encoder to write fields in any order, to write a scalar field more than
// once (the last occurrence counts), to write default values explicitly, to
// leave out the key or the value of a map entry that holds the default, to
// write the value of a map entry before its key, to repeat a map key (the
// last entry counts) and to split an embedded message over several
// occurrences (they are merged). Such bytes encode exactly one value; both
// decoders of the library must produce it. The value is known by
// construction, no decoder is used as the reference.

const SigNoncanon = "noncanonical-encoding-decodes-differently"

type emission struct {
	b []byte
}

// interleave merges per-field emission lists in a random order that keeps
// the order inside every list.
func interleave(r *core.Rand, lists [][]emission) []byte {
	var out []byte
	for {
		var live []int
		for i, l := range lists {
			if len(l) > 0 {
				live = append(live, i)
			}
		}
		if len(live) == 0 {
			return out
		}
		i := live[r.Intn(len(live))]
		out = append(out, lists[i][0].b...)
		lists[i] = lists[i][1:]
	}
}

func varintField(num protowire.Number, v uint64) emission {
	b := protowire.AppendTag(nil, num, protowire.VarintType)
	return emission{protowire.AppendVarint(b, v)}
}

func bytesField(num protowire.Number, v []byte) emission {
	b := protowire.AppendTag(nil, num, protowire.BytesType)
	return emission{protowire.AppendBytes(b, v)}
}

// scalarList emits a varint field: optional stale occurrences, then the final
// one (left out or written explicitly when it is the default).
func scalarList(r *core.Rand, num protowire.Number, v uint64, stale []uint64) []emission {
	var l []emission
	for i, n := 0, r.Weighted([]int{6, 2, 1}); i < n; i++ {
		l = append(l, varintField(num, core.Pick(r, stale)))
	}
	if v != 0 || len(l) > 0 || r.P(1, 3) {
		l = append(l, varintField(num, v))
	}
	return l
}

func stringList(r *core.Rand, num protowire.Number, v string) []emission {
	var l []emission
	for i, n := 0, r.Weighted([]int{6, 2, 1}); i < n; i++ {
		l = append(l, bytesField(num, []byte(core.Pick(r, []string{"stale", "", "x/y", "é"}))))
	}
	if v != "" || len(l) > 0 || r.P(1, 3) {
		l = append(l, bytesField(num, []byte(v)))
	}
	return l
}

// mapEntry encodes one entry of map<string,bytes> in one of the legal shapes.
func mapEntry(r *core.Rand, k string, v []byte) []byte {
	key := bytesField(1, []byte(k)).b
	val := bytesField(2, v).b
	var e []byte
	switch r.Intn(6) {
	case 0: // canonical
		e = append(append(e, key...), val...)
	case 1: // value first
		e = append(append(e, val...), key...)
	case 2: // defaults left out
		if k != "" {
			e = append(e, key...)
		}
		if len(v) != 0 {
			e = append(e, val...)
		}
	case 3: // stale key and value first, the last ones count
		e = append(e, bytesField(1, []byte("stale-key")).b...)
		e = append(e, bytesField(2, []byte("stale-value")).b...)
		e = append(append(e, key...), val...)
	case 4: // only the value left out when empty, key first
		e = append(e, key...)
		if len(v) != 0 {
			e = append(e, val...)
		}
	default: // only the key left out when empty
		if k != "" {
			e = append(e, key...)
		}
		e = append(e, val...)
	}
	return e
}

// NoncanonStatFields returns the emission lists of a Stat (one list per
// field, the xattr entries as one list whose order is kept so that repeated
// keys resolve to the last entry).
func noncanonStatLists(r *core.Rand, s *types.Stat) [][]emission {
	su := []uint64{1, 0, 1<<32 - 1, 0644}
	si := []uint64{1, 0, 1<<64 - 1, 1 << 40}
	lists := [][]emission{
		stringList(r, 1, s.Path),
		scalarList(r, 2, uint64(s.Mode), su),
		scalarList(r, 3, uint64(s.Uid), su),
		scalarList(r, 4, uint64(s.Gid), su),
		scalarList(r, 5, uint64(s.Size), si),
		scalarList(r, 6, uint64(s.ModTime), si),
		stringList(r, 7, s.Linkname),
		scalarList(r, 8, uint64(s.Devmajor), si),
		scalarList(r, 9, uint64(s.Devminor), si),
	}
	var xl []emission
	// a deterministic order of the keys (map iteration order must not leak
	// into the case): sorted, then shuffled by the PRNG
	keys := make([]string, 0, len(s.Xattrs))
	for k := range s.Xattrs {
		keys = append(keys, k)
	}
	sortStrings(keys)
	core.Shuffle(r, keys)
	for _, k := range keys {
		if r.P(1, 4) {
			// an earlier entry with the same key: the later one wins
			xl = append(xl, bytesField(10, mapEntry(r, k, []byte("overridden"))))
		}
		xl = append(xl, bytesField(10, mapEntry(r, k, s.Xattrs[k])))
	}
	lists = append(lists, xl)
	return lists
}

// NoncanonStat encodes s in a valid non-canonical way.
func NoncanonStat(r *core.Rand, s *types.Stat) []byte {
	return interleave(r, noncanonStatLists(r, s))
}

// NoncanonPacket encodes p in a valid non-canonical way; an embedded stat may
// be split over two occurrences of the field.
func NoncanonPacket(r *core.Rand, p *types.Packet) []byte {
	lists := [][]emission{
		scalarList(r, 1, uint64(uint32(p.Type)), []uint64{1, 2, 3, 0}),
		scalarList(r, 3, uint64(p.ID), []uint64{1, 0, 1<<32 - 1}),
	}
	var dl []emission
	for i, n := 0, r.Weighted([]int{6, 2}); i < n; i++ {
		dl = append(dl, bytesField(4, []byte("stale data")))
	}
	if len(p.Data) != 0 || len(dl) > 0 || r.P(1, 3) {
		dl = append(dl, bytesField(4, p.Data))
	}
	lists = append(lists, dl)
	if p.Stat != nil {
		sl := noncanonStatLists(r, p.Stat)
		if r.P(1, 2) {
			lists = append(lists, []emission{bytesField(2, interleave(r, sl))})
		} else {
			// two occurrences of the embedded message: the decoder merges
			// them; every field goes to one of the two pieces (a scalar's
			// stale and final occurrences stay in order across the pieces)
			var a, b [][]emission
			for _, l := range sl {
				cut := r.Intn(len(l) + 1)
				a = append(a, append([]emission{}, l[:cut]...))
				b = append(b, append([]emission{}, l[cut:]...))
			}
			lists = append(lists, []emission{bytesField(2, interleave(r, a)), bytesField(2, interleave(r, b))})
		}
	}
	return interleave(r, lists)
}

// CheckNoncanon decodes a non-canonical encoding of the value with every
// decoder entry point and compares with the value it was built from.
func CheckNoncanon(o Obs, r *core.Rand, packet bool, st *types.Stat, pk *types.Packet) {
	var in []byte
	if packet {
		in = NoncanonPacket(r, pk)
	} else {
		in = NoncanonStat(r, st)
	}
	o.Count("noncanonical_encodings_decoded", 1)
	type dec struct {
		name string
		fn   func(m proto.Message) error
	}
	utf8ok := true
	if packet {
		utf8ok = pk.Stat == nil || StatUTF8(pk.Stat)
	} else {
		utf8ok = StatUTF8(st)
	}
	decs := []dec{
		{"Unmarshal", func(m proto.Message) error { return m.(interface{ Unmarshal([]byte) error }).Unmarshal(in) }},
		{"UnmarshalVT", func(m proto.Message) error { return m.(interface{ UnmarshalVT([]byte) error }).UnmarshalVT(in) }},
	}
	if utf8ok {
		decs = append(decs, dec{"generic runtime", func(m proto.Message) error { return proto.Unmarshal(in, m) }})
	}
	for _, d := range decs {
		var diff string
		var err error
		out := protect(func() error {
			if packet {
				g := &types.Packet{}
				if err = d.fn(g); err == nil {
					diff = PacketDiff(pk, g)
				}
			} else {
				g := &types.Stat{}
				if err = d.fn(g); err == nil {
					diff = StatDiff(st, g)
				}
			}
			return err
		})
		switch {
		case out.panicked != nil:
			o.Violate(SigPanic, "%s panicked on a valid non-canonical encoding: %v\n input=%s", d.name, out.panicked, Hex(in))
		case err != nil:
			o.Violate(SigNoncanon, "%s rejects a valid non-canonical encoding: %v\n input=%s", d.name, err, Hex(in))
		case diff != "":
			o.Violate(SigNoncanon, "%s decodes a valid non-canonical encoding to another value than the one it encodes: %s\n input=%s", d.name, diff, Hex(in))
		default:
			o.Count("noncanonical_decodes_equal", 1)
		}
	}
}

// OverlapStat builds a Stat encoding whose xattr map entries announce key or
// value lengths that reach beyond the entry they belong to (but not beyond
// the message): n entries, each a few bytes long, each claiming everything
// that follows as its value. A decoder that checks these lengths against the
// end of the message instead of the end of the entry copies the tail once per
// entry (quadratic in the input) and decodes the same bytes again afterwards.
func OverlapStat(r *core.Rand, n int) []byte {
	// build back to front: the tail is a harmless varint field (mode = 1)
	tail := []byte{0x10, 0x01}
	for i := 0; i < n; i++ {
		key := []byte{byte('a' + i%26), byte('a' + (i/26)%26), byte('a' + (i/676)%26)}
		var hdr []byte
		hdr = protowire.AppendTag(hdr, 1, protowire.BytesType)
		hdr = protowire.AppendBytes(hdr, key)
		hdr = protowire.AppendTag(hdr, 2, protowire.BytesType)
		hdr = protowire.AppendVarint(hdr, uint64(len(tail))) // the value "is" everything that follows
		var e []byte
		e = protowire.AppendTag(e, 10, protowire.BytesType)
		e = protowire.AppendVarint(e, uint64(len(hdr))) // but the entry ends after its header
		e = append(e, hdr...)
		tail = append(e, tail...)
	}
	return tail
}

// RenameObs forwards to an Obs with one violation class renamed.
type RenameObs struct {
	Obs
	From, To string
}

func (o RenameObs) Violate(sig, format string, a ...any) {
	if sig == o.From {
		sig = o.To
	}
	o.Obs.Violate(sig, format, a...)
}
