package codec

import (
	"bytes"
	"encoding/hex"
	"fmt"
	"runtime"
	"sort"
	"strings"

	"github.com/tonistiigi/fsutil/types"
	"google.golang.org/protobuf/encoding/protowire"
	"google.golang.org/protobuf/proto"
)

// Obs receives what the oracles observe; *core.Result implements it.
type Obs interface {
	Violate(sig, format string, a ...any)
	Count(k string, n int64)
	AddSet(k, v string)
}

// Signatures of the violation classes.
const (
	SigD10        = "D10-packet-marshalto"
	SigNonUTF8    = "nonutf8-generic-runtime"
	SigRecvAlloc  = "recvmsg-overalloc"
	SigUnmAlloc   = "unmarshal-overalloc"
	SigPanic      = "codec-panic"
	SigVTVT       = "vt-roundtrip"
	SigVTGen      = "vt-to-generic"
	SigGenVT      = "generic-to-vt"
	SigSize       = "size-mismatch"
	SigMarshalTo  = "marshalto"
	SigWrapper    = "wrapper-roundtrip"
	SigClone      = "clone"
	SigEqual      = "equalvt-disagrees"
	SigFraming    = "framing-roundtrip"
	SigSendFormat = "sendmsg-wire-format"
	SigAlias      = "recv-aliasing"
	SigEOF        = "eof-handling"
	SigEOFInside  = "truncated-frame-reported-as-EOF"
	SigRecvDiff   = "recvmsg-differs-from-reference"
)

// Hex renders a witness, abbreviated in the middle when long.
func Hex(b []byte) string {
	if len(b) <= 96 {
		return hex.EncodeToString(b)
	}
	return fmt.Sprintf("%s...(%d bytes)...%s", hex.EncodeToString(b[:64]), len(b), hex.EncodeToString(b[len(b)-16:]))
}

func q(s string) string {
	if len(s) > 48 {
		return fmt.Sprintf("%q...(%d bytes)", s[:32], len(s))
	}
	return fmt.Sprintf("%q", s)
}

// DescribeStat renders a value compactly.
func DescribeStat(s *types.Stat) string {
	if s == nil {
		return "nil"
	}
	var xs []string
	for k, v := range s.Xattrs {
		if v == nil {
			xs = append(xs, q(k)+":nil")
		} else {
			xs = append(xs, fmt.Sprintf("%s:%dB", q(k), len(v)))
		}
	}
	sort.Strings(xs)
	if len(xs) > 6 {
		xs = append(xs[:6], fmt.Sprintf("...%d entries", len(s.Xattrs)))
	}
	x := "nil"
	if s.Xattrs != nil {
		x = "{" + strings.Join(xs, ",") + "}"
	}
	return fmt.Sprintf("Stat{path=%s mode=%#o uid=%d gid=%d size=%d mtime=%d link=%s dev=%d,%d xattrs=%s unknown=%s}",
		q(s.Path), s.Mode, s.Uid, s.Gid, s.Size, s.ModTime, q(s.Linkname), s.Devmajor, s.Devminor, x, Hex(s.ProtoReflect().GetUnknown()))
}

// DescribePacket renders a value compactly.
func DescribePacket(p *types.Packet) string {
	if p == nil {
		return "nil"
	}
	d := "nil"
	if p.Data != nil {
		d = fmt.Sprintf("%dB", len(p.Data))
		if len(p.Data) <= 16 {
			d += ":" + hex.EncodeToString(p.Data)
		}
	}
	return fmt.Sprintf("Packet{type=%d id=%d data=%s stat=%s unknown=%s}", int32(p.Type), p.ID, d, DescribeStat(p.Stat), Hex(p.ProtoReflect().GetUnknown()))
}

// unknownEq compares unknown fields like proto.Equal does: per field number,
// in order. Unparseable unknown bytes are compared literally.
func unknownEq(a, b []byte) bool {
	if bytes.Equal(a, b) {
		return true
	}
	split := func(u []byte) (map[protowire.Number][]byte, bool) {
		m := map[protowire.Number][]byte{}
		for len(u) > 0 {
			num, _, n := protowire.ConsumeField(u)
			if n < 0 {
				return nil, false
			}
			m[num] = append(m[num], u[:n]...)
			u = u[n:]
		}
		return m, true
	}
	ma, ok1 := split(a)
	mb, ok2 := split(b)
	if !ok1 || !ok2 || len(ma) != len(mb) {
		return false
	}
	for k, v := range ma {
		if !bytes.Equal(v, mb[k]) {
			return false
		}
	}
	return true
}

// StatDiff is the harness's own field-by-field comparison ("" = equal). nil
// and empty byte slices / maps are the same proto3 value.
func StatDiff(a, b *types.Stat) string {
	if a == nil || b == nil {
		if a == nil && b == nil {
			return ""
		}
		return fmt.Sprintf("stat presence: %v vs %v", a != nil, b != nil)
	}
	switch {
	case a.Path != b.Path:
		return fmt.Sprintf("path %s vs %s", q(a.Path), q(b.Path))
	case a.Mode != b.Mode:
		return fmt.Sprintf("mode %d vs %d", a.Mode, b.Mode)
	case a.Uid != b.Uid:
		return fmt.Sprintf("uid %d vs %d", a.Uid, b.Uid)
	case a.Gid != b.Gid:
		return fmt.Sprintf("gid %d vs %d", a.Gid, b.Gid)
	case a.Size != b.Size:
		return fmt.Sprintf("size %d vs %d", a.Size, b.Size)
	case a.ModTime != b.ModTime:
		return fmt.Sprintf("modtime %d vs %d", a.ModTime, b.ModTime)
	case a.Linkname != b.Linkname:
		return fmt.Sprintf("linkname %s vs %s", q(a.Linkname), q(b.Linkname))
	case a.Devmajor != b.Devmajor:
		return fmt.Sprintf("devmajor %d vs %d", a.Devmajor, b.Devmajor)
	case a.Devminor != b.Devminor:
		return fmt.Sprintf("devminor %d vs %d", a.Devminor, b.Devminor)
	case len(a.Xattrs) != len(b.Xattrs):
		return fmt.Sprintf("xattr count %d vs %d", len(a.Xattrs), len(b.Xattrs))
	}
	for k, v := range a.Xattrs {
		w, ok := b.Xattrs[k]
		if !ok {
			return fmt.Sprintf("xattr %s missing", q(k))
		}
		if !bytes.Equal(v, w) {
			return fmt.Sprintf("xattr %s value %s vs %s", q(k), Hex(v), Hex(w))
		}
	}
	if !unknownEq(a.ProtoReflect().GetUnknown(), b.ProtoReflect().GetUnknown()) {
		return fmt.Sprintf("unknown fields %s vs %s", Hex(a.ProtoReflect().GetUnknown()), Hex(b.ProtoReflect().GetUnknown()))
	}
	return ""
}

// PacketDiff is the harness's own comparison ("" = equal).
func PacketDiff(a, b *types.Packet) string {
	if a == nil || b == nil {
		if a == nil && b == nil {
			return ""
		}
		return "packet presence"
	}
	switch {
	case a.Type != b.Type:
		return fmt.Sprintf("type %d vs %d", a.Type, b.Type)
	case a.ID != b.ID:
		return fmt.Sprintf("id %d vs %d", a.ID, b.ID)
	case !bytes.Equal(a.Data, b.Data):
		i := 0
		for i < len(a.Data) && i < len(b.Data) && a.Data[i] == b.Data[i] {
			i++
		}
		return fmt.Sprintf("data differs (len %d vs %d, first difference at %d)", len(a.Data), len(b.Data), i)
	}
	if d := StatDiff(a.Stat, b.Stat); d != "" {
		return "stat: " + d
	}
	if !unknownEq(a.ProtoReflect().GetUnknown(), b.ProtoReflect().GetUnknown()) {
		return fmt.Sprintf("unknown fields %s vs %s", Hex(a.ProtoReflect().GetUnknown()), Hex(b.ProtoReflect().GetUnknown()))
	}
	return ""
}

// HasMarshalTo reports whether *types.Packet has the method the byte stream
// needs (defect D10 when it does not).
func HasMarshalTo() bool {
	_, ok := any(&types.Packet{}).(interface{ MarshalTo([]byte) (int, error) })
	return ok
}

// msg abstracts over *types.Stat and *types.Packet for the value oracle.
type msg struct {
	kind     string
	m        proto.Message
	utf8     bool
	describe string
	fresh    func() msg
	diff     func(other msg) string
	equalVT  func(other msg) bool
	cloneVT  func() msg
	scramble func() // flips every byte slice reachable from the value in place
}

type vtCodec interface {
	MarshalVT() ([]byte, error)
	MarshalVTStrict() ([]byte, error)
	MarshalToVT([]byte) (int, error)
	MarshalToSizedBufferVT([]byte) (int, error)
	MarshalToVTStrict([]byte) (int, error)
	SizeVT() int
	UnmarshalVT([]byte) error
	Marshal() ([]byte, error)
	Unmarshal([]byte) error
}

func (m msg) vt() vtCodec { return m.m.(vtCodec) }

func scrambleStat(s *types.Stat) {
	if s == nil {
		return
	}
	for _, v := range s.Xattrs {
		for i := range v {
			v[i] ^= 0xff
		}
	}
}

func statMsg(s *types.Stat) msg {
	var m msg
	m = msg{kind: "Stat", m: s, utf8: StatUTF8(s), describe: DescribeStat(s),
		fresh:    func() msg { return statMsg(&types.Stat{}) },
		diff:     func(o msg) string { return StatDiff(s, o.m.(*types.Stat)) },
		equalVT:  func(o msg) bool { return s.EqualVT(o.m.(*types.Stat)) },
		cloneVT:  func() msg { return statMsg(s.CloneVT()) },
		scramble: func() { scrambleStat(s) },
	}
	return m
}

func packetMsg(p *types.Packet) msg {
	return msg{kind: "Packet", m: p, utf8: StatUTF8(p.Stat), describe: DescribePacket(p),
		fresh:   func() msg { return packetMsg(&types.Packet{}) },
		diff:    func(o msg) string { return PacketDiff(p, o.m.(*types.Packet)) },
		equalVT: func(o msg) bool { return p.EqualVT(o.m.(*types.Packet)) },
		cloneVT: func() msg { return packetMsg(p.CloneVT()) },
		scramble: func() {
			for i := range p.Data {
				p.Data[i] ^= 0xff
			}
			scrambleStat(p.Stat)
		},
	}
}

// CheckStatValue applies the value round-trip oracles to s.
func CheckStatValue(o Obs, s *types.Stat) { checkValue(o, statMsg(s)) }

// CheckPacketValue applies the value round-trip oracles to p.
func CheckPacketValue(o Obs, p *types.Packet) { checkValue(o, packetMsg(p)) }

// CheckStatNotEqual: EqualVT must tell a from b whenever the harness's own
// comparison does.
func CheckStatNotEqual(o Obs, a, b *types.Stat) {
	d := StatDiff(a, b)
	if (d == "") != a.EqualVT(b) || (d == "") != b.EqualVT(a) {
		o.Violate(SigEqual, "Stat.EqualVT=%v/%v but the values differ in: %q\n a=%s\n b=%s", a.EqualVT(b), b.EqualVT(a), d, DescribeStat(a), DescribeStat(b))
	}
	if d != "" {
		o.Count("equalvt_told_apart", 1)
	}
}

// CheckPacketNotEqual is the Packet counterpart.
func CheckPacketNotEqual(o Obs, a, b *types.Packet) {
	d := PacketDiff(a, b)
	if (d == "") != a.EqualVT(b) || (d == "") != b.EqualVT(a) {
		o.Violate(SigEqual, "Packet.EqualVT=%v/%v but the values differ in: %q\n a=%s\n b=%s", a.EqualVT(b), b.EqualVT(a), d, DescribePacket(a), DescribePacket(b))
	}
	if d != "" {
		o.Count("equalvt_told_apart", 1)
	}
}

func checkValue(o Obs, v msg) {
	out := protect(func() error { checkValueUnprotected(o, v); return nil })
	if out.panicked != nil {
		o.Violate(SigPanic, "the %s codec panicked on a value: %v\n value=%s\n%s", v.kind, out.panicked, v.describe, out.stack)
	}
}

func checkValueUnprotected(o Obs, v msg) {
	k := v.kind
	o.Count("values_checked", 1)
	c := v.vt()
	b, err := c.MarshalVT()
	if err != nil {
		o.Violate(SigVTVT, "%s.MarshalVT failed: %v\n value=%s", k, err, v.describe)
		return
	}
	wit := func() string { return fmt.Sprintf(" value=%s\n vt-encoding=%s", v.describe, Hex(b)) }

	// size agreement
	if n := c.SizeVT(); n != len(b) {
		o.Violate(SigSize, "%s.SizeVT()=%d but MarshalVT produced %d bytes\n%s", k, n, len(b), wit())
	}
	if p, ok := v.m.(*types.Packet); ok {
		if n := p.Size(); n != len(b) {
			o.Violate(SigSize, "Packet.Size()=%d but MarshalVT produced %d bytes\n%s", n, len(b), wit())
		}
	}

	// VT -> VT
	decode := func(sig, what string, enc []byte, wrapper bool) bool {
		w := v.fresh()
		var err error
		if wrapper {
			err = w.vt().Unmarshal(enc)
		} else {
			err = w.vt().UnmarshalVT(enc)
		}
		if err != nil {
			o.Violate(sig, "%s: %s does not decode with the vt codec: %v\n%s\n encoding=%s", k, what, err, wit(), Hex(enc))
			return false
		}
		if d := v.diff(w); d != "" {
			o.Violate(sig, "%s: %s decodes (vt) to a different value: %s\n%s\n encoding=%s\n decoded=%s", k, what, d, wit(), Hex(enc), w.describe)
			return false
		}
		if !v.equalVT(w) || !proto.Equal(v.m, w.m) {
			o.Violate(SigEqual, "%s: %s decodes to a field-wise identical value but EqualVT=%v proto.Equal=%v\n%s", k, what, v.equalVT(w), proto.Equal(v.m, w.m), wit())
			return false
		}
		return true
	}
	if decode(SigVTVT, "MarshalVT output", b, false) {
		o.Count("roundtrip_vt_vt", 1)
	}

	// wrappers and the other marshal entry points
	if bs, err := c.Marshal(); err != nil || len(bs) != len(b) {
		o.Violate(SigWrapper, "%s.Marshal(): err=%v, %d bytes (MarshalVT: %d)\n%s", k, err, len(bs), len(b), wit())
	} else if decode(SigWrapper, "Marshal() output read with Unmarshal()", bs, true) {
		o.Count("roundtrip_wrappers", 1)
	}
	if bs, err := c.MarshalVTStrict(); err != nil || len(bs) != len(b) {
		o.Violate(SigWrapper, "%s.MarshalVTStrict(): err=%v, %d bytes (MarshalVT: %d)\n%s", k, err, len(bs), len(b), wit())
	} else {
		decode(SigWrapper, "MarshalVTStrict output", bs, false)
	}
	const pad = 9
	into := func(name string, f func([]byte) (int, error), exact bool) {
		buf := make([]byte, len(b)+pad)
		for i := range buf {
			buf[i] = 0xA5
		}
		arg := buf
		if exact {
			arg = buf[:len(b)]
		}
		n, err := f(arg)
		if err != nil || n != len(b) {
			o.Violate(SigMarshalTo, "%s.%s returned (%d, %v), want (%d, nil)\n%s", k, name, n, err, len(b), wit())
			return
		}
		for _, x := range buf[len(b):] {
			if x != 0xA5 {
				o.Violate(SigMarshalTo, "%s.%s wrote beyond the %d bytes it reported\n%s", k, name, n, wit())
				return
			}
		}
		if decode(SigMarshalTo, name+" output (from the start of the buffer)", buf[:n], false) {
			o.Count("marshalto_checked", 1)
		}
	}
	into("MarshalToVT", c.MarshalToVT, false)
	into("MarshalToVTStrict", c.MarshalToVTStrict, false)
	into("MarshalToSizedBufferVT", c.MarshalToSizedBufferVT, true)
	if mt, ok := v.m.(interface{ MarshalTo([]byte) (int, error) }); ok {
		into("MarshalTo", mt.MarshalTo, false)
	}

	// clone: equal and deep
	cl := v.cloneVT()
	if d := v.diff(cl); d != "" {
		o.Violate(SigClone, "%s.CloneVT differs from the original: %s\n%s", k, d, wit())
	} else {
		cl.scramble()
		w := v.fresh()
		if err := w.vt().UnmarshalVT(b); err == nil {
			if d := v.diff(w); d != "" {
				o.Violate(SigClone, "%s.CloneVT shares memory with the original: after overwriting the clone's bytes the original changed: %s\n%s", k, d, wit())
			} else {
				o.Count("clones_checked", 1)
			}
		}
	}
	if s, ok := v.m.(*types.Stat); ok {
		if d := StatDiff(s, s.Clone()); d != "" {
			o.Violate(SigClone, "Stat.Clone differs from the original: %s\n%s", d, wit())
		}
	}

	// VT -> generic runtime
	g := v.fresh()
	gerr := proto.Unmarshal(b, g.m)
	switch {
	case gerr != nil && !v.utf8:
		o.Count("nonutf8_rejected_by_generic_decode", 1)
		o.Violate(SigNonUTF8, "%s with a name that is not valid UTF-8: the vt codec encodes and decodes it, the generic protobuf runtime rejects the same bytes: proto.Unmarshal: %v\n%s", k, gerr, wit())
	case gerr != nil:
		o.Violate(SigVTGen, "%s: vt encoding rejected by the generic runtime: %v\n%s", k, gerr, wit())
	default:
		if d := v.diff(g); d != "" {
			o.Violate(SigVTGen, "%s: vt encoding decodes with the generic runtime to a different value: %s\n%s\n decoded=%s", k, d, wit(), g.describe)
		} else if !proto.Equal(v.m, g.m) || !v.equalVT(g) {
			o.Violate(SigEqual, "%s: generic decode is field-wise identical but EqualVT=%v proto.Equal=%v\n%s", k, v.equalVT(g), proto.Equal(v.m, g.m), wit())
		} else {
			o.Count("roundtrip_vt_generic", 1)
		}
	}

	// generic runtime -> VT
	gb, gerr := proto.Marshal(v.m)
	switch {
	case gerr != nil && !v.utf8:
		o.Count("nonutf8_rejected_by_generic_encode", 1)
		o.Violate(SigNonUTF8, "%s with a name that is not valid UTF-8 cannot be encoded by the generic protobuf runtime: proto.Marshal: %v\n%s", k, gerr, wit())
	case gerr != nil:
		o.Violate(SigGenVT, "%s: proto.Marshal failed: %v\n%s", k, gerr, wit())
	default:
		if decode(SigGenVT, "proto.Marshal output", gb, false) {
			o.Count("roundtrip_generic_vt", 1)
			if len(gb) == len(b) {
				o.Count("generic_and_vt_encodings_same_length", 1)
			}
		}
	}
}

// --- allocation measurement -------------------------------------------------

var ms0, ms1 runtime.MemStats

// AllocBytes returns the number of heap bytes allocated while f ran
// (TotalAlloc delta; exact for the calling goroutine when nothing else
// allocates concurrently, an over-estimate otherwise).
func AllocBytes(f func()) uint64 {
	runtime.ReadMemStats(&ms0)
	f()
	runtime.ReadMemStats(&ms1)
	return ms1.TotalAlloc - ms0.TotalAlloc
}

// UnmarshalBound is the allocation bound of the design for one Unmarshal call.
func UnmarshalBound(n int) uint64 { return 512*uint64(n) + 64<<10 }

type decodeOutcome struct {
	panicked any
	stack    string
	err      error
}

func protect(f func() error) (out decodeOutcome) {
	defer func() {
		if e := recover(); e != nil {
			out.panicked = e
			buf := make([]byte, 4096)
			out.stack = string(buf[:runtime.Stack(buf, false)])
		}
	}()
	out.err = f()
	return
}

// CheckUnmarshal feeds arbitrary bytes to Stat.Unmarshal or Packet.Unmarshal:
// value or error, no panic, bounded allocation; a value that comes out must
// itself round-trip through the vt codec. It reports whether the input was
// accepted.
func CheckUnmarshal(o Obs, packet bool, in []byte) bool {
	kind := "Stat"
	if packet {
		kind = "Packet"
	}
	var st *types.Stat
	var pk *types.Packet
	var out decodeOutcome
	call := func() {
		// allocate the message outside the protected call: only the decoder's own work counts
		if packet {
			pk = &types.Packet{}
			out = protect(func() error { return pk.Unmarshal(in) })
		} else {
			st = &types.Stat{}
			out = protect(func() error { return st.Unmarshal(in) })
		}
	}
	alloc := AllocBytes(call)
	o.Count("arbitrary_inputs_decoded", 1)
	if out.panicked != nil {
		o.Violate(SigPanic, "%s.Unmarshal panicked on %d input bytes: %v\n input=%s\n%s", kind, len(in), out.panicked, Hex(in), out.stack)
		return false
	}
	bound := UnmarshalBound(len(in))
	for try := 0; alloc > bound && try < 3; try++ {
		// allocation of a decode is deterministic; anything else (runtime background work) only adds. Take the minimum.
		if a := AllocBytes(call); a < alloc {
			alloc = a
		}
	}
	if alloc > bound {
		o.Violate(SigUnmAlloc, "%s.Unmarshal allocated %d bytes for %d input bytes (bound 512*len+64KiB = %d)\n input=%s", kind, alloc, len(in), bound, Hex(in))
	}
	o.Count("unmarshal_alloc_"+boundBucket(alloc, bound), 1)
	if out.err != nil {
		o.Count("arbitrary_inputs_rejected", 1)
		// diagnostic: does the generic runtime agree?
		return false
	}
	o.Count("arbitrary_inputs_accepted", 1)

	// the decoded value is a value: it must survive its own codec
	var v msg
	if packet {
		v = packetMsg(pk)
	} else {
		v = statMsg(st)
	}
	b, err := v.vt().MarshalVT()
	if err != nil {
		o.Violate(SigVTVT, "%s decoded from arbitrary bytes cannot be re-encoded: %v\n input=%s", kind, err, Hex(in))
		return true
	}
	if v.vt().SizeVT() != len(b) {
		o.Violate(SigSize, "%s decoded from arbitrary bytes: SizeVT()=%d but MarshalVT produced %d bytes\n input=%s\n value=%s", kind, v.vt().SizeVT(), len(b), Hex(in), v.describe)
	}
	w := v.fresh()
	if err := w.vt().UnmarshalVT(b); err != nil {
		o.Violate(SigVTVT, "%s decoded from arbitrary bytes re-encodes to bytes the vt codec rejects: %v\n input=%s\n re-encoded=%s", kind, err, Hex(in), Hex(b))
	} else if d := v.diff(w); d != "" {
		o.Violate(SigVTVT, "%s decoded from arbitrary bytes does not survive a vt round trip: %s\n input=%s\n value=%s\n re-encoded=%s", kind, d, Hex(in), v.describe, Hex(b))
	} else {
		o.Count("decoded_values_reencoded", 1)
	}

	// diagnostics only (the statement does not relate the two decoders on malformed input)
	g := v.fresh()
	gerr := proto.Unmarshal(in, g.m)
	switch {
	case gerr != nil:
		o.Count("diag_vt_accepts_generic_rejects", 1)
	case v.diff(g) != "":
		o.Count("diag_both_accept_values_differ", 1)
		d := v.diff(g)
		if len(d) > 60 {
			d = d[:60]
		}
		o.AddSet("diag_differing_decodes", kind+": "+d+" input="+Hex(in))
	default:
		o.Count("diag_both_accept_same_value", 1)
	}
	return true
}

// boundBucket names the histogram bucket of an allocation relative to its bound.
func boundBucket(alloc, bound uint64) string {
	switch {
	case alloc == 0:
		return "zero"
	case alloc*100 <= bound:
		return "le_1pct_of_bound"
	case alloc*10 <= bound:
		return "le_10pct_of_bound"
	case alloc*2 <= bound:
		return "le_50pct_of_bound"
	case alloc <= bound:
		return "le_100pct_of_bound"
	}
	return "OVER_bound"
}
