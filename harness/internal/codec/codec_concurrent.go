package codec

import (
	"context"
	"fmt"
	"io"
	"sync"

	"github.com/tonistiigi/fsutil/types"
	"github.com/tonistiigi/fsutil/util"
	"google.golang.org/protobuf/encoding/protowire"
	"verif/internal/core"
)

// Several streams of one process received at the same time: the read buffers
// of RecvMsg come from one package-wide pool, so a buffer that goes back to
// the pool before its frame has been decoded (or that two calls hold at once)
// shows as a packet of one stream carrying bytes of another. Every packet is
// a DATA packet whose payload is one byte value repeated, unique per (stream,
// position); the frames are built by the harness's own encoder.

const SigConcurrent = "concurrent-streams-mixed"

type patternReader struct {
	stream, n, size int
	seq             int
	cur             []byte
}

func patternByte(stream, seq int) byte { return byte(1 + (stream*37+seq*11)%251) }

func (p *patternReader) Read(b []byte) (int, error) {
	if len(p.cur) == 0 {
		if p.seq >= p.n {
			return 0, io.EOF
		}
		payload := make([]byte, p.size)
		v := patternByte(p.stream, p.seq)
		for i := range payload {
			payload[i] = v
		}
		var body []byte
		body = protowire.AppendTag(body, 1, protowire.VarintType)
		body = protowire.AppendVarint(body, uint64(types.PACKET_DATA))
		body = protowire.AppendTag(body, 3, protowire.VarintType)
		body = protowire.AppendVarint(body, uint64(p.stream<<16|p.seq))
		body = protowire.AppendTag(body, 4, protowire.BytesType)
		body = protowire.AppendBytes(body, payload)
		p.cur = append(Header(nil, uint32(len(body))), body...)
		p.seq++
	}
	n := copy(b, p.cur)
	p.cur = p.cur[n:]
	return n, nil
}

// CheckConcurrentStreams receives k streams of n packets at once and compares
// every packet with what its stream was built from.
func CheckConcurrentStreams(o Obs, r *core.Rand, k, n int) {
	sizes := []int{PoolBuf - 100, PoolBuf + 1, 100000, 256 << 10, 512 << 10}
	var wg sync.WaitGroup
	var mu sync.Mutex
	var bad []string
	packets := 0
	for s := 0; s < k; s++ {
		pr := &patternReader{stream: s, n: n, size: core.Pick(r, sizes)}
		wg.Add(1)
		go func(s int, pr *patternReader) {
			defer wg.Done()
			st := util.NewProtoStream(context.Background(), pr, io.Discard)
			for i := 0; ; i++ {
				var p types.Packet
				err := st.RecvMsg(&p)
				if err == io.EOF && i == n {
					return
				}
				why := ""
				switch {
				case err != nil:
					why = fmt.Sprintf("RecvMsg: %v", err)
				case p.Type != types.PACKET_DATA || p.ID != uint32(s<<16|i):
					why = fmt.Sprintf("decoded type %v id %#x, sent DATA id %#x", p.Type, p.ID, s<<16|i)
				case len(p.Data) != pr.size:
					why = fmt.Sprintf("payload of %d bytes, sent %d", len(p.Data), pr.size)
				default:
					want := patternByte(s, i)
					for j, b := range p.Data {
						if b != want {
							why = fmt.Sprintf("payload byte %d is %#x, the frame holds %#x throughout", j, b, want)
							break
						}
					}
				}
				mu.Lock()
				packets++
				if why != "" && len(bad) < 3 {
					bad = append(bad, fmt.Sprintf("stream %d packet %d: %s", s, i, why))
				}
				mu.Unlock()
				if why != "" {
					return
				}
			}
		}(s, pr)
	}
	wg.Wait()
	o.Count("concurrent_stream_sessions", 1)
	o.Count("concurrent_stream_packets_compared", int64(packets))
	for _, b := range bad {
		o.Violate(SigConcurrent, "%d streams received at once in one process: %s", k, b)
	}
}

// A message whose encoding does not fit the 32-bit length prefix: SendMsg has
// to refuse it. The message only claims its size (nothing of that size is
// built here); a sender that does not check would announce the size modulo
// 2^32 and write the whole body, which the reader takes for further frames.

const SigOversized = "oversized-message-sent"

type claimedSize struct{ n int }

func (c claimedSize) Size() int                       { return c.n }
func (c claimedSize) MarshalTo(b []byte) (int, error) { return len(b), nil }

type countingWriter struct{ n int64 }

func (w *countingWriter) Write(b []byte) (int, error) { w.n += int64(len(b)); return len(b), nil }

func CheckOversizedSend(o Obs) {
	w := &countingWriter{}
	s := util.NewProtoStream(context.Background(), io.LimitReader(nil, 0), w)
	for _, n := range []int{1<<32 + 10, 1 << 32, 1<<33 + 1} {
		before := w.n
		err := s.SendMsg(claimedSize{n})
		o.Count("oversized_messages_offered", 1)
		if err == nil {
			o.Violate(SigOversized, "SendMsg accepted a message of %d bytes (more than the 32-bit length prefix can announce) and wrote %d bytes", n, w.n-before)
		}
	}
}

// One packet object that is sized, sent, changed and sent again (a sender
// loop that reuses its packet): every frame must hold the value the packet
// had when it was sent, whatever was computed for an earlier value.

const SigResend = "resent-packet-encoded-stale"

type bufWriter struct{ b []byte }

func (w *bufWriter) Write(p []byte) (int, error) { w.b = append(w.b, p...); return len(p), nil }

func CheckResend(o Obs, r *core.Rand) {
	w := &bufWriter{}
	s := util.NewProtoStream(context.Background(), io.LimitReader(nil, 0), w)
	p := &types.Packet{}
	var want []*types.Packet
	for i, n := 0, 3+r.Intn(6); i < n; i++ {
		switch r.Intn(5) {
		case 0:
			p.Data = r.Bytes(core.Pick(r, []int{0, 1, 5, 100, 40000}))
		case 1:
			p.ID = uint32(r.Intn(1 << 20))
		case 2:
			p.Stat = &types.Stat{Path: string(r.Bytes(r.Intn(20))), Mode: uint32(r.Intn(1 << 12)), Size: int64(r.Intn(1 << 30))}
		case 3:
			p.Stat = nil
			p.Data = nil
		default:
			p.Type = types.Packet_PacketType(r.Intn(5))
		}
		if r.P(1, 2) {
			_ = p.Size() // a caller that looks at the size first
		}
		want = append(want, p.CloneVT())
		out := protect(func() error { return s.SendMsg(p) })
		if out.panicked != nil {
			o.Violate(SigResend, "SendMsg of a packet that was changed after an earlier send panicked: %v", out.panicked)
			return
		}
		if out.err != nil {
			o.Violate(SigResend, "SendMsg of a packet that was changed after an earlier send failed: %v", out.err)
			return
		}
	}
	o.Count("packets_resent_after_a_change", int64(len(want)))
	bodies, tail, _, _ := ParseFrames(w.b)
	if len(bodies) != len(want) || len(tail) != 0 {
		o.Violate(SigResend, "%d sends of one changing packet; a reference reader finds %d complete frames and %d trailing bytes", len(want), len(bodies), len(tail))
		return
	}
	for i, b := range bodies {
		var v types.Packet
		if err := v.UnmarshalVT(b); err != nil {
			o.Violate(SigResend, "frame %d of %d (one packet object, changed between sends) does not decode: %v", i, len(want), err)
			return
		}
		if d := PacketDiff(want[i], &v); d != "" {
			o.Violate(SigResend, "frame %d of %d (one packet object, changed between sends) holds another value than the packet had when it was sent: %s", i, len(want), d)
			return
		}
	}
}

// One stream object used in both directions at once, which is how a session
// uses it (Send and Receive read in one goroutine and write in others). The
// interleaving is made, not hoped for: the reader hands RecvMsg the header
// and a part of the body and stalls in its next Read until a SendMsg on the
// same object has completed; in the other half the writer stalls in the
// middle of its Write (it may look at the buffer for the whole call) until a
// RecvMsg on the same object has completed. What is received and what is
// written must be what was sent, whatever the other direction did meanwhile.

const SigDuplex = "duplex-directions-interfere"

type stallReader struct {
	data    []byte
	cut     int
	stalled chan struct{}
	resume  chan struct{}
	once    sync.Once
}

func (s *stallReader) Read(b []byte) (int, error) {
	if s.cut > 0 {
		n := copy(b, s.data[:s.cut])
		s.data, s.cut = s.data[n:], s.cut-n
		return n, nil
	}
	s.once.Do(func() { close(s.stalled); <-s.resume })
	if len(s.data) == 0 {
		return 0, io.EOF
	}
	n := copy(b, s.data)
	s.data = s.data[n:]
	return n, nil
}

type stallWriter struct {
	out     []byte
	stallAt int // stall in the first Write that carries at least this many bytes
	stalled chan struct{}
	resume  chan struct{}
	once    sync.Once
}

func (w *stallWriter) Write(p []byte) (int, error) {
	if len(p) >= w.stallAt {
		half := len(p) / 2
		w.out = append(w.out, p[:half]...)
		w.once.Do(func() { close(w.stalled); <-w.resume })
		w.out = append(w.out, p[half:]...)
		return len(p), nil
	}
	w.out = append(w.out, p...)
	return len(p), nil
}

func duplexPacket(r *core.Rand, id uint32) *types.Packet {
	switch r.Intn(3) {
	case 0:
		return &types.Packet{Type: types.PACKET_REQ, ID: id}
	case 1:
		return &types.Packet{Type: types.PACKET_DATA, ID: id, Data: r.Bytes(core.Pick(r, []int{1, 500, 1000, 5000, PoolBuf - 10, PoolBuf + 10, 70000}))}
	default:
		return &types.Packet{Type: types.PACKET_STAT, Stat: &types.Stat{Path: asciiName(r, r.Range(1, 300)), Mode: uint32(r.Intn(1 << 12)), Size: int64(r.Intn(1 << 30)), Linkname: asciiName(r, r.Intn(50))}}
	}
}

func asciiName(r *core.Rand, n int) string {
	b := r.Bytes(n)
	for i := range b {
		b[i] = 'a' + b[i]%26
	}
	return string(b)
}

func encodeFrame(p *types.Packet) []byte {
	body, _ := p.MarshalVT()
	return append(Header(nil, uint32(len(body))), body...)
}

// CheckDuplex runs both halves once.
func CheckDuplex(o Obs, r *core.Rand) {
	in, out := duplexPacket(r, 7), duplexPacket(r, 9)
	for in.Type == types.PACKET_REQ { // the incoming frame needs a body to be cut in
		in = duplexPacket(r, 7)
	}
	// half one: RecvMsg stalled inside a frame, SendMsg meanwhile
	{
		frame := encodeFrame(in)
		cut := 4 + r.Range(1, len(frame)-5)
		if r.P(1, 3) {
			cut = r.Range(1, 4) // inside the header
		}
		sr := &stallReader{data: append(frame, encodeFrame(out)...), cut: cut, stalled: make(chan struct{}), resume: make(chan struct{})}
		w := &bufWriter{}
		st := util.NewProtoStream(context.Background(), sr, w)
		var got, got2 types.Packet
		var rerr, rerr2 error
		done := make(chan struct{})
		go func() {
			defer close(done)
			rerr = st.RecvMsg(&got)
			if rerr == nil {
				rerr2 = st.RecvMsg(&got2)
			}
		}()
		select {
		case <-sr.stalled:
		case <-done: // (a RecvMsg that gave up before asking for the rest)
		}
		serr := st.SendMsg(out)
		close(sr.resume)
		<-done
		o.Count("duplex_receives_stalled_inside_a_frame", 1)
		switch {
		case serr != nil:
			o.Violate(SigDuplex, "SendMsg while a RecvMsg of the same stream waits inside a frame failed: %v", serr)
		case rerr != nil:
			o.Violate(SigDuplex, "RecvMsg of a frame delivered in two pieces (cut after %d of %d bytes) failed after a SendMsg on the same stream ran in between: %v", cut, len(frame), rerr)
		case PacketDiff(in, &got) != "":
			o.Violate(SigDuplex, "RecvMsg of a frame delivered in two pieces (cut after %d of %d bytes) with a SendMsg on the same stream in between: %s", cut, len(frame), PacketDiff(in, &got))
		case rerr2 != nil || PacketDiff(out, &got2) != "":
			o.Violate(SigDuplex, "the frame after one that was received around a SendMsg of the same stream: err=%v %s", rerr2, PacketDiff(out, &got2))
		default:
			duplexWritten(o, w.b, out, "while a RecvMsg waited inside a frame")
		}
	}
	// half two: SendMsg stalled inside its Write, RecvMsg meanwhile
	{
		sw := &stallWriter{stallAt: 2, stalled: make(chan struct{}), resume: make(chan struct{})}
		st := util.NewProtoStream(context.Background(), &sliceReader{b: encodeFrame(in)}, sw)
		var serr error
		done := make(chan struct{})
		go func() { defer close(done); serr = st.SendMsg(out) }()
		select {
		case <-sw.stalled:
		case <-done: // (a SendMsg that never wrote two bytes at once)
		}
		var got types.Packet
		rerr := st.RecvMsg(&got)
		close(sw.resume)
		<-done
		o.Count("duplex_sends_stalled_inside_a_write", 1)
		switch {
		case serr != nil:
			o.Violate(SigDuplex, "SendMsg whose Write was slow failed: %v", serr)
		case rerr != nil:
			o.Violate(SigDuplex, "RecvMsg while a SendMsg of the same stream is inside its Write failed: %v", rerr)
		case PacketDiff(in, &got) != "":
			o.Violate(SigDuplex, "RecvMsg while a SendMsg of the same stream is inside its Write: %s", PacketDiff(in, &got))
		default:
			duplexWritten(o, sw.out, out, "around a RecvMsg that ran while the Write was in progress")
		}
	}
}

type sliceReader struct{ b []byte }

func (s *sliceReader) Read(p []byte) (int, error) {
	if len(s.b) == 0 {
		return 0, io.EOF
	}
	n := copy(p, s.b)
	s.b = s.b[n:]
	return n, nil
}

func duplexWritten(o Obs, written []byte, want *types.Packet, when string) {
	bodies, tail, _, _ := ParseFrames(written)
	if len(bodies) != 1 || len(tail) != 0 {
		o.Violate(SigDuplex, "one SendMsg %s: a reference reader finds %d complete frames and %d trailing bytes", when, len(bodies), len(tail))
		return
	}
	var v types.Packet
	if err := v.UnmarshalVT(bodies[0]); err != nil {
		o.Violate(SigDuplex, "the frame written %s does not decode: %v", when, err)
		return
	}
	if d := PacketDiff(want, &v); d != "" {
		o.Violate(SigDuplex, "the frame written %s holds another value than the packet sent: %s", when, d)
	}
}
