package codec

import (
	"context"
	"fmt"
	"io"
	"sync"

	"github.com/tonistiigi/fsutil/types"
	"github.com/tonistiigi/fsutil/util"
	"google.golang.org/protobuf/encoding/protowire"
	"verif/internal/core"
)

// Several streams of one process received at the same time: the read buffers
// of RecvMsg come from one package-wide pool, so a buffer that goes back to
// the pool before its frame has been decoded (or that two calls hold at once)
// shows as a packet of one stream carrying bytes of another. Every packet is
// a DATA packet whose payload is one byte value repeated, unique per (stream,
// position); the frames are built by the harness's own encoder.

const SigConcurrent = "concurrent-streams-mixed"

type patternReader struct {
	stream, n, size int
	seq             int
	cur             []byte
}

func patternByte(stream, seq int) byte { return byte(1 + (stream*37+seq*11)%251) }

func (p *patternReader) Read(b []byte) (int, error) {
	if len(p.cur) == 0 {
		if p.seq >= p.n {
			return 0, io.EOF
		}
		payload := make([]byte, p.size)
		v := patternByte(p.stream, p.seq)
		for i := range payload {
			payload[i] = v
		}
		var body []byte
		body = protowire.AppendTag(body, 1, protowire.VarintType)
		body = protowire.AppendVarint(body, uint64(types.PACKET_DATA))
		body = protowire.AppendTag(body, 3, protowire.VarintType)
		body = protowire.AppendVarint(body, uint64(p.stream<<16|p.seq))
		body = protowire.AppendTag(body, 4, protowire.BytesType)
		body = protowire.AppendBytes(body, payload)
		p.cur = append(Header(nil, uint32(len(body))), body...)
		p.seq++
	}
	n := copy(b, p.cur)
	p.cur = p.cur[n:]
	return n, nil
}

// CheckConcurrentStreams receives k streams of n packets at once and compares
// every packet with what its stream was built from.
func CheckConcurrentStreams(o Obs, r *core.Rand, k, n int) {
	sizes := []int{PoolBuf - 100, PoolBuf + 1, 100000, 256 << 10, 512 << 10}
	var wg sync.WaitGroup
	var mu sync.Mutex
	var bad []string
	packets := 0
	for s := 0; s < k; s++ {
		pr := &patternReader{stream: s, n: n, size: core.Pick(r, sizes)}
		wg.Add(1)
		go func(s int, pr *patternReader) {
			defer wg.Done()
			st := util.NewProtoStream(context.Background(), pr, io.Discard)
			for i := 0; ; i++ {
				var p types.Packet
				err := st.RecvMsg(&p)
				if err == io.EOF && i == n {
					return
				}
				why := ""
				switch {
				case err != nil:
					why = fmt.Sprintf("RecvMsg: %v", err)
				case p.Type != types.PACKET_DATA || p.ID != uint32(s<<16|i):
					why = fmt.Sprintf("decoded type %v id %#x, sent DATA id %#x", p.Type, p.ID, s<<16|i)
				case len(p.Data) != pr.size:
					why = fmt.Sprintf("payload of %d bytes, sent %d", len(p.Data), pr.size)
				default:
					want := patternByte(s, i)
					for j, b := range p.Data {
						if b != want {
							why = fmt.Sprintf("payload byte %d is %#x, the frame holds %#x throughout", j, b, want)
							break
						}
					}
				}
				mu.Lock()
				packets++
				if why != "" && len(bad) < 3 {
					bad = append(bad, fmt.Sprintf("stream %d packet %d: %s", s, i, why))
				}
				mu.Unlock()
				if why != "" {
					return
				}
			}
		}(s, pr)
	}
	wg.Wait()
	o.Count("concurrent_stream_sessions", 1)
	o.Count("concurrent_stream_packets_compared", int64(packets))
	for _, b := range bad {
		o.Violate(SigConcurrent, "%d streams received at once in one process: %s", k, b)
	}
}

// A message whose encoding does not fit the 32-bit length prefix: SendMsg has
// to refuse it. The message only claims its size (nothing of that size is
// built here); a sender that does not check would announce the size modulo
// 2^32 and write the whole body, which the reader takes for further frames.

const SigOversized = "oversized-message-sent"

type claimedSize struct{ n int }

func (c claimedSize) Size() int                       { return c.n }
func (c claimedSize) MarshalTo(b []byte) (int, error) { return len(b), nil }

type countingWriter struct{ n int64 }

func (w *countingWriter) Write(b []byte) (int, error) { w.n += int64(len(b)); return len(b), nil }

func CheckOversizedSend(o Obs) {
	w := &countingWriter{}
	s := util.NewProtoStream(context.Background(), io.LimitReader(nil, 0), w)
	for _, n := range []int{1<<32 + 10, 1 << 32, 1<<33 + 1} {
		before := w.n
		err := s.SendMsg(claimedSize{n})
		o.Count("oversized_messages_offered", 1)
		if err == nil {
			o.Violate(SigOversized, "SendMsg accepted a message of %d bytes (more than the 32-bit length prefix can announce) and wrote %d bytes", n, w.n-before)
		}
	}
}

// One packet object that is sized, sent, changed and sent again (a sender
// loop that reuses its packet): every frame must hold the value the packet
// had when it was sent, whatever was computed for an earlier value.

const SigResend = "resent-packet-encoded-stale"

type bufWriter struct{ b []byte }

func (w *bufWriter) Write(p []byte) (int, error) { w.b = append(w.b, p...); return len(p), nil }

func CheckResend(o Obs, r *core.Rand) {
	w := &bufWriter{}
	s := util.NewProtoStream(context.Background(), io.LimitReader(nil, 0), w)
	p := &types.Packet{}
	var want []*types.Packet
	for i, n := 0, 3+r.Intn(6); i < n; i++ {
		switch r.Intn(5) {
		case 0:
			p.Data = r.Bytes(core.Pick(r, []int{0, 1, 5, 100, 40000}))
		case 1:
			p.ID = uint32(r.Intn(1 << 20))
		case 2:
			p.Stat = &types.Stat{Path: string(r.Bytes(r.Intn(20))), Mode: uint32(r.Intn(1 << 12)), Size: int64(r.Intn(1 << 30))}
		case 3:
			p.Stat = nil
			p.Data = nil
		default:
			p.Type = types.Packet_PacketType(r.Intn(5))
		}
		if r.P(1, 2) {
			_ = p.Size() // a caller that looks at the size first
		}
		want = append(want, p.CloneVT())
		out := protect(func() error { return s.SendMsg(p) })
		if out.panicked != nil {
			o.Violate(SigResend, "SendMsg of a packet that was changed after an earlier send panicked: %v", out.panicked)
			return
		}
		if out.err != nil {
			o.Violate(SigResend, "SendMsg of a packet that was changed after an earlier send failed: %v", out.err)
			return
		}
	}
	o.Count("packets_resent_after_a_change", int64(len(want)))
	bodies, tail, _, _ := ParseFrames(w.b)
	if len(bodies) != len(want) || len(tail) != 0 {
		o.Violate(SigResend, "%d sends of one changing packet; a reference reader finds %d complete frames and %d trailing bytes", len(want), len(bodies), len(tail))
		return
	}
	for i, b := range bodies {
		var v types.Packet
		if err := v.UnmarshalVT(b); err != nil {
			o.Violate(SigResend, "frame %d of %d (one packet object, changed between sends) does not decode: %v", i, len(want), err)
			return
		}
		if d := PacketDiff(want[i], &v); d != "" {
			o.Violate(SigResend, "frame %d of %d (one packet object, changed between sends) holds another value than the packet had when it was sent: %s", i, len(want), d)
			return
		}
	}
}
