package codec

import (
	"context"
	"fmt"
	"io"
	"sync"

	"github.com/tonistiigi/fsutil/types"
	"github.com/tonistiigi/fsutil/util"
	"google.golang.org/protobuf/encoding/protowire"
	"verif/internal/core"
)

// Several streams of one process received at the same time: the read buffers
// of RecvMsg come from one package-wide pool, so a buffer that goes back to
// the pool before its frame has been decoded (or that two calls hold at once)
// shows as a packet of one stream carrying bytes of another. Every packet is
// a DATA packet whose payload is one byte value repeated, unique per (stream,
// position); the frames are built by the harness's own encoder.

const SigConcurrent = "concurrent-streams-mixed"

type patternReader struct {
	stream, n, size int
	seq             int
	cur             []byte
}

func patternByte(stream, seq int) byte { return byte(1 + (stream*37+seq*11)%251) }

func (p *patternReader) Read(b []byte) (int, error) {
	if len(p.cur) == 0 {
		if p.seq >= p.n {
			return 0, io.EOF
		}
		payload := make([]byte, p.size)
		v := patternByte(p.stream, p.seq)
		for i := range payload {
			payload[i] = v
		}
		var body []byte
		body = protowire.AppendTag(body, 1, protowire.VarintType)
		body = protowire.AppendVarint(body, uint64(types.PACKET_DATA))
		body = protowire.AppendTag(body, 3, protowire.VarintType)
		body = protowire.AppendVarint(body, uint64(p.stream<<16|p.seq))
		body = protowire.AppendTag(body, 4, protowire.BytesType)
		body = protowire.AppendBytes(body, payload)
		p.cur = append(Header(nil, uint32(len(body))), body...)
		p.seq++
	}
	n := copy(b, p.cur)
	p.cur = p.cur[n:]
	return n, nil
}

// CheckConcurrentStreams receives k streams of n packets at once and compares
// every packet with what its stream was built from.
func CheckConcurrentStreams(o Obs, r *core.Rand, k, n int) {
	sizes := []int{PoolBuf - 100, PoolBuf + 1, 100000, 256 << 10, 512 << 10}
	var wg sync.WaitGroup
	var mu sync.Mutex
	var bad []string
	packets := 0
	for s := 0; s < k; s++ {
		pr := &patternReader{stream: s, n: n, size: core.Pick(r, sizes)}
		wg.Add(1)
		go func(s int, pr *patternReader) {
			defer wg.Done()
			st := util.NewProtoStream(context.Background(), pr, io.Discard)
			for i := 0; ; i++ {
				var p types.Packet
				err := st.RecvMsg(&p)
				if err == io.EOF && i == n {
					return
				}
				why := ""
				switch {
				case err != nil:
					why = fmt.Sprintf("RecvMsg: %v", err)
				case p.Type != types.PACKET_DATA || p.ID != uint32(s<<16|i):
					why = fmt.Sprintf("decoded type %v id %#x, sent DATA id %#x", p.Type, p.ID, s<<16|i)
				case len(p.Data) != pr.size:
					why = fmt.Sprintf("payload of %d bytes, sent %d", len(p.Data), pr.size)
				default:
					want := patternByte(s, i)
					for j, b := range p.Data {
						if b != want {
							why = fmt.Sprintf("payload byte %d is %#x, the frame holds %#x throughout", j, b, want)
							break
						}
					}
				}
				mu.Lock()
				packets++
				if why != "" && len(bad) < 3 {
					bad = append(bad, fmt.Sprintf("stream %d packet %d: %s", s, i, why))
				}
				mu.Unlock()
				if why != "" {
					return
				}
			}
		}(s, pr)
	}
	wg.Wait()
	o.Count("concurrent_stream_sessions", 1)
	o.Count("concurrent_stream_packets_compared", int64(packets))
	for _, b := range bad {
		o.Violate(SigConcurrent, "%d streams received at once in one process: %s", k, b)
	}
}

// A message whose encoding does not fit the 32-bit length prefix: SendMsg has
// to refuse it. The message only claims its size (nothing of that size is
// built here); a sender that does not check would announce the size modulo
// 2^32 and write the whole body, which the reader takes for further frames.

const SigOversized = "oversized-message-sent"

type claimedSize struct{ n int }

func (c claimedSize) Size() int                       { return c.n }
func (c claimedSize) MarshalTo(b []byte) (int, error) { return len(b), nil }

type countingWriter struct{ n int64 }

func (w *countingWriter) Write(b []byte) (int, error) { w.n += int64(len(b)); return len(b), nil }

func CheckOversizedSend(o Obs) {
	w := &countingWriter{}
	s := util.NewProtoStream(context.Background(), io.LimitReader(nil, 0), w)
	for _, n := range []int{1<<32 + 10, 1 << 32, 1<<33 + 1} {
		before := w.n
		err := s.SendMsg(claimedSize{n})
		o.Count("oversized_messages_offered", 1)
		if err == nil {
			o.Violate(SigOversized, "SendMsg accepted a message of %d bytes (more than the 32-bit length prefix can announce) and wrote %d bytes", n, w.n-before)
		}
	}
}
