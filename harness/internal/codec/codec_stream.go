package codec

import (
	"context"
	"encoding/binary"
	"errors"
	"fmt"
	"io"
	"runtime"
	"strings"
	"unsafe"

	"github.com/tonistiigi/fsutil/types"
	"github.com/tonistiigi/fsutil/util"
	"google.golang.org/protobuf/proto"
	"verif/internal/core"
)

// --- reference framing (independent of util/protostream.go) -------------------

// Frame appends one frame: 4-byte big-endian length, then the body.
func Frame(dst, body []byte) []byte {
	var h [4]byte
	binary.BigEndian.PutUint32(h[:], uint32(len(body)))
	return append(append(dst, h[:]...), body...)
}

// Header appends a frame header announcing n bytes.
func Header(dst []byte, n uint32) []byte {
	var h [4]byte
	binary.BigEndian.PutUint32(h[:], n)
	return append(dst, h[:]...)
}

// ParseFrames splits a stream into complete frame bodies. tail holds the bytes
// of a trailing incomplete frame (nil at a clean boundary); announced is the
// length the incomplete frame announced (when its header is complete).
func ParseFrames(stream []byte) (bodies [][]byte, tail []byte, announced uint32, maxAnnounced uint32) {
	for len(stream) > 0 {
		if len(stream) < 4 {
			return bodies, stream, 0, maxAnnounced
		}
		n := binary.BigEndian.Uint32(stream[:4])
		if n > maxAnnounced {
			maxAnnounced = n
		}
		if uint64(len(stream)-4) < uint64(n) {
			return bodies, stream, n, maxAnnounced
		}
		bodies = append(bodies, stream[4:4+n:4+n])
		stream = stream[4+n:]
	}
	return bodies, nil, 0, maxAnnounced
}

// --- fragmenting, recording reader -------------------------------------------

type FragMode int

const (
	FragWhole  FragMode = iota // as much as the caller asks for
	FragOne                    // one byte per Read
	FragRandom                 // random chunk sizes (mostly tiny, sometimes large)
	FragFixed                  // fixed chunk size
)

// RecvCfg describes how a stream is presented to RecvMsg.
type RecvCfg struct {
	Mode        FragMode
	Chunk       int
	EOFWithData bool // the last bytes arrive together with io.EOF
	ZeroReads   bool // the reader sometimes returns (0, nil)
	Reuse       bool // receive into one packet, ResetVT between calls (as receive.go does)
	NoReset     bool // with Reuse: no reset between the calls (a gRPC stream resets the message itself)
}

func (c RecvCfg) String() string {
	s := []string{"whole", "1byte", "random", fmt.Sprintf("fixed%d", c.Chunk)}[c.Mode]
	if c.EOFWithData {
		s += "+eofdata"
	}
	if c.ZeroReads {
		s += "+zeroreads"
	}
	if c.Reuse && c.NoReset {
		s += "+reuse-without-reset"
	} else if c.Reuse {
		s += "+reuse"
	} else {
		s += "+fresh"
	}
	return s
}

// FragReader serves Data in fragments and remembers every slice it was handed.
type FragReader struct {
	Data []byte
	Pos  int
	Cfg  RecvCfg
	R    *core.Rand
	// FailAt >= 0: the reader fails with Err once Pos reaches FailAt.
	FailAt int
	Err    error
	Record bool

	handed   [][]byte
	Reads    int
	Short    int // reads that returned fewer bytes than asked for, with a nil error
	lastZero bool
}

func NewFragReader(data []byte, cfg RecvCfg, r *core.Rand, record bool) *FragReader {
	return &FragReader{Data: data, Cfg: cfg, R: r, FailAt: -1, Record: record}
}

func sliceRange(b []byte) (lo, hi uintptr) {
	lo = uintptr(unsafe.Pointer(unsafe.SliceData(b)))
	return lo, lo + uintptr(len(b))
}

func (f *FragReader) record(p []byte) {
	lo, hi := sliceRange(p)
	for _, h := range f.handed {
		hlo, hhi := sliceRange(h)
		if lo >= hlo && hi <= hhi {
			return // io.ReadFull hands out suffixes of the same buffer
		}
	}
	f.handed = append(f.handed, p)
}

func (f *FragReader) Read(p []byte) (int, error) {
	f.Reads++
	if len(p) == 0 {
		return 0, nil
	}
	if f.Record {
		f.record(p)
	}
	end := len(f.Data)
	if f.FailAt >= 0 && f.FailAt < end {
		end = f.FailAt
	}
	if f.Pos >= end {
		if f.FailAt >= 0 && f.Pos >= f.FailAt {
			return 0, f.Err
		}
		return 0, io.EOF
	}
	if f.Cfg.ZeroReads && !f.lastZero && f.R.P(1, 6) {
		f.lastZero = true
		return 0, nil
	}
	f.lastZero = false
	n := len(p)
	switch f.Cfg.Mode {
	case FragOne:
		n = 1
	case FragFixed:
		n = f.Cfg.Chunk
	case FragRandom:
		switch f.R.Intn(8) {
		case 0, 1, 2, 3:
			n = f.R.Range(1, 7)
		case 4, 5:
			n = f.R.Range(1, 4096)
		case 6:
			n = f.R.Range(1, len(p))
		}
	}
	if n > len(p) {
		n = len(p)
	}
	if n > end-f.Pos {
		n = end - f.Pos
	}
	copy(p, f.Data[f.Pos:f.Pos+n])
	f.Pos += n
	if n < len(p) {
		f.Short++
	}
	if f.Cfg.EOFWithData && f.Pos == len(f.Data) && f.FailAt < 0 {
		return n, io.EOF
	}
	return n, nil
}

// Poison overwrites every buffer the reader was handed since the last call
// with 0xFF. A decoded packet that still points into such a buffer changes.
func (f *FragReader) Poison() int {
	n := 0
	for _, h := range f.handed {
		for i := range h {
			h[i] = 0xFF
		}
		n += len(h)
	}
	f.handed = f.handed[:0]
	return n
}

type recWriter struct {
	buf    []byte
	writes int
}

func (w *recWriter) Write(p []byte) (int, error) {
	w.writes++
	w.buf = append(w.buf, p...)
	return len(p), nil
}

// BuildStream writes pkts through protoStream.SendMsg and checks the bytes
// against the reference framing; when SendMsg cannot work (defect D10) the
// stream is produced by the reference framer so that the read side can still
// be checked. sent reports whether SendMsg produced the stream.
func BuildStream(o Obs, pkts []*types.Packet) (stream []byte, sent bool) {
	w := &recWriter{}
	s := util.NewProtoStream(context.Background(), strings.NewReader(""), w)
	ok := true
	for i, p := range pkts {
		before := CopyPacket(p)
		out := protect(func() error { return s.SendMsg(p) })
		if out.panicked != nil {
			msg := fmt.Sprint(out.panicked)
			if strings.Contains(msg, "missing method MarshalTo") {
				o.Violate(SigD10, "protoStream.SendMsg(*types.Packet) panics: %v; nothing can be written through the byte stream", out.panicked)
			} else {
				o.Violate(SigPanic, "protoStream.SendMsg panicked on packet %d (%s): %v\n%s", i, DescribePacket(p), out.panicked, out.stack)
			}
			ok = false
			break
		}
		if out.err != nil {
			o.Violate(SigSendFormat, "SendMsg of packet %d (%s) to a writer that never fails returned %v", i, DescribePacket(p), out.err)
			ok = false
			break
		}
		if d := PacketDiff(before, p); d != "" {
			o.Violate(SigSendFormat, "SendMsg modified the packet it was given: %s", d)
		}
	}
	if !ok {
		stream = nil
		for _, p := range pkts {
			b, _ := p.MarshalVT()
			stream = Frame(stream, b)
		}
		o.Count("streams_built_by_reference_framer", 1)
		return stream, false
	}
	o.Count("streams_built_by_sendmsg", 1)
	o.Count("packets_sent", int64(len(pkts)))
	o.Count("sendmsg_write_calls", int64(w.writes))
	stream = w.buf
	// the bytes on the wire, read by an independent peer
	bodies, tail, _, _ := ParseFrames(stream)
	if len(bodies) != len(pkts) || len(tail) != 0 {
		o.Violate(SigSendFormat, "%d packets sent; a reference reader (4-byte big-endian length prefix) finds %d complete frames and %d trailing bytes\n stream=%s", len(pkts), len(bodies), len(tail), Hex(stream))
		return stream, true
	}
	for i, b := range bodies {
		var v types.Packet
		if err := v.UnmarshalVT(b); err != nil {
			o.Violate(SigSendFormat, "frame %d written by SendMsg does not decode: %v\n packet=%s\n frame=%s", i, err, DescribePacket(pkts[i]), Hex(b))
			return stream, true
		}
		if d := PacketDiff(pkts[i], &v); d != "" {
			o.Violate(SigSendFormat, "frame %d written by SendMsg decodes to a different packet: %s\n packet=%s\n frame=%s", i, d, DescribePacket(pkts[i]), Hex(b))
			return stream, true
		}
		if len(b) != pkts[i].Size() {
			o.Violate(SigSendFormat, "frame %d is %d bytes but Packet.Size()=%d", i, len(b), pkts[i].Size())
		}
		if StatUTF8(pkts[i].Stat) {
			var g types.Packet
			if err := proto.Unmarshal(b, &g); err != nil {
				o.Violate(SigVTGen, "frame %d written by SendMsg is rejected by a generic-runtime peer: %v\n frame=%s", i, err, Hex(b))
			} else if d := PacketDiff(pkts[i], &g); d != "" {
				o.Violate(SigVTGen, "frame %d written by SendMsg decodes with the generic runtime to a different packet: %s\n frame=%s", i, d, Hex(b))
			}
		}
		if len(b) == 0 {
			o.Count("zero_length_frames_sent", 1)
		}
		if len(b) > PoolBuf {
			o.Count("frames_larger_than_pool_buffer_sent", 1)
		}
	}
	return stream, true
}

func snapshotKeepingStat(p *types.Packet) *types.Packet {
	c := CopyPacket(p)
	c.Stat = p.Stat // the receiver keeps p.Stat beyond the next RecvMsg
	return c
}

// ReadBack reads the stream with RecvMsg under cfg and demands the packets
// want, in order, unchanged by overwriting the buffers RecvMsg used, followed
// by a clean io.EOF.
func ReadBack(o Obs, stream []byte, want []*types.Packet, cfg RecvCfg, r *core.Rand) bool {
	fr := NewFragReader(stream, cfg, r, true)
	s := util.NewProtoStream(context.Background(), fr, io.Discard)
	var reused types.Packet
	kept := make([]*types.Packet, 0, len(want))
	ctxt := func(i int) string {
		return fmt.Sprintf("reader=%s, packet %d of %d, stream of %d bytes", cfg, i, len(want), len(stream))
	}
	for i := range want {
		p := &types.Packet{}
		if cfg.Reuse {
			p = &reused
			if !cfg.NoReset {
				p.ResetVT()
			}
		}
		out := protect(func() error { return s.RecvMsg(p) })
		if out.panicked != nil {
			o.Violate(SigPanic, "RecvMsg panicked (%s): %v\n%s", ctxt(i), out.panicked, out.stack)
			return false
		}
		if out.err != nil {
			o.Violate(SigFraming, "RecvMsg failed on a complete stream (%s): %v\n want=%s", ctxt(i), out.err, DescribePacket(want[i]))
			return false
		}
		if d := PacketDiff(want[i], p); d != "" {
			o.Violate(SigFraming, "packet read back differs from the packet written (%s): %s\n want=%s\n got =%s", ctxt(i), d, DescribePacket(want[i]), DescribePacket(p))
			return false
		}
		o.Count("bytes_poisoned", int64(fr.Poison()))
		if d := PacketDiff(want[i], p); d != "" {
			o.Violate(SigAlias, "decoded packet aliases the receive buffer: after RecvMsg returned, overwriting the slices it had passed to Read changed the packet (%s): %s", ctxt(i), d)
			return false
		}
		if cfg.Reuse {
			kept = append(kept, snapshotKeepingStat(p))
		} else {
			kept = append(kept, p)
		}
		o.Count("packets_read_back", 1)
		if len(want[i].Data)+4 > PoolBuf {
			o.Count("packets_larger_than_pool_buffer_read_back", 1)
		}
		if want[i].SizeVT() == 0 {
			o.Count("empty_packets_read_back", 1)
		}
	}
	for i := range want {
		if d := PacketDiff(want[i], kept[i]); d != "" {
			o.Violate(SigAlias, "a packet decoded earlier changed while later packets were received (%s): %s", ctxt(i), d)
			return false
		}
	}
	p := &types.Packet{}
	out := protect(func() error { return s.RecvMsg(p) })
	if out.panicked != nil {
		o.Violate(SigPanic, "RecvMsg panicked at the end of the stream (reader=%s): %v\n%s", cfg, out.panicked, out.stack)
		return false
	}
	if out.err != io.EOF {
		o.Violate(SigEOF, "after the last of %d packets RecvMsg returned %v, want io.EOF (reader=%s; receive.go compares with io.EOF)", len(want), out.err, cfg)
		return false
	}
	o.Count("short_reads_served", int64(fr.Short))
	o.Count("read_calls_served", int64(fr.Reads))
	o.Count("streams_read_back", 1)
	o.AddSet("fragmentations", cfg.String())
	return true
}

var errBoom = errors.New("injected read error")

// ReadCut presents only stream[:cut] (then EOF, or an injected read error when
// fail is set): the complete frames must come out unchanged, then an error:
// io.EOF exactly at a frame boundary, another error inside a frame.
func ReadCut(o Obs, stream []byte, want []*types.Packet, cut int, fail bool, cfg RecvCfg, r *core.Rand) {
	bodies, tail, _, _ := ParseFrames(stream[:cut])
	fr := NewFragReader(stream[:cut], cfg, r, false)
	if fail {
		fr = NewFragReader(stream, cfg, r, false)
		fr.FailAt, fr.Err = cut, errBoom
	}
	s := util.NewProtoStream(context.Background(), fr, io.Discard)
	where := fmt.Sprintf("stream of %d bytes cut at %d (%d complete frames, %d bytes of an incomplete one, injected error=%v, reader=%s)", len(stream), cut, len(bodies), len(tail), fail, cfg)
	for i := range bodies {
		p := &types.Packet{}
		out := protect(func() error { return s.RecvMsg(p) })
		if out.panicked != nil {
			o.Violate(SigPanic, "RecvMsg panicked: %s: %v\n%s", where, out.panicked, out.stack)
			return
		}
		if out.err != nil {
			o.Violate(SigFraming, "RecvMsg failed on complete frame %d: %v (%s)", i, out.err, where)
			return
		}
		if d := PacketDiff(want[i], p); d != "" {
			o.Violate(SigFraming, "frame %d read back differs: %s (%s)", i, d, where)
			return
		}
	}
	p := &types.Packet{}
	out := protect(func() error { return s.RecvMsg(p) })
	switch {
	case out.panicked != nil:
		o.Violate(SigPanic, "RecvMsg panicked on the incomplete frame: %s: %v\n%s", where, out.panicked, out.stack)
	case out.err == nil:
		o.Violate(SigEOF, "RecvMsg returned a packet (%s) although the stream ended: %s", DescribePacket(p), where)
	case fail:
		o.Count("injected_read_errors_reported", 1)
	case len(tail) == 0 && out.err != io.EOF:
		o.Violate(SigEOF, "stream ends at a frame boundary but RecvMsg returned %v, want io.EOF: %s", out.err, where)
	case len(tail) == 0:
		o.Count("eof_at_boundary", 1)
	case errors.Is(out.err, io.EOF):
		o.Violate(SigEOFInside, "stream ends inside a frame but RecvMsg returned io.EOF, which the receiver takes for a clean end: %s", where)
	default:
		o.Count("eof_inside_frame_reported", 1)
		if errors.Is(out.err, io.ErrUnexpectedEOF) {
			o.Count("eof_inside_frame_is_ErrUnexpectedEOF", 1)
		}
	}
}

// RecvBound is the allocation bound applied to one RecvMsg call that took n
// bytes from the reader: the Unmarshal bound plus one pooled buffer.
func RecvBound(n int) uint64 { return UnmarshalBound(n) + PoolBuf + 1024 }

// CheckRecvStream feeds an arbitrary byte stream to RecvMsg until it is used
// up. Each call must behave like the reference (split at the big-endian
// length, decode the body): same value or an error as well; no panic;
// allocation bounded by the bytes actually received. maxAnnounce protects the
// machine: streams announcing a longer frame are not run.
func CheckRecvStream(o Obs, stream []byte, cfg RecvCfg, r *core.Rand, maxAnnounce uint32, measure bool) {
	bodies, tail, announced, maxA := ParseFrames(stream)
	if maxA > maxAnnounce {
		o.Count("streams_skipped_announcing_too_much", 1)
		return
	}
	o.Count("arbitrary_streams", 1)
	fr := NewFragReader(stream, cfg, r, true)
	s := util.NewProtoStream(context.Background(), fr, io.Discard)
	recv := func(idx int, frameLen int) (p *types.Packet, out decodeOutcome, ok bool) {
		start := fr.Pos
		call := func(s interface{ RecvMsg(any) error }) func() {
			return func() {
				p = &types.Packet{}
				out = protect(func() error { return s.RecvMsg(p) })
			}
		}
		var alloc uint64
		if measure {
			alloc = AllocBytes(call(s))
		} else {
			call(s)()
		}
		o.Count("recvmsg_calls_on_arbitrary_streams", 1)
		if out.panicked != nil {
			o.Violate(SigPanic, "RecvMsg panicked on frame %d of an arbitrary stream (reader=%s): %v\n stream=%s\n%s", idx, cfg, out.panicked, Hex(stream), out.stack)
			return p, out, false
		}
		if !measure {
			return p, out, true
		}
		got := fr.Pos - start
		if got < frameLen {
			got = frameLen
		}
		bound := RecvBound(got)
		keepP, keepOut := p, out
		for try := 0; alloc > bound && try < 3; try++ {
			// repeat the same call on a copy of the reader; the minimum is the call's own allocation.
			// Two collections empty the buffer pool, so that every repetition starts from the same
			// (worst) pool state instead of finding the buffer the previous attempt left behind.
			runtime.GC()
			runtime.GC()
			fr2 := NewFragReader(stream, cfg, r.Fork(), false)
			fr2.Pos = start
			s2 := util.NewProtoStream(context.Background(), fr2, io.Discard)
			if a := AllocBytes(call(s2)); a < alloc {
				alloc = a
			}
		}
		p, out = keepP, keepOut
		o.Count("recvmsg_alloc_"+boundBucket(alloc, bound), 1)
		if alloc > bound {
			o.Violate(SigRecvAlloc, "RecvMsg allocated %d bytes while the reader supplied only %d bytes for this call (bound 512*n+64KiB+one pooled buffer = %d): frame %d announces %d bytes\n stream (%d bytes)=%s",
				alloc, fr.Pos-start, bound, idx, announcedAt(stream, start), len(stream), Hex(stream))
		}
		return p, out, true
	}
	for i, body := range bodies {
		p, out, ok := recv(i, 4+len(body))
		if !ok {
			return
		}
		ref := &types.Packet{}
		rerr := ref.UnmarshalVT(body)
		switch {
		case (rerr == nil) != (out.err == nil):
			o.Violate(SigRecvDiff, "frame %d (%d bytes): RecvMsg returned %v, decoding the frame body directly returns %v (reader=%s)\n body=%s", i, len(body), out.err, rerr, cfg, Hex(body))
			return
		case rerr != nil:
			o.Count("arbitrary_frames_rejected", 1)
		default:
			if d := PacketDiff(ref, p); d != "" {
				o.Violate(SigRecvDiff, "frame %d (%d bytes): RecvMsg decoded a different packet than decoding the frame body directly: %s (reader=%s)\n body=%s", i, len(body), d, cfg, Hex(body))
				return
			}
			fr.Poison()
			if d := PacketDiff(ref, p); d != "" {
				o.Violate(SigAlias, "packet decoded from an arbitrary frame aliases the receive buffer: %s (reader=%s)\n body=%s", d, cfg, Hex(body))
				return
			}
			o.Count("arbitrary_frames_decoded", 1)
		}
		fr.Poison()
	}
	p, out, ok := recv(len(bodies), len(tail))
	if !ok {
		return
	}
	switch {
	case out.err == nil:
		o.Violate(SigEOF, "RecvMsg returned a packet (%s) from an incomplete frame (%d bytes present, %d announced; reader=%s)\n stream=%s", DescribePacket(p), len(tail), announced, cfg, Hex(stream))
	case len(tail) == 0 && out.err != io.EOF:
		o.Violate(SigEOF, "arbitrary stream ends at a frame boundary but RecvMsg returned %v, want io.EOF", out.err)
	case len(tail) != 0 && errors.Is(out.err, io.EOF):
		o.Violate(SigEOFInside, "arbitrary stream ends inside a frame (%d of %d+4 bytes) but RecvMsg returned io.EOF\n stream=%s", len(tail), announced, Hex(stream))
	case len(tail) != 0:
		o.Count("incomplete_frames_rejected", 1)
		if announced > PoolBuf {
			o.Count("incomplete_frames_announcing_more_than_pool_buffer", 1)
		}
	}
}

func announcedAt(stream []byte, pos int) uint32 {
	if pos+4 <= len(stream) {
		return binary.BigEndian.Uint32(stream[pos : pos+4])
	}
	return 0
}

// ArbitraryStream builds a byte stream for RecvMsg: frames with valid,
// mutated or random bodies and an optional incomplete last frame. Announced
// lengths never exceed maxAnnounce.
func ArbitraryStream(r *core.Rand, maxAnnounce uint32) ([]byte, string) {
	var s []byte
	recipe := map[string]bool{}
	n := r.Range(0, 6)
	for i := 0; i < n; i++ {
		switch r.Intn(5) {
		case 0:
			s = Frame(s, nil)
			recipe["empty"] = true
		case 1, 2:
			b, _ := GenPacket(r, GenOpt{MaxBig: 50000}).MarshalVT()
			s = Frame(s, b)
			recipe["valid"] = true
		default:
			b, k := ArbitraryInput(r, true)
			s = Frame(s, b)
			recipe[k] = true
		}
	}
	// how the stream ends
	switch r.Intn(6) {
	case 0: // clean
	case 1: // partial header
		s = append(s, r.Bytes(r.Range(1, 3))...)
		recipe["partial-header"] = true
	default:
		// a header announcing more than follows
		var ann uint32
		switch r.Intn(5) {
		case 0:
			ann = uint32(r.Range(1, 64))
		case 1:
			ann = uint32(r.Range(65, PoolBuf))
		case 2:
			ann = uint32(r.Range(PoolBuf+1, 1<<20))
		case 3:
			ann = uint32(r.Range(1<<20, 16<<20))
		default:
			ann = core.Pick(r, []uint32{PoolBuf, PoolBuf + 1, 1 << 16, 1 << 20, 1 << 24, 1<<24 + 1})
		}
		if ann > maxAnnounce {
			ann = maxAnnounce
		}
		have := 0
		if ann > 1 {
			have = r.Intn(int(min32(ann, 200)))
			if r.P(1, 3) {
				// a good part of the body is there (more than one pooled
				// buffer, or right at its size): the receiver has grown its
				// buffer by then and may be tempted to trust the rest
				have = int(min32(ann-1, uint32(core.Pick(r, []int{PoolBuf - 1, PoolBuf, PoolBuf + 1, 2 * PoolBuf, 70000, 200000}))))
			}
		}
		s = Header(s, ann)
		b, _ := ArbitraryInput(r, true)
		for len(b) < have {
			b = append(b, r.Bytes(64)...)
		}
		s = append(s, b[:have]...)
		recipe[fmt.Sprintf("short-body-2^%d", bits(ann))] = true
		if have >= PoolBuf {
			recipe["short-body-with-a-pool-buffer-or-more-present"] = true
		}
	}
	ks := make([]string, 0, len(recipe))
	for k := range recipe {
		ks = append(ks, k)
	}
	sortStrings(ks)
	return s, strings.Join(ks, ",")
}

func min32(a, b uint32) uint32 {
	if a < b {
		return a
	}
	return b
}

func bits(x uint32) int {
	n := 0
	for x > 0 {
		x >>= 1
		n++
	}
	return n
}

func sortStrings(s []string) {
	for i := 1; i < len(s); i++ {
		for j := i; j > 0 && s[j-1] > s[j]; j-- {
			s[j-1], s[j] = s[j], s[j-1]
		}
	}
}

// RecvCfgs enumerates the reader configurations for one stream.
func RecvCfgs(r *core.Rand, streamLen int) []RecvCfg {
	cfgs := []RecvCfg{
		{Mode: FragWhole},
		{Mode: FragWhole, Reuse: true},
		{Mode: FragWhole, Reuse: true, NoReset: true},
		{Mode: FragRandom, Reuse: r.P(1, 2)},
		{Mode: FragRandom, Reuse: r.P(1, 2), EOFWithData: true, ZeroReads: r.P(1, 2)},
		{Mode: FragFixed, Chunk: core.Pick(r, []int{2, 3, 4, 5, 7, 8, 1023, 4095, 4096, PoolBuf - 1, PoolBuf, PoolBuf + 1}), Reuse: r.P(1, 2), EOFWithData: r.P(1, 4)},
	}
	if streamLen <= 400<<10 {
		cfgs = append(cfgs, RecvCfg{Mode: FragOne, Reuse: r.P(1, 2), ZeroReads: r.P(1, 4)})
	}
	return cfgs
}
