package refs

import (
	"strings"

	"verif/internal/tree"
)

// Chroot-style symlink resolution over a tree model: the executable
// specification C18 compares fsutil.FollowLinks against. Linux path walk
// semantics with the tree root taken as '/': absolute link targets restart at
// the tree root, ".." at the root stays at the root, ".." is physical (the
// parent of the directory reached, not a lexical edit of the path), a final
// symlink is followed, at most MaxLinks symlinks are traversed per lookup
// (ELOOP), a missing component or a non-directory in the middle stops the
// walk. It never looks at fsutil.

const MaxLinks = 40

// Resolution statuses.
const (
	Reached  = iota // the walk ended at an existing entry or at the root
	Dangling        // a component does not exist
	NotDir          // a non-directory was met with components left
	Loop            // more than MaxLinks symlinks
)

var StatusName = []string{"reached", "dangling", "notdir", "loop"}

// Step is one traversed symlink.
type Step struct {
	Link   string // path of the symlink (clean, relative to the root)
	Rest   string // components still to be walked after the link, "/"-joined ("." and "" dropped)
	Target string // its target text
	ID     int    // set by callers that need to tell traversal events apart
}

type Resolution struct {
	Steps  []Step
	Status int
	// Final is the location reached when Status == Reached ("" = the root);
	// otherwise the deepest existing location (diagnostic only).
	Final string
	// FinalType is the entry type at Final ('d' for the root).
	FinalType byte
	// Links is the number of symlinks traversed so far (carried into
	// continued walks).
	Links int
}

// Index maps paths to entries.
func Index(t *tree.Tree) map[string]*tree.Entry {
	m := make(map[string]*tree.Entry, len(t.Entries))
	for i := range t.Entries {
		m[t.Entries[i].Path] = &t.Entries[i]
	}
	return m
}

func splitComps(p string) []string {
	var out []string
	for _, c := range strings.Split(p, "/") {
		if c == "" || c == "." {
			continue
		}
		out = append(out, c)
	}
	return out
}

func join(dir, name string) string {
	if dir == "" {
		return name
	}
	return dir + "/" + name
}

// Resolve walks req from the tree root.
func Resolve(idx map[string]*tree.Entry, req string) Resolution {
	return ResolveFrom(idx, "", req, 0)
}

// ResolveFrom walks p starting in directory dir (which must be a directory
// of the tree or "" for the root) with links symlinks already traversed.
func ResolveFrom(idx map[string]*tree.Entry, dir, p string, links int) Resolution {
	res := Resolution{Links: links}
	cur := dir
	curType := byte(tree.Dir)
	if strings.HasPrefix(p, "/") {
		cur = ""
	}
	pending := splitComps(p)
	for len(pending) > 0 {
		c := pending[0]
		pending = pending[1:]
		if c == ".." {
			cur = tree.Parent(cur)
			continue
		}
		next := join(cur, c)
		e := idx[next]
		if e == nil {
			res.Status, res.Final, res.FinalType = Dangling, cur, tree.Dir
			return res
		}
		switch e.Type {
		case tree.Symlink:
			if res.Links >= MaxLinks {
				res.Status, res.Final, res.FinalType = Loop, cur, tree.Dir
				return res
			}
			res.Links++
			res.Steps = append(res.Steps, Step{Link: next, Rest: strings.Join(pending, "/"), Target: e.Target})
			if strings.HasPrefix(e.Target, "/") {
				cur = ""
			}
			pending = append(splitComps(e.Target), pending...)
		case tree.Dir:
			cur = next
		default:
			if len(pending) > 0 {
				res.Status, res.Final, res.FinalType = NotDir, next, e.Type
				return res
			}
			cur, curType = next, e.Type
		}
	}
	res.Status, res.Final, res.FinalType = Reached, cur, curType
	return res
}

// Children lists the names directly inside directory dir, in byte order.
func Children(t *tree.Tree, dir string) []string {
	var out []string
	for _, e := range t.Entries {
		if tree.Parent(e.Path) == dir && e.Path != "" {
			out = append(out, tree.Base(e.Path))
		}
	}
	return out
}

// LexicalDotDot reports whether interpreting the link target lexically
// (path.Clean on "dir-of-link/target") can differ from walking it: a ".."
// component that follows a named component.
func LexicalDotDot(target string) bool {
	named := false
	for _, c := range splitComps(target) {
		if c == ".." {
			if named {
				return true
			}
		} else {
			named = true
		}
	}
	return false
}
