// Package refs holds the small executable specifications the monitors compare
// fsutil against: the reference include/exclude filter, the chroot-style
// symlink resolver, and so on. None of them imports fsutil's implementation.
package refs

import (
	"strings"

	"github.com/moby/patternmatcher"
	"verif/internal/core"
	"verif/internal/tree"
)

// Item is one entry of a full listing in walk order.
type Item struct {
	Path  string
	IsDir bool
}

func Items(t *tree.Tree) []Item {
	out := make([]Item, len(t.Entries))
	for i, e := range t.Entries {
		out[i] = Item{e.Path, e.Type == tree.Dir}
	}
	return out
}

// SelectNaive is the reference of C10's statement: every entry of the full
// listing is tested on its own against a fresh matcher, a match of an
// ancestor counts, later patterns override earlier ones, '!' negates. It
// returns the directly selected paths (ancestors not yet added).
func SelectNaive(items []Item, inc, exc []string) (map[string]bool, error) {
	var im, em *patternmatcher.PatternMatcher
	var err error
	if len(inc) > 0 {
		if im, err = patternmatcher.New(inc); err != nil {
			return nil, err
		}
	}
	if len(exc) > 0 {
		if em, err = patternmatcher.New(exc); err != nil {
			return nil, err
		}
	}
	sel := map[string]bool{}
	for _, it := range items {
		ok := true
		if im != nil && len(im.Patterns()) > 0 {
			m, err := im.MatchesOrParentMatches(it.Path)
			if err != nil {
				return nil, err
			}
			ok = m
		}
		if ok && em != nil && len(em.Patterns()) > 0 {
			m, err := em.MatchesOrParentMatches(it.Path)
			if err != nil {
				return nil, err
			}
			if m {
				ok = false
			}
		}
		if ok {
			sel[it.Path] = true
		}
	}
	return sel, nil
}

// SelectIncremental evaluates the same patterns the way a directory walk
// that carries parent match results does (MatchesUsingParentResults down the
// FULL listing, no pruning). It exists only to classify known finding K1
// (moby/patternmatcher loses the parent-match memo of a skipped pattern).
func SelectIncremental(items []Item, inc, exc []string) (map[string]bool, error) {
	var im, em *patternmatcher.PatternMatcher
	var err error
	if len(inc) > 0 {
		if im, err = patternmatcher.New(inc); err != nil {
			return nil, err
		}
	}
	if len(exc) > 0 {
		if em, err = patternmatcher.New(exc); err != nil {
			return nil, err
		}
	}
	type frame struct {
		prefix   string
		inc, exc patternmatcher.MatchInfo
	}
	var stack []frame
	sel := map[string]bool{}
	for _, it := range items {
		for len(stack) > 0 && !strings.HasPrefix(it.Path, stack[len(stack)-1].prefix) {
			stack = stack[:len(stack)-1]
		}
		var pi, pe patternmatcher.MatchInfo
		if len(stack) > 0 {
			pi, pe = stack[len(stack)-1].inc, stack[len(stack)-1].exc
		}
		ok := true
		var mi, me patternmatcher.MatchInfo
		if im != nil && len(im.Patterns()) > 0 {
			var m bool
			m, mi, err = im.MatchesUsingParentResults(it.Path, pi)
			if err != nil {
				return nil, err
			}
			ok = m
		}
		if em != nil && len(em.Patterns()) > 0 {
			var m bool
			m, me, err = em.MatchesUsingParentResults(it.Path, pe)
			if err != nil {
				return nil, err
			}
			if m {
				ok = false
			}
		}
		if ok {
			sel[it.Path] = true
		}
		if it.IsDir {
			stack = append(stack, frame{it.Path + "/", mi, me})
		}
	}
	return sel, nil
}

// WithAncestors returns the listing restricted to selected entries plus the
// ancestors of selected entries, in listing order.
func WithAncestors(items []Item, sel map[string]bool) []string {
	keep := map[string]bool{}
	for p := range sel {
		keep[p] = true
		for a := tree.Parent(p); a != ""; a = tree.Parent(a) {
			keep[a] = true
		}
	}
	var out []string
	for _, it := range items {
		if keep[it.Path] {
			out = append(out, it.Path)
		}
	}
	return out
}

func SameSet(a, b map[string]bool) bool {
	if len(a) != len(b) {
		return false
	}
	for k := range a {
		if !b[k] {
			return false
		}
	}
	return true
}

// FilterNames is the sibling-confusable name universe of the filter checks.
var FilterNames = []string{"a", "ab", "a-b", "a b", ".c", "b", "c", "abc", "a.b", "a[b]", "!a", "a\xff"}

// escapeComp writes a path component as a pattern that matches it literally:
// glob meta characters are escaped, and sometimes an ordinary one too.
func escapeComp(r *core.Rand, c string) string {
	var b strings.Builder
	for i := 0; i < len(c); i++ {
		ch := c[i]
		punct := ch < 0x80 && !(ch >= 'a' && ch <= 'z') && !(ch >= 'A' && ch <= 'Z') && !(ch >= '0' && ch <= '9')
		// (an escaped letter or digit would be a regexp class in the
		// matcher library, e.g. \d: only punctuation is escaped)
		if strings.IndexByte("*?[]\\", ch) >= 0 || (i == 0 && ch == '!') || (punct && r.P(1, 3)) {
			b.WriteByte('\\')
		}
		b.WriteByte(ch)
	}
	return b.String()
}

var patComps = []string{"a", "ab", "a-b", "a b", ".c", "b", "c", "abc", "a.b", "*", "a*", "?", "a?", "**", "[ab]", "[a-c]*", "*b", "*c", "b*", "?b", "a[!b]*", `a\-b`, "x"}

// GenPattern draws one pattern from the grammar.
func GenPattern(r *core.Rand, allowNeg bool) string {
	n := r.Weighted([]int{5, 4, 2, 1}) + 1
	parts := make([]string, n)
	for i := range parts {
		if r.P(3, 5) {
			parts[i] = core.Pick(r, FilterNames)
		} else {
			parts[i] = core.Pick(r, patComps)
		}
	}
	p := strings.Join(parts, "/")
	switch r.Intn(10) {
	case 0:
		p += "/*"
	case 1:
		p += "/**"
	case 2:
		p += "/"
	case 3:
		p = "**/" + p
	}
	if allowNeg && r.P(1, 4) {
		p = "!" + p
	}
	return p
}

// GenPatternFor derives a pattern from an existing path of the tree: some
// components are replaced by wildcards, the path may be cut short or extended.
func GenPatternFor(r *core.Rand, paths []string, allowNeg bool) string {
	if len(paths) == 0 || r.P(1, 3) {
		return GenPattern(r, allowNeg)
	}
	parts := strings.Split(core.Pick(r, paths), "/")
	if len(parts) > 1 && r.P(1, 3) {
		parts = parts[:r.Range(1, len(parts))]
	}
	if r.P(1, 5) {
		// the path itself, written with escapes: a pattern without any
		// wildcard that still is not the literal text of the path
		for i := range parts {
			parts[i] = escapeComp(r, parts[i])
		}
		p := strings.Join(parts, "/")
		if allowNeg && r.P(1, 4) {
			p = "!" + p
		}
		return p
	}
	for i := range parts {
		switch r.Intn(9) {
		case 0:
			parts[i] = "*"
		case 1:
			parts[i] = parts[i][:1] + "*"
		case 2:
			parts[i] = "?" + parts[i][1:]
		case 3:
			if i == 0 || r.P(1, 2) {
				parts[i] = "**"
			}
		}
	}
	p := strings.Join(parts, "/")
	switch r.Intn(12) {
	case 0:
		p += "/*"
	case 1:
		p += "/**"
	case 2:
		p += "/"
	case 3:
		p = "**/" + parts[len(parts)-1]
	}
	if allowNeg && r.P(1, 4) {
		p = "!" + p
	}
	return p
}

// genChain builds a nested chain over one existing path: a positive pattern
// for an ancestor, a negation of something below it, a positive pattern again
// below the negated part (and so on), optionally with trailing globs.
func genChain(r *core.Rand, paths []string) []string {
	var deep []string
	for _, p := range paths {
		if strings.Count(p, "/") >= 1 {
			deep = append(deep, p)
		}
	}
	if len(deep) == 0 {
		return nil
	}
	parts := strings.Split(core.Pick(r, deep), "/")
	var out []string
	neg := false
	for i := 1; i <= len(parts); i++ {
		if i > 1 && r.P(1, 4) {
			continue
		}
		p := strings.Join(parts[:i], "/")
		switch r.Intn(6) {
		case 0:
			p += "/*"
		case 1:
			p += "/**"
		}
		if neg {
			p = "!" + p
		}
		out = append(out, p)
		neg = !neg
	}
	return out
}

// GenPatterns draws a list (possibly empty, possibly with duplicates).
func GenPatterns(r *core.Rand, max int, allowNeg bool, paths ...string) []string {
	if allowNeg && len(paths) > 0 && r.P(1, 6) {
		if c := genChain(r, paths); len(c) > 0 {
			return c
		}
	}
	n := r.Intn(max + 1)
	var out []string
	for i := 0; i < n; i++ {
		if len(out) > 0 && r.P(1, 10) {
			out = append(out, core.Pick(r, out))
			continue
		}
		out = append(out, GenPatternFor(r, paths, allowNeg && i > 0))
	}
	if allowNeg && len(out) > 0 && r.P(1, 12) {
		// a leading negation is legal too
		out = append([]string{GenPattern(r, true)}, out...)
	}
	if len(out) > 0 && r.P(1, 30) {
		// a byte order mark in front of a pattern (what an editor leaves at
		// the start of an ignore file): the matcher's expression scanner
		// drops it, the pattern text still has it
		i := r.Intn(len(out))
		if body := strings.TrimPrefix(out[i], "!"); body != "" {
			out[i] = out[i][:len(out[i])-len(body)] + "\ufeff" + body
		}
		if len(paths) > 0 && r.P(1, 2) {
			// the shape on which directory pruning and the matcher can
			// disagree: literal prefix, trailing /*, nothing else
			if q := core.Pick(r, paths); strings.Contains(q, "/") {
				out = []string{"\ufeff" + q[:strings.LastIndex(q, "/")] + "/*"}
				if allowNeg && r.P(1, 2) {
					out = []string{strings.SplitN(q, "/", 2)[0], "!" + out[0]}
				}
			}
		}
	}
	if len(paths) > 0 && r.P(1, 25) {
		// bytes that are no glob syntax but reach the regular expression the
		// matcher compiles for a pattern with a glob: "zz|d/*" matches every
		// path ending in d/<name>, "d{1}/*" matches d/<name>. Pruning by the
		// pattern's text must not be applied to them.
		if q := core.Pick(r, paths); strings.Contains(q, "/") {
			dir := q[:strings.LastIndex(q, "/")]
			var pat string
			if strings.Contains(dir, "\xff") {
				// U+FFFD in a compiled pattern matches every invalid byte
				pat = strings.ReplaceAll(dir, "\xff", "\ufffd") + "/*"
			} else if r.P(1, 2) || strings.Contains(dir, "/") {
				pat = "zz|" + dir[strings.LastIndex(dir, "/")+1:] + "/*"
			} else {
				pat = dir + "{1}/*"
			}
			if strings.ContainsAny(pat[:len(pat)-2], "*?[]\\^") {
				return out
			}
			out = []string{pat}
			if allowNeg && r.P(1, 2) {
				out = []string{strings.SplitN(q, "/", 2)[0], "!" + pat}
			}
		}
	}
	return out
}
