package core

import (
	"bufio"
	"encoding/json"
	"fmt"
	"hash/fnv"
	"os"
	"os/exec"
	"path/filepath"
	"runtime"
	"runtime/debug"
	"sort"
	"strconv"
	"strings"
	"sync"
	"syscall"
	"time"
)

// Viol is one refuting observation made by a monitor.
type Viol struct {
	// Sig is a stable class name used for known-finding triage ("" = unclassified).
	Sig    string `json:"sig,omitempty"`
	Msg    string `json:"msg"`
	Detail any    `json:"detail,omitempty"`
}

// Result is what a monitor reports for one case.
type Result struct {
	Index int `json:"index"`
	// Inconclusive is set (with a reason) when the case could not be decided.
	Inconclusive string `json:"inconclusive,omitempty"`
	Viols        []Viol `json:"viols,omitempty"`
	// FP is a fingerprint of what was actually exercised; distinct non-trivial
	// fingerprints are what the evidence counts.
	FP         string `json:"fp,omitempty"`
	Nontrivial bool   `json:"nontrivial,omitempty"`
	// Sample is a compact, human readable description of the case.
	Sample any `json:"sample,omitempty"`
	// Counters are summed over the run (events observed by the monitors).
	Counters map[string]int64 `json:"counters,omitempty"`
	// Sets are unioned over the run; the evidence reports their sizes.
	Sets map[string][]string `json:"sets,omitempty"`
}

func (r *Result) Count(k string, n int64) {
	if r.Counters == nil {
		r.Counters = map[string]int64{}
	}
	r.Counters[k] += n
}

func (r *Result) AddSet(k, v string) {
	if r.Sets == nil {
		r.Sets = map[string][]string{}
	}
	r.Sets[k] = append(r.Sets[k], v)
}

func (r *Result) Violate(sig, format string, a ...any) {
	r.Viols = append(r.Viols, Viol{Sig: sig, Msg: fmt.Sprintf(format, a...)})
}

func (r *Result) ViolateD(sig string, detail any, format string, a ...any) {
	r.Viols = append(r.Viols, Viol{Sig: sig, Msg: fmt.Sprintf(format, a...), Detail: detail})
}

// Ctx is handed to a property's Run function.
type Ctx struct {
	Prop   string
	Tier   string
	Seed   uint64
	Index  int
	R      *Rand
	Dir    string // private scratch directory of this case (removed afterwards)
	Replay bool
}

func (c *Ctx) Thorough() bool { return c.Tier == "thorough" }

// Prop describes one property check.
type Prop struct {
	ID          string
	Level       string // exploration | fault_enumeration
	Rule        string
	Assumptions []string
	// Cases returns the number of cases for a tier.
	Cases func(tier string) int
	// Batch is the number of cases one child process executes.
	Batch int
	// Par limits concurrently running children (0 = NumCPU).
	Par int
	// CaseTimeout is the wall-clock watchdog per case; firing = inconclusive.
	CaseTimeout time.Duration
	// MinNontrivial is the floor below which the run is reported as a broken
	// check (it observed too little to say anything).
	MinNontrivial func(tier string) int
	// BatchInit runs once in the child before its first case (e.g. chroot).
	BatchInit func(dir string) error
	Run       func(c *Ctx) *Result
	// Exhaustive marks runs that enumerated their space completely.
	Exhaustive func(tier string) bool
	// CrashIsViolation: a child crash (panic, fatal error, race report with
	// halt_on_error) refutes the property.
	Env []string
	// RaceSweep lists other properties whose quick workloads are repeated
	// inside this (race-instrumented) binary after the property's own cases;
	// only race reports count, as violations of this property.
	RaceSweep func(tier string) []string
}

var Props = map[string]*Prop{}

func Register(p *Prop) { Props[p.ID] = p }

func Home() string {
	if h := os.Getenv("VERIF_HOME"); h != "" {
		return h
	}
	return "/verif"
}

func SeedFromEnv() uint64 {
	if s := os.Getenv("VERIF_SEED"); s != "" {
		if v, err := strconv.ParseInt(s, 10, 64); err == nil {
			return uint64(v)
		}
		if v, err := strconv.ParseUint(s, 10, 64); err == nil {
			return v
		}
	}
	return 1
}

func ScratchBase() string {
	for _, d := range []string{"/dev/shm", "/var/tmp"} {
		if st, err := os.Stat(d); err == nil && st.IsDir() {
			return d
		}
	}
	return os.TempDir()
}

// Main is the entry point of cmd/vrun.
func Main() {
	if len(os.Args) < 2 {
		fmt.Fprintln(os.Stderr, "usage: vrun run <prop> <tier> | replay <prop> <file> | child ...")
		os.Exit(2)
	}
	switch os.Args[1] {
	case "run":
		if len(os.Args) < 4 {
			fmt.Fprintln(os.Stderr, "usage: vrun run <prop> <quick|thorough>")
			os.Exit(2)
		}
		os.Exit(runParent(os.Args[2], os.Args[3]))
	case "child":
		os.Exit(runChild(os.Args[2:]))
	case "replay":
		os.Exit(runReplay(os.Args[2], os.Args[3]))
	case "list":
		ids := []string{}
		for id := range Props {
			ids = append(ids, id)
		}
		sort.Strings(ids)
		fmt.Println(strings.Join(ids, " "))
	default:
		if fn, ok := Aux[os.Args[1]]; ok {
			os.Exit(fn(os.Args[2:]))
		}
		fmt.Fprintln(os.Stderr, "unknown command", os.Args[1])
		os.Exit(2)
	}
}

// Aux holds helper sub-commands (e.g. a receiver process that gets SIGKILLed).
var Aux = map[string]func(args []string) int{}

type childRec struct {
	Start  *int    `json:"start,omitempty"`
	Result *Result `json:"result,omitempty"`
}

func runChild(args []string) int {
	// child <prop> <tier> <seed> <lo> <hi> <out> <scratch>
	if len(args) < 7 {
		return 2
	}
	p := Props[args[0]]
	if p == nil {
		return 2
	}
	tier := args[1]
	seed, _ := strconv.ParseUint(args[2], 10, 64)
	lo, _ := strconv.Atoi(args[3])
	hi, _ := strconv.Atoi(args[4])
	out, err := os.OpenFile(args[5], os.O_WRONLY|os.O_CREATE|os.O_APPEND, 0644)
	if err != nil {
		fmt.Fprintln(os.Stderr, "child: open out:", err)
		return 2
	}
	scratch := args[6]
	if err := os.MkdirAll(scratch, 0755); err != nil {
		fmt.Fprintln(os.Stderr, "child: scratch:", err)
		return 2
	}
	os.Chmod(scratch, 0755)
	var mu sync.Mutex
	write := func(rec childRec) {
		b, _ := json.Marshal(rec)
		mu.Lock()
		out.Write(append(b, '\n'))
		mu.Unlock()
	}
	if p.BatchInit != nil {
		if err := p.BatchInit(scratch); err != nil {
			fmt.Fprintln(os.Stderr, "child: batch init:", err)
			return 4
		}
		if _, err := os.Stat(scratch); err != nil {
			// BatchInit chrooted into scratch
			scratch = "/"
		}
	}
	timeout := p.CaseTimeout
	if timeout == 0 {
		timeout = 120 * time.Second
	}
	for i := lo; i < hi; i++ {
		idx := i
		write(childRec{Start: &idx})
		dir := filepath.Join(scratch, fmt.Sprintf("c%d", i))
		os.RemoveAll(dir)
		if err := os.MkdirAll(dir, 0755); err != nil {
			fmt.Fprintln(os.Stderr, "child: mkdir:", err)
			return 2
		}
		done := make(chan struct{})
		go func() {
			select {
			case <-done:
			case <-time.After(timeout):
				r := &Result{Index: idx, Inconclusive: "wall-clock watchdog fired after " + timeout.String()}
				write(childRec{Result: r})
				buf := make([]byte, 1<<22)
				n := runtime.Stack(buf, true)
				os.Stderr.Write(buf[:n])
				os.Exit(3)
			}
		}()
		c := &Ctx{Prop: p.ID, Tier: tier, Seed: seed, Index: i, R: NewRand(Mix(seed, p.ID, i)), Dir: dir}
		r := safeRun(p, c)
		close(done)
		r.Index = i
		write(childRec{Result: r})
		RemoveAllForce(dir)
	}
	return 0
}

func safeRun(p *Prop, c *Ctx) (r *Result) {
	defer func() {
		if e := recover(); e != nil {
			r = &Result{}
			r.ViolateD("panic", string(debug.Stack()), "panic while running the case: %v", e)
		}
	}()
	r = p.Run(c)
	if r == nil {
		r = &Result{Inconclusive: "case returned no result"}
	}
	return r
}

// RemoveAllForce removes a tree even when it contains unreadable directories.
func RemoveAllForce(dir string) {
	if err := os.RemoveAll(dir); err == nil {
		return
	}
	filepath.Walk(dir, func(p string, fi os.FileInfo, err error) error {
		if err == nil && fi.IsDir() {
			os.Chmod(p, 0700)
		}
		return nil
	})
	os.RemoveAll(dir)
}

type known struct {
	Property    string `json:"property"`
	Status      string `json:"status"`
	Signature   string `json:"signature"`
	Description string `json:"description"`
	Commit      string `json:"commit,omitempty"`
	Witness     any    `json:"witness,omitempty"`
	// MaxPerThousand > 0: the finding is known as a rare residue (a timing
	// window that cannot be closed); it is only taken for the known finding
	// while it shows in at most that many cases per thousand of a run
	MaxPerThousand int `json:"max_per_thousand,omitempty"`
}

func loadKnown() []known {
	var f struct {
		Findings []known `json:"findings"`
	}
	b, err := os.ReadFile(filepath.Join(Home(), "known_findings.json"))
	if err != nil {
		return nil
	}
	if err := json.Unmarshal(b, &f); err != nil {
		fmt.Fprintln(os.Stderr, "known_findings.json:", err)
		os.Exit(2)
	}
	return f.Findings
}

func runParent(id, tier string) int {
	p := Props[id]
	if p == nil {
		fmt.Fprintln(os.Stderr, "unknown property", id)
		return 2
	}
	if tier != "quick" && tier != "thorough" {
		fmt.Fprintln(os.Stderr, "tier must be quick or thorough")
		return 2
	}
	seed := SeedFromEnv()
	start := time.Now()
	results, ag, rc := runCases(p, tier, seed, p.Env)
	if rc != 0 {
		return rc
	}
	if p.RaceSweep != nil {
		for _, sid := range p.RaceSweep(tier) {
			sp := Props[sid]
			if sp == nil {
				continue
			}
			t0 := time.Now()
			sres, _, rc := runCases(sp, "quick", seed, p.Env)
			if rc != 0 {
				return rc
			}
			ran, races, other := 0, 0, 0
			for _, r := range sres {
				if r == nil {
					continue
				}
				ran++
				for _, v := range r.Viols {
					if v.Sig != "data-race" {
						other++
						continue
					}
					races++
					x := &Result{Index: len(results)}
					x.ViolateD("data-race", v.Detail, "race report while repeating the quick workload of %s (case %d, seed %d) in the race-instrumented binary: %s", sid, r.Index, seed, v.Msg)
					results = append(results, x)
				}
			}
			ag.counters["race_sweep_cases_"+sid] += int64(ran)
			if other > 0 {
				// decided by that property's own check, not here
				ag.counters["race_sweep_other_verdicts_not_judged_"+sid] += int64(other)
			}
			fmt.Printf("  race sweep %s: %d cases, %d race reports, %.1fs\n", sid, ran, races, time.Since(t0).Seconds())
		}
	}
	return summarize(p, tier, seed, results, ag, time.Since(start))
}

// runCases runs all cases of a property in child processes and returns the
// slim per-case results and the folded observations.
func runCases(p *Prop, tier string, seed uint64, env []string) ([]*Result, *agg, int) {
	id := p.ID
	n := p.Cases(tier)
	batch := p.Batch
	if batch <= 0 {
		batch = 50
	}
	par := p.Par
	if par <= 0 {
		par = runtime.NumCPU()
	}
	exe, err := os.Executable()
	if err != nil {
		fmt.Fprintln(os.Stderr, err)
		return nil, nil, 2
	}
	base := filepath.Join(ScratchBase(), fmt.Sprintf("verif-%s-%d", id, os.Getpid()))
	os.RemoveAll(base)
	if err := os.MkdirAll(base, 0755); err != nil {
		fmt.Fprintln(os.Stderr, err)
		return nil, nil, 2
	}
	defer RemoveAllForce(base)

	type job struct{ lo, hi int }
	jobs := make(chan job, n/batch+2)
	for lo := 0; lo < n; lo += batch {
		hi := lo + batch
		if hi > n {
			hi = n
		}
		jobs <- job{lo, hi}
	}
	close(jobs)

	results := make([]*Result, n)
	var rmu sync.Mutex
	ag := newAgg()
	// store keeps only what the summary needs per case (the run may have
	// millions of cases): counters, sets and samples are folded in at once
	store := func(r *Result) {
		if r.Index < 0 || r.Index >= n || results[r.Index] != nil {
			return
		}
		ag.fold(r)
		slim := &Result{Index: r.Index, Inconclusive: r.Inconclusive, Nontrivial: r.Nontrivial}
		if len(r.Viols) > 0 {
			slim.Viols, slim.Sample = r.Viols, r.Sample
		}
		results[r.Index] = slim
	}
	crashLogs := map[int]string{}
	var wg sync.WaitGroup
	timeout := p.CaseTimeout
	if timeout == 0 {
		timeout = 120 * time.Second
	}
	for w := 0; w < par; w++ {
		wg.Add(1)
		go func(w int) {
			defer wg.Done()
			for j := range jobs {
				lo := j.lo
				for attempt := 0; lo < j.hi; attempt++ {
					outf := filepath.Join(base, fmt.Sprintf("out-%d-%d.jsonl", lo, attempt))
					logf := filepath.Join(base, fmt.Sprintf("log-%d-%d.txt", lo, attempt))
					scratch := filepath.Join(base, fmt.Sprintf("b%d-%d", lo, attempt))
					lf, _ := os.Create(logf)
					cmd := exec.Command(exe, "child", id, tier, strconv.FormatUint(seed, 10), strconv.Itoa(lo), strconv.Itoa(j.hi), outf, scratch)
					cmd.Stdout = lf
					cmd.Stderr = lf
					cmd.Env = append(os.Environ(), env...)
					cmd.SysProcAttr = &syscall.SysProcAttr{Setpgid: true}
					killed := false
					if err := cmd.Start(); err != nil {
						fmt.Fprintln(os.Stderr, "start child:", err)
						lf.Close()
						break
					}
					hard := time.AfterFunc(timeout*time.Duration(j.hi-lo)+2*time.Minute, func() {
						killed = true
						syscall.Kill(-cmd.Process.Pid, syscall.SIGKILL)
					})
					werr := cmd.Wait()
					hard.Stop()
					// make sure nothing of the batch survives
					syscall.Kill(-cmd.Process.Pid, syscall.SIGKILL)
					lf.Close()
					RemoveAllForce(scratch)
					started := -1
					f, err := os.Open(outf)
					if err == nil {
						sc := bufio.NewScanner(f)
						sc.Buffer(make([]byte, 1<<20), 1<<28)
						for sc.Scan() {
							var rec childRec
							if json.Unmarshal(sc.Bytes(), &rec) != nil {
								continue
							}
							if rec.Start != nil {
								started = *rec.Start
							}
							if rec.Result != nil {
								rmu.Lock()
								store(rec.Result)
								rmu.Unlock()
							}
						}
						f.Close()
					}
					os.Remove(outf)
					if werr == nil {
						os.Remove(logf)
						break
					}
					// child ended abnormally
					next := j.hi
					if started >= 0 {
						rmu.Lock()
						if results[started] == nil {
							r := &Result{Index: started}
							if killed {
								r.Inconclusive = "batch watchdog killed the child"
							} else {
								keep := filepath.Join(Home(), "replays", id, fmt.Sprintf("crash-%d-%d.log", seed, started))
								os.MkdirAll(filepath.Dir(keep), 0755)
								copyTail(logf, keep, 1<<20)
								crashLogs[started] = keep
								sig := "crash"
								if b, err := os.ReadFile(keep); err == nil && strings.Contains(string(b), "WARNING: DATA RACE") {
									sig = "data-race"
								}
								r.ViolateD(sig, keep, "child process died while running this case (%v); log kept at %s", werr, keep)
							}
							store(r)
						}
						rmu.Unlock()
						next = started + 1
					} else if attempt > 2 {
						fmt.Fprintf(os.Stderr, "child for cases %d..%d cannot start (%v); see %s\n", lo, j.hi, werr, logf)
						break
					} else {
						next = lo
						if b, err := os.ReadFile(logf); err == nil {
							os.Stderr.Write(b)
						}
					}
					lo = next
				}
			}
		}(w)
	}
	wg.Wait()
	return results, ag, 0
}

func copyTail(src, dst string, max int64) {
	b, err := os.ReadFile(src)
	if err != nil {
		return
	}
	if int64(len(b)) > max {
		b = b[int64(len(b))-max:]
	}
	os.WriteFile(dst, b, 0644)
}

// agg folds per-case observations as they arrive.
type agg struct {
	samples  []any
	fps      map[uint64]struct{}
	counters map[string]int64
	sets     map[string]map[string]bool
}

func newAgg() *agg {
	return &agg{fps: map[uint64]struct{}{}, counters: map[string]int64{}, sets: map[string]map[string]bool{}}
}

func (a *agg) fold(r *Result) {
	if r.Nontrivial && r.FP != "" && r.Inconclusive == "" {
		h := fnv.New64a()
		h.Write([]byte(r.FP))
		a.fps[h.Sum64()] = struct{}{}
	}
	for k, v := range r.Counters {
		a.counters[k] += v
	}
	for k, vs := range r.Sets {
		if a.sets[k] == nil {
			a.sets[k] = map[string]bool{}
		}
		for _, v := range vs {
			if len(a.sets[k]) < 200000 {
				a.sets[k][v] = true
			}
		}
	}
	if r.Sample != nil && len(a.samples) < 4 && (r.Nontrivial || r.Index < 2) {
		a.samples = append(a.samples, map[string]any{"case": r.Index, "input": r.Sample})
	}
}

func summarize(p *Prop, tier string, seed uint64, results []*Result, ag *agg, wall time.Duration) int {
	kn := loadKnown()
	knownHits := map[int]int{}
	samples := ag.samples
	fps := ag.fps
	counters := ag.counters
	sets := ag.sets
	evals, inconcl, notrun := 0, 0, 0
	inconclReasons := map[string]int{}
	type vrec struct {
		idx int
		v   Viol
	}
	var viols []vrec
	knownRecs := map[int][]vrec{}
	for i, r := range results {
		if r == nil {
			notrun++
			continue
		}
		evals++
		if r.Inconclusive != "" {
			inconcl++
			if len(inconclReasons) < 50 {
				inconclReasons[r.Inconclusive]++
			}
		}
		for _, v := range r.Viols {
			matched := false
			for ki, k := range kn {
				if k.Property == p.ID && k.Status == "known" && k.Signature != "" && k.Signature == v.Sig {
					knownHits[ki]++
					knownRecs[ki] = append(knownRecs[ki], vrec{i, v})
					matched = true
					break
				}
			}
			if !matched {
				viols = append(viols, vrec{i, v})
			}
		}
	}
	for ki, n := range knownHits {
		if m := kn[ki].MaxPerThousand; m > 0 && n*1000 > m*evals {
			// more often than the residue it is known as: a violation again
			viols = append(viols, knownRecs[ki]...)
			delete(knownHits, ki)
		}
	}
	if len(samples) == 0 {
		samples = append(samples, map[string]any{"note": "no case of this run carried a sample"})
	}
	setSizes := map[string]int{}
	for k, s := range sets {
		setSizes[k] = len(s)
	}
	cov := map[string]any{
		"evaluations":         evals,
		"distinct_nontrivial": len(fps),
		"rule":                p.Rule,
		"samples":             samples,
		"inconclusive":        inconcl,
		"not_run":             notrun,
		"observed":            counters,
		"distinct_observed":   setSizes,
	}
	if len(inconclReasons) > 0 {
		cov["inconclusive_reasons"] = inconclReasons
	}
	if p.Exhaustive != nil && p.Exhaustive(tier) && notrun == 0 && inconcl == 0 {
		cov["exhaustive"] = true
	}
	knownOut := []string{}
	for ki, n := range knownHits {
		knownOut = append(knownOut, fmt.Sprintf("%s x%d", kn[ki].Signature, n))
	}
	sort.Strings(knownOut)
	cov["known_findings_seen"] = knownOut

	ev := map[string]any{
		"property_id": p.ID,
		"tier":        tier,
		"seed":        int64(seed),
		"level":       p.Level,
		"coverage":    cov,
		"assumptions": p.Assumptions,
		"wall_s":      wall.Seconds(),
		"violations":  len(viols),
	}
	os.MkdirAll(filepath.Join(Home(), "evidence"), 0755)
	b, _ := json.MarshalIndent(ev, "", " ")
	if err := os.WriteFile(filepath.Join(Home(), "evidence", p.ID+".json"), append(b, '\n'), 0644); err != nil {
		fmt.Fprintln(os.Stderr, "write evidence:", err)
		return 2
	}

	fmt.Printf("%s %s seed=%d: %d cases, %d distinct non-trivial, %d inconclusive, %d not run, %.1fs\n", p.ID, tier, seed, evals, len(fps), inconcl, notrun, wall.Seconds())
	keys := []string{}
	for k := range counters {
		keys = append(keys, k)
	}
	sort.Strings(keys)
	for _, k := range keys {
		fmt.Printf("  observed %-32s %d\n", k, counters[k])
	}
	for k, v := range setSizes {
		fmt.Printf("  distinct %-32s %d\n", k, v)
	}
	kis := []int{}
	for ki := range knownHits {
		kis = append(kis, ki)
	}
	sort.Ints(kis)
	for _, ki := range kis {
		fmt.Printf("KNOWN-FINDING: property=%s %s [%s] (%d cases in this run)\n", p.ID, kn[ki].Description, kn[ki].Signature, knownHits[ki])
	}
	if len(viols) > 0 {
		dir := filepath.Join(Home(), "replays", p.ID)
		os.MkdirAll(dir, 0755)
		printed := 0
		lastIdx := -1
		for _, v := range viols {
			path := filepath.Join(dir, fmt.Sprintf("case-%d-%s-%d.json", seed, tier, v.idx))
			rep := map[string]any{
				"property": p.ID, "tier": tier, "seed": int64(seed), "index": v.idx,
				"signature": v.v.Sig, "message": v.v.Msg, "detail": v.v.Detail,
			}
			if r := results[v.idx]; r != nil {
				rep["case"] = r.Sample
			}
			rb, _ := json.MarshalIndent(rep, "", " ")
			os.WriteFile(path, rb, 0644)
			if v.idx == lastIdx {
				continue
			}
			lastIdx = v.idx
			if printed < 25 {
				fmt.Printf("VIOLATION property=%s replay=%s\n", p.ID, path)
				fmt.Printf("  [%s] %s\n", v.v.Sig, firstLines(v.v.Msg, 6))
				printed++
			}
		}
		if len(viols) > printed {
			fmt.Printf("  ... and %d more violations (replay files written)\n", len(viols)-printed)
		}
		return 1
	}
	min := 2
	if p.MinNontrivial != nil {
		min = p.MinNontrivial(tier)
	}
	if len(fps) < min {
		fmt.Printf("BROKEN-CHECK property=%s: only %d distinct non-trivial cases observed (floor %d); the run says nothing\n", p.ID, len(fps), min)
		return 2
	}
	if notrun > 0 || inconcl*5 > evals {
		fmt.Printf("BROKEN-CHECK property=%s: %d cases not run, %d inconclusive out of %d\n", p.ID, notrun, inconcl, evals)
		return 2
	}
	return 0
}

func firstLines(s string, n int) string {
	ls := strings.Split(s, "\n")
	for i := range ls {
		if len(ls[i]) > 400 {
			ls[i] = ls[i][:400] + "..."
		}
	}
	if len(ls) > n {
		ls = append(ls[:n], "...")
	}
	return strings.Join(ls, "\n    ")
}

func runReplay(id, file string) int {
	p := Props[id]
	if p == nil {
		fmt.Fprintln(os.Stderr, "unknown property", id)
		return 2
	}
	b, err := os.ReadFile(file)
	if err != nil {
		fmt.Fprintln(os.Stderr, err)
		return 2
	}
	var rep struct {
		Tier  string `json:"tier"`
		Seed  int64  `json:"seed"`
		Index int    `json:"index"`
	}
	if err := json.Unmarshal(b, &rep); err != nil {
		fmt.Fprintln(os.Stderr, err)
		return 2
	}
	base := filepath.Join(ScratchBase(), fmt.Sprintf("verif-replay-%s-%d", id, os.Getpid()))
	os.MkdirAll(base, 0755)
	defer RemoveAllForce(base)
	if p.BatchInit != nil {
		if err := p.BatchInit(base); err != nil {
			fmt.Fprintln(os.Stderr, err)
			return 2
		}
		if _, err := os.Stat(base); err != nil {
			base = "/"
		}
	}
	dir := filepath.Join(base, "c")
	os.MkdirAll(dir, 0755)
	c := &Ctx{Prop: id, Tier: rep.Tier, Seed: uint64(rep.Seed), Index: rep.Index, R: NewRand(Mix(uint64(rep.Seed), id, rep.Index)), Dir: dir, Replay: true}
	r := safeRun(p, c)
	out, _ := json.MarshalIndent(r, "", " ")
	fmt.Println(string(out))
	if len(r.Viols) > 0 {
		fmt.Printf("VIOLATION property=%s replay=%s\n", id, file)
		return 1
	}
	return 0
}
