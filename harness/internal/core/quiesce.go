package core

import (
	"hash/fnv"
	"regexp"
	"runtime"
	"strings"
	"time"
)

// Quiescence detector: "does not return" is decided structurally, never by a
// timer. If every goroutine of the process is parked in a wait that only
// another goroutine could end (channel operation, select, mutex/semaphore,
// condition variable, wait group) and the picture is identical in
// consecutive samples, nothing can make progress any more: the code under
// test uses no timers, and the harness's own timers only end the case.

var gHeader = regexp.MustCompile(`^goroutine (\d+) \[([^\]]+)\]:`)

type GInfo struct {
	ID    string
	State string
	Stack string
}

func Goroutines() []GInfo {
	buf := make([]byte, 1<<20)
	for {
		n := runtime.Stack(buf, true)
		if n < len(buf) {
			buf = buf[:n]
			break
		}
		buf = make([]byte, 2*len(buf))
	}
	var out []GInfo
	for _, blk := range strings.Split(string(buf), "\n\n") {
		m := gHeader.FindStringSubmatch(blk)
		if m == nil {
			continue
		}
		st := m[2]
		if i := strings.Index(st, ","); i >= 0 {
			st = st[:i]
		}
		out = append(out, GInfo{ID: m[1], State: st, Stack: blk})
	}
	return out
}

func parkedState(s string) bool {
	switch s {
	case "chan receive", "chan send", "select", "semacquire", "sync.Cond.Wait", "sync.Mutex.Lock", "sync.RWMutex.Lock", "sync.RWMutex.RLock", "sync.WaitGroup.Wait", "chan receive (nil chan)", "chan send (nil chan)", "select (no cases)":
		return true
	}
	// idle runtime goroutines
	return strings.HasPrefix(s, "GC ") || s == "finalizer wait" || s == "force gc (idle)" || s == "debug call"
}

// snapshotParked returns (allParked, fingerprint, dump). The sampling
// goroutine itself and goroutines matching ignore are skipped.
func snapshotParked(ignore func(GInfo) bool) (bool, uint64, string) {
	gs := Goroutines()
	h := fnv.New64a()
	all := true
	var dump []string
	for _, g := range gs {
		if g.State == "running" && strings.Contains(g.Stack, "core.Goroutines") {
			continue
		}
		if ignore != nil && ignore(g) {
			continue
		}
		if !parkedState(g.State) {
			all = false
		}
		h.Write([]byte(g.ID))
		h.Write([]byte(g.State))
		for _, l := range strings.Split(g.Stack, "\n")[1:] {
			if strings.HasPrefix(l, "\t") {
				if i := strings.Index(l, " +0x"); i >= 0 {
					l = l[:i]
				}
				h.Write([]byte(l))
			}
		}
		dump = append(dump, g.Stack)
	}
	return all, h.Sum64(), strings.Join(dump, "\n\n")
}

// Quiescent samples the goroutines n times, gap apart. It returns true (and
// the dump) only if all samples show every goroutine parked with identical
// stacks.
func Quiescent(n int, gap time.Duration, ignore func(GInfo) bool) (bool, string) {
	var fp uint64
	var dump string
	for i := 0; i < n; i++ {
		all, f, d := snapshotParked(ignore)
		if !all {
			return false, ""
		}
		if i > 0 && f != fp {
			return false, ""
		}
		fp, dump = f, d
		if i < n-1 {
			time.Sleep(gap)
		}
	}
	return true, dump
}

// FsutilFrames filters a dump down to goroutines that have a frame of the
// library under test.
func FsutilFrames(dump string) []string {
	var out []string
	for _, blk := range strings.Split(dump, "\n\n") {
		if strings.Contains(blk, "github.com/tonistiigi/fsutil.") || strings.Contains(blk, "github.com/tonistiigi/fsutil/") {
			out = append(out, blk)
		}
	}
	return out
}
