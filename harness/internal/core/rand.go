// Package core holds the pieces every property check shares: the seeded PRNG,
// the case runner (one child process per batch of cases), evidence and replay
// writers and the known-finding triage.
package core

import (
	"hash/fnv"
	"sync/atomic"
)

// Rand is a small splitmix64 generator. Every case gets its own instance
// seeded from (VERIF_SEED, property, case index), so a case is replayable
// from those three values alone.
type Rand struct{ s uint64 }

func NewRand(seed uint64) *Rand { return &Rand{s: seed} }

func Mix(seed uint64, prop string, idx int) uint64 {
	h := fnv.New64a()
	h.Write([]byte(prop))
	x := seed ^ h.Sum64() ^ (uint64(idx)+1)*0x9E3779B97F4A7C15
	r := Rand{s: x}
	r.U64()
	return r.U64()
}

// U64 is safe for concurrent use (callbacks of one case run on several
// goroutines of the code under test; with concurrent callers the split of the
// sequence between them follows the schedule, as everything else then does).
func (r *Rand) U64() uint64 {
	z := atomic.AddUint64(&r.s, 0x9E3779B97F4A7C15)
	z = (z ^ (z >> 30)) * 0xBF58476D1CE4E5B9
	z = (z ^ (z >> 27)) * 0x94D049BB133111EB
	return z ^ (z >> 31)
}

func (r *Rand) Intn(n int) int {
	if n <= 0 {
		return 0
	}
	return int(r.U64() % uint64(n))
}

// Range returns a value in [lo,hi].
func (r *Rand) Range(lo, hi int) int { return lo + r.Intn(hi-lo+1) }

// P returns true with probability num/den.
func (r *Rand) P(num, den int) bool { return r.Intn(den) < num }

func (r *Rand) Bytes(n int) []byte {
	b := make([]byte, n)
	for i := 0; i < n; i += 8 {
		v := r.U64()
		for j := 0; j < 8 && i+j < n; j++ {
			b[i+j] = byte(v >> (8 * j))
		}
	}
	return b
}

func (r *Rand) Fork() *Rand { return NewRand(r.U64()) }

func Pick[T any](r *Rand, xs []T) T { return xs[r.Intn(len(xs))] }

func Shuffle[T any](r *Rand, xs []T) {
	for i := len(xs) - 1; i > 0; i-- {
		j := r.Intn(i + 1)
		xs[i], xs[j] = xs[j], xs[i]
	}
}

// Weighted picks an index according to integer weights.
func (r *Rand) Weighted(w []int) int {
	t := 0
	for _, x := range w {
		t += x
	}
	if t == 0 {
		return 0
	}
	v := r.Intn(t)
	for i, x := range w {
		if v < x {
			return i
		}
		v -= x
	}
	return len(w) - 1
}
