package tree

import (
	"fmt"
	"os"
	"path/filepath"
	"sort"
	"strings"

	"golang.org/x/sys/unix"
)

// Materialise creates the tree below root (which must exist). It uses only
// os/unix calls. Metadata is applied after all entries exist, directories
// last and deepest first, so that directory mtimes stick.
func Materialise(root string, t *Tree) error {
	ents := append([]Entry(nil), t.Entries...)
	sort.SliceStable(ents, func(i, j int) bool { return CmpPath(ents[i].Path, ents[j].Path) < 0 })
	// pass 1: create non-link entries
	for _, e := range ents {
		if e.LinkTo != "" && e.Type != Dir {
			continue
		}
		p := filepath.Join(root, e.Path)
		switch e.Type {
		case Dir:
			if err := os.Mkdir(p, 0700); err != nil {
				return err
			}
		case File:
			if err := os.WriteFile(p, e.Data, 0600); err != nil {
				return err
			}
		case Symlink:
			if err := os.Symlink(e.Target, p); err != nil {
				return err
			}
		case Fifo:
			if err := unix.Mknod(p, unix.S_IFIFO|0600, 0); err != nil {
				return fmt.Errorf("mkfifo %s: %w", p, err)
			}
		case Char:
			if err := unix.Mknod(p, unix.S_IFCHR|0600, int(unix.Mkdev(e.Major, e.Minor))); err != nil {
				return fmt.Errorf("mknod %s: %w", p, err)
			}
		case Block:
			if err := unix.Mknod(p, unix.S_IFBLK|0600, int(unix.Mkdev(e.Major, e.Minor))); err != nil {
				return fmt.Errorf("mknod %s: %w", p, err)
			}
		case Sock:
			if err := unix.Mknod(p, unix.S_IFSOCK|0600, 0); err != nil {
				return fmt.Errorf("mksock %s: %w", p, err)
			}
		default:
			return fmt.Errorf("bad type %c", e.Type)
		}
	}
	// pass 2: hard links
	for _, e := range ents {
		if e.LinkTo == "" || e.Type == Dir {
			continue
		}
		if err := os.Link(filepath.Join(root, e.LinkTo), filepath.Join(root, e.Path)); err != nil {
			return err
		}
	}
	// pass 3: metadata of non-directories, then directories deepest first
	apply := func(e Entry) error {
		if e.LinkTo != "" && e.Type != Dir {
			return nil
		}
		return ApplyMeta(filepath.Join(root, e.Path), &e)
	}
	for _, e := range ents {
		if e.Type != Dir {
			if err := apply(e); err != nil {
				return err
			}
		}
	}
	for i := len(ents) - 1; i >= 0; i-- {
		if ents[i].Type == Dir {
			if err := apply(ents[i]); err != nil {
				return err
			}
		}
	}
	return nil
}

// ApplyMeta sets owner, mode, xattrs and mtime of one path (no follow).
func ApplyMeta(p string, e *Entry) error {
	if err := os.Lchown(p, int(e.UID), int(e.GID)); err != nil {
		return err
	}
	if e.Type != Symlink {
		if err := unix.Fchmodat(unix.AT_FDCWD, p, e.Perm&07777, 0); err != nil {
			return fmt.Errorf("chmod %s: %w", p, err)
		}
	}
	// remove xattrs that are not wanted, then set the wanted ones
	if have, err := lxattrs(p); err == nil {
		for k := range have {
			if _, ok := e.Xattrs[k]; !ok {
				unix.Lremovexattr(p, k)
			}
		}
	}
	for k, v := range e.Xattrs {
		if err := unix.Lsetxattr(p, k, v, 0); err != nil {
			return fmt.Errorf("setxattr %s %s: %w", p, k, err)
		}
	}
	return Lutimes(p, e.Mtime)
}

func Lutimes(p string, ns int64) error {
	ts := []unix.Timespec{unix.NsecToTimespec(ns), unix.NsecToTimespec(ns)}
	if err := unix.UtimesNanoAt(unix.AT_FDCWD, p, ts, unix.AT_SYMLINK_NOFOLLOW); err != nil {
		return fmt.Errorf("utimes %s: %w", p, err)
	}
	return nil
}

func lxattrs(p string) (map[string][]byte, error) {
	buf := make([]byte, 1<<16)
	n, err := unix.Llistxattr(p, buf)
	if err != nil {
		return nil, err
	}
	out := map[string][]byte{}
	for _, k := range strings.Split(string(buf[:n]), "\x00") {
		if k == "" {
			continue
		}
		vb := make([]byte, 1<<16)
		m, err := unix.Lgetxattr(p, k, vb)
		if err != nil {
			continue
		}
		out[k] = append([]byte{}, vb[:m]...)
	}
	if len(out) == 0 {
		return nil, nil
	}
	return out, nil
}

// SnapOpt controls the snapshot.
type SnapOpt struct {
	// NoData skips reading file contents.
	NoData bool
	// SymlinkGroups also reports hard-linked symlinks as groups.
	SymlinkGroups bool
}

// Snapshot lists everything below root with lstat/readlink/listxattr and
// file bytes, in protocol order, with link groups computed from inodes.
func Snapshot(root string, o SnapOpt) (*Tree, error) {
	t := &Tree{}
	if err := snapDir(root, "", t, o); err != nil {
		return nil, err
	}
	t.Sort()
	type key struct{ dev, ino uint64 }
	first := map[key]string{}
	for i := range t.Entries {
		e := &t.Entries[i]
		if e.Type == Dir || e.Nlink < 2 {
			continue
		}
		if e.Type == Symlink && !o.SymlinkGroups {
			continue
		}
		k := key{e.Dev, e.Ino}
		if f, ok := first[k]; ok {
			e.LinkTo = f
		} else {
			first[k] = e.Path
		}
	}
	return t, nil
}

func snapDir(root, rel string, t *Tree, o SnapOpt) error {
	d := filepath.Join(root, rel)
	f, err := os.Open(d)
	if err != nil {
		return err
	}
	names, err := f.Readdirnames(-1)
	f.Close()
	if err != nil {
		return err
	}
	for _, nm := range names {
		p := nm
		if rel != "" {
			p = rel + "/" + nm
		}
		e, err := LstatEntry(filepath.Join(root, p), o)
		if err != nil {
			return err
		}
		e.Path = p
		t.Entries = append(t.Entries, *e)
		if e.Type == Dir {
			if err := snapDir(root, p, t, o); err != nil {
				return err
			}
		}
	}
	return nil
}

// LstatEntry snapshots one path.
func LstatEntry(full string, o SnapOpt) (*Entry, error) {
	var st unix.Stat_t
	if err := unix.Lstat(full, &st); err != nil {
		return nil, fmt.Errorf("lstat %s: %w", full, err)
	}
	e := &Entry{
		Perm:  st.Mode & 07777,
		UID:   st.Uid,
		GID:   st.Gid,
		Mtime: st.Mtim.Sec*1e9 + st.Mtim.Nsec,
		Ctime: st.Ctim.Sec*1e9 + st.Ctim.Nsec,
		Ino:   st.Ino,
		Nlink: uint64(st.Nlink),
		Dev:   st.Dev,
		Size:  st.Size,
	}
	switch st.Mode & unix.S_IFMT {
	case unix.S_IFDIR:
		e.Type = Dir
		e.Size = 0
	case unix.S_IFREG:
		e.Type = File
		if !o.NoData {
			b, err := os.ReadFile(full)
			if err != nil {
				// unreadable for the current user: keep size only
				b = nil
			}
			e.Data = b
			if e.Data == nil && err == nil {
				e.Data = []byte{}
			}
		}
	case unix.S_IFLNK:
		e.Type = Symlink
		tg, err := os.Readlink(full)
		if err != nil {
			return nil, err
		}
		e.Target = tg
	case unix.S_IFIFO:
		e.Type = Fifo
	case unix.S_IFCHR:
		e.Type = Char
		e.Major, e.Minor = unix.Major(st.Rdev), unix.Minor(st.Rdev)
	case unix.S_IFBLK:
		e.Type = Block
		e.Major, e.Minor = unix.Major(st.Rdev), unix.Minor(st.Rdev)
	case unix.S_IFSOCK:
		e.Type = Sock
	}
	xa, err := lxattrs(full)
	if err == nil {
		e.Xattrs = xa
	}
	return e, nil
}

// MustEmptyDir creates (or empties) a directory.
func MustEmptyDir(p string) error {
	os.RemoveAll(p)
	return os.MkdirAll(p, 0755)
}
