// Package tree is the abstract tree model used by all monitors, its
// generators, its materialisation on disk and an independent snapshot walker
// (x/sys/unix only, never fsutil).
package tree

import (
	"bytes"
	"crypto/sha256"
	"encoding/hex"
	"fmt"
	"os"
	"sort"
	"strings"

	"github.com/tonistiigi/fsutil/types"
)

// Entry types.
const (
	File    = 'f'
	Dir     = 'd'
	Symlink = 'l'
	Fifo    = 'p'
	Char    = 'c'
	Block   = 'b'
	Sock    = 's'
)

// Entry is one node of the abstract tree.
type Entry struct {
	Path   string            `json:"path"` // slash separated, relative, clean
	Type   byte              `json:"type"`
	Perm   uint32            `json:"perm"` // unix bits 07777
	UID    uint32            `json:"uid"`
	GID    uint32            `json:"gid"`
	Mtime  int64             `json:"mtime"` // ns
	Data   []byte            `json:"-"`
	Size   int64             `json:"size"`
	Target string            `json:"target,omitempty"` // symlink target
	Major  uint32            `json:"major,omitempty"`
	Minor  uint32            `json:"minor,omitempty"`
	Xattrs map[string][]byte `json:"xattrs,omitempty"`
	// LinkTo names the canonical (first in protocol order) member of the
	// inode group this entry belongs to; empty for the canonical member.
	LinkTo string `json:"linkto,omitempty"`

	// filled by Snapshot only
	Ino   uint64 `json:"ino,omitempty"`
	Nlink uint64 `json:"nlink,omitempty"`
	Ctime int64  `json:"-"`
	Dev   uint64 `json:"-"`
}

func (e *Entry) Digest() string {
	h := sha256.Sum256(e.Data)
	return hex.EncodeToString(h[:8])
}

func (e Entry) String() string {
	s := fmt.Sprintf("%c %s %04o %d:%d mt=%d", e.Type, e.Path, e.Perm, e.UID, e.GID, e.Mtime)
	switch e.Type {
	case File:
		s += fmt.Sprintf(" size=%d sha=%s", len(e.Data), e.Digest())
	case Symlink:
		s += " -> " + e.Target
	case Char, Block:
		s += fmt.Sprintf(" dev=%d,%d", e.Major, e.Minor)
	}
	if e.LinkTo != "" {
		s += " =" + e.LinkTo
	}
	if len(e.Xattrs) > 0 {
		ks := []string{}
		for k, v := range e.Xattrs {
			ks = append(ks, fmt.Sprintf("%s=%x", k, v))
		}
		sort.Strings(ks)
		s += " x{" + strings.Join(ks, ",") + "}"
	}
	return s
}

// Tree is a list of entries sorted in protocol path order.
type Tree struct {
	Entries []Entry
}

func (t *Tree) Clone() *Tree {
	n := &Tree{Entries: make([]Entry, len(t.Entries))}
	for i, e := range t.Entries {
		n.Entries[i] = e.Clone()
	}
	return n
}

func (e Entry) Clone() Entry {
	c := e
	if e.Data != nil {
		c.Data = append([]byte(nil), e.Data...)
	}
	if e.Xattrs != nil {
		c.Xattrs = map[string][]byte{}
		for k, v := range e.Xattrs {
			c.Xattrs[k] = append([]byte(nil), v...)
		}
	}
	return c
}

func (t *Tree) Sort() {
	sort.SliceStable(t.Entries, func(i, j int) bool { return CmpPath(t.Entries[i].Path, t.Entries[j].Path) < 0 })
}

func (t *Tree) Index() map[string]int {
	m := make(map[string]int, len(t.Entries))
	for i, e := range t.Entries {
		m[e.Path] = i
	}
	return m
}

func (t *Tree) Get(p string) *Entry {
	for i := range t.Entries {
		if t.Entries[i].Path == p {
			return &t.Entries[i]
		}
	}
	return nil
}

func (t *Tree) Paths() []string {
	out := make([]string, len(t.Entries))
	for i, e := range t.Entries {
		out[i] = e.Path
	}
	return out
}

// Lines renders the tree compactly (used in samples and replay files).
func (t *Tree) Lines() []string {
	out := make([]string, len(t.Entries))
	for i, e := range t.Entries {
		out[i] = e.String()
	}
	return out
}

// Remove deletes p and everything below it.
func (t *Tree) Remove(p string) {
	out := t.Entries[:0]
	for _, e := range t.Entries {
		if e.Path == p || strings.HasPrefix(e.Path, p+"/") {
			continue
		}
		out = append(out, e)
	}
	t.Entries = out
}

// Put inserts or replaces an entry (and keeps order).
func (t *Tree) Put(e Entry) {
	for i := range t.Entries {
		if t.Entries[i].Path == e.Path {
			t.Entries[i] = e
			return
		}
	}
	t.Entries = append(t.Entries, e)
	t.Sort()
}

// CmpPath compares two slash separated paths component by component with
// plain byte order inside a component. This is the specification of the
// protocol's path order, written independently of fsutil.ComparePath.
func CmpPath(a, b string) int {
	as := strings.Split(a, "/")
	bs := strings.Split(b, "/")
	for i := 0; i < len(as) && i < len(bs); i++ {
		if c := strings.Compare(as[i], bs[i]); c != 0 {
			return c
		}
	}
	return len(as) - len(bs)
}

func Parent(p string) string {
	i := strings.LastIndexByte(p, '/')
	if i < 0 {
		return ""
	}
	return p[:i]
}

func Base(p string) string {
	i := strings.LastIndexByte(p, '/')
	return p[i+1:]
}

// GoMode converts the entry's type and unix permission bits into Go's
// os.FileMode bit layout (the layout types.Stat.Mode uses).
func (e *Entry) GoMode() os.FileMode {
	m := os.FileMode(e.Perm & 0777)
	if e.Perm&04000 != 0 {
		m |= os.ModeSetuid
	}
	if e.Perm&02000 != 0 {
		m |= os.ModeSetgid
	}
	if e.Perm&01000 != 0 {
		m |= os.ModeSticky
	}
	switch e.Type {
	case Dir:
		m |= os.ModeDir
	case Symlink:
		m |= os.ModeSymlink
	case Fifo:
		m |= os.ModeNamedPipe
	case Char:
		m |= os.ModeDevice | os.ModeCharDevice
	case Block:
		m |= os.ModeDevice
	case Sock:
		m |= os.ModeSocket
	}
	return m
}

// Stat renders the entry as the stat a conforming sender would announce.
// Hard link members carry the canonical member's path in Linkname.
func (e *Entry) Stat() *types.Stat {
	st := &types.Stat{
		Path:    e.Path,
		Mode:    uint32(e.GoMode()) &^ uint32(os.ModeSocket),
		Uid:     e.UID,
		Gid:     e.GID,
		ModTime: e.Mtime,
	}
	switch e.Type {
	case File:
		st.Size = int64(len(e.Data))
		if e.Data == nil {
			st.Size = e.Size
		}
	case Symlink:
		st.Linkname = e.Target
		st.Size = int64(len(e.Target))
	case Char, Block:
		st.Devmajor = int64(e.Major)
		st.Devminor = int64(e.Minor)
	}
	if e.LinkTo != "" && e.Type != Symlink && e.Type != Dir {
		st.Linkname = e.LinkTo
	}
	if len(e.Xattrs) > 0 {
		st.Xattrs = map[string][]byte{}
		for k, v := range e.Xattrs {
			st.Xattrs[k] = append([]byte(nil), v...)
		}
	}
	return st
}

// FromStat is the inverse of Stat for stats produced by fsutil's walk.
func FromStat(st *types.Stat) Entry {
	m := os.FileMode(st.Mode)
	e := Entry{Path: st.Path, UID: st.Uid, GID: st.Gid, Mtime: st.ModTime, Size: st.Size}
	e.Perm = uint32(m.Perm())
	if m&os.ModeSetuid != 0 {
		e.Perm |= 04000
	}
	if m&os.ModeSetgid != 0 {
		e.Perm |= 02000
	}
	if m&os.ModeSticky != 0 {
		e.Perm |= 01000
	}
	switch {
	case m.IsDir():
		e.Type = Dir
	case m&os.ModeSymlink != 0:
		e.Type = Symlink
		e.Target = st.Linkname
	case m&os.ModeNamedPipe != 0:
		e.Type = Fifo
	case m&os.ModeCharDevice != 0:
		e.Type = Char
	case m&os.ModeDevice != 0:
		e.Type = Block
	case m&os.ModeSocket != 0:
		e.Type = Sock
	default:
		e.Type = File
	}
	if e.Type == Char || e.Type == Block {
		e.Major, e.Minor = uint32(st.Devmajor), uint32(st.Devminor)
	}
	if e.Type != Symlink && e.Type != Dir {
		e.LinkTo = st.Linkname
	}
	if len(st.Xattrs) > 0 {
		e.Xattrs = map[string][]byte{}
		for k, v := range st.Xattrs {
			e.Xattrs[k] = append([]byte(nil), v...)
		}
	}
	return e
}

// Mask selects the fields a comparison demands.
type Mask struct {
	Perm, Owner, Mtime, DirMtime, Xattrs, DirXattrs, SymlinkXattrs, SpecialXattrs, Links, Data, Rdev, Target bool
	// MtimeSec compares mtimes truncated to seconds.
	MtimeSec bool
	// DirMtimeOnly, if non-nil, restricts the directory mtime comparison to
	// these paths (e.g. directories the transfer created).
	DirMetaOnly map[string]bool
	// SkipXattrFor, if non-nil, skips xattr comparison on these paths.
}

// FullMask compares everything the properties ever demand.
func FullMask() Mask {
	return Mask{Perm: true, Owner: true, Mtime: true, DirMtime: true, Xattrs: true, DirXattrs: true, Links: true, Data: true, Rdev: true, Target: true}
}

// Diff lists the differences between an expected and an observed tree under
// a mask. Both must be sorted.
func Diff(want, got *Tree, m Mask) []string {
	var out []string
	wi, gi := want.Index(), got.Index()
	for _, e := range want.Entries {
		if _, ok := gi[e.Path]; !ok {
			out = append(out, "missing: "+e.String())
		}
	}
	for _, e := range got.Entries {
		if _, ok := wi[e.Path]; !ok {
			out = append(out, "unexpected: "+e.String())
		}
	}
	for _, w := range want.Entries {
		j, ok := gi[w.Path]
		if !ok {
			continue
		}
		g := got.Entries[j]
		if d := diffEntry(&w, &g, m); d != "" {
			out = append(out, fmt.Sprintf("differs (%s): want %s | got %s", d, w.String(), g.String()))
		}
	}
	return out
}

func diffEntry(w, g *Entry, m Mask) string {
	var d []string
	if w.Type != g.Type {
		return "type"
	}
	if m.Perm && w.Type != Symlink && w.Perm != g.Perm {
		d = append(d, "perm")
	}
	if m.Owner && (w.UID != g.UID || w.GID != g.GID) {
		d = append(d, "owner")
	}
	checkMeta := true
	if w.Type == Dir && m.DirMetaOnly != nil && !m.DirMetaOnly[w.Path] {
		checkMeta = false
	}
	if w.Type == Dir {
		if m.DirMtime && checkMeta && !mtEq(w.Mtime, g.Mtime, m.MtimeSec) {
			d = append(d, "mtime")
		}
	} else if m.Mtime && !mtEq(w.Mtime, g.Mtime, m.MtimeSec) {
		d = append(d, "mtime")
	}
	switch w.Type {
	case File:
		if m.Data && !bytes.Equal(w.Data, g.Data) {
			d = append(d, "data")
		}
	case Symlink:
		if m.Target && w.Target != g.Target {
			d = append(d, "target")
		}
	case Char, Block:
		if m.Rdev && (w.Major != g.Major || w.Minor != g.Minor) {
			d = append(d, "rdev")
		}
	}
	if m.Links && w.LinkTo != g.LinkTo {
		d = append(d, "linkgroup")
	}
	xa := false
	switch w.Type {
	case Dir:
		xa = m.DirXattrs && checkMeta
	case Symlink:
		xa = m.SymlinkXattrs
	case File:
		xa = m.Xattrs
	default:
		xa = m.SpecialXattrs
	}
	if xa && !xattrEq(w.Xattrs, g.Xattrs) {
		d = append(d, "xattrs")
	}
	return strings.Join(d, ",")
}

func mtEq(a, b int64, sec bool) bool {
	if sec {
		return floorDiv(a, 1e9) == floorDiv(b, 1e9)
	}
	return a == b
}

func floorDiv(a, b int64) int64 {
	q := a / b
	if (a%b != 0) && ((a < 0) != (b < 0)) {
		q--
	}
	return q
}

// XattrEq compares xattr maps (nil and empty values are equal).
func XattrEq(a, b map[string][]byte) bool { return xattrEq(a, b) }

func xattrEq(a, b map[string][]byte) bool {
	if len(a) != len(b) {
		return false
	}
	for k, v := range a {
		w, ok := b[k]
		if !ok || !bytes.Equal(v, w) {
			return false
		}
	}
	return true
}

// Canonicalise recomputes LinkTo from explicit groups: within each group (a
// set of paths sharing an inode) the first in protocol order is canonical.
func (t *Tree) Canonicalise(groups [][]string) {
	idx := t.Index()
	for _, g := range groups {
		sort.Slice(g, func(i, j int) bool { return CmpPath(g[i], g[j]) < 0 })
		for i, p := range g {
			e := &t.Entries[idx[p]]
			if i == 0 {
				e.LinkTo = ""
			} else {
				e.LinkTo = g[0]
			}
		}
	}
}

// Groups returns the link groups (canonical first) of a tree.
func (t *Tree) Groups() map[string][]string {
	g := map[string][]string{}
	for _, e := range t.Entries {
		if e.LinkTo != "" {
			if len(g[e.LinkTo]) == 0 {
				g[e.LinkTo] = []string{e.LinkTo}
			}
			g[e.LinkTo] = append(g[e.LinkTo], e.Path)
		}
	}
	return g
}

// Fingerprint summarises the shape of a tree for distinctness counting.
func (t *Tree) Fingerprint() string {
	h := sha256.New()
	for _, e := range t.Entries {
		fmt.Fprintf(h, "%c%s|%o|%d|%d|%s|%s;", e.Type, e.Path, e.Perm, len(e.Data), e.UID, e.Target, e.LinkTo)
	}
	return hex.EncodeToString(h.Sum(nil)[:8])
}
