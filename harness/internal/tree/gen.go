package tree

import (
	"strings"

	"verif/internal/core"
)

// Adversarial name pool: byte order and protocol path order disagree on
// several of these ('a' < 'a-b' < 'a/b' bytewise, but 'a/b' sorts before
// 'a-b' in the protocol), bytes below and above '/', spaces, dots, non-ASCII.
var Names = []string{"a", "a-b", "a b", "a.b", "a+", "a,", "a!", "ab", "A", "é", "~", ".c", "b", "c", "a0", "a-", "d", "e.txt", "z", "0", "..a", "..."}

var LongName = strings.Repeat("L", 255)

var Sizes = []int{0, 1, 5, 100, 4096, 32767, 32768, 32769, 65536, 70000}

var Mtimes = []int64{0, 1, -1500000000_000000005, -1400000000_600000000, 4102444800_123456789, 1600000000_000000000, 1234567890_987654321}

type GenOpt struct {
	MaxEntries int
	MaxDepth   int
	MaxFanout  int
	Names      []string
	Types      string // subset of "fdlpcb"; weights are fixed
	Xattrs     bool
	SymXattrs  bool // trusted.* on symlinks (root only)
	SecXattrs  bool // security.capability on regular files (root only; chown strips it)
	Links      bool // hard link groups of regular files
	SpecLinks  bool // hard link groups of fifos/devices
	Owners     []uint32
	Special    bool // setuid/setgid/sticky
	Big        bool // allow ~1MiB files
	MaxSize    int  // 0 = no cap
	LongNames  bool
	// Targets are extra symlink targets (e.g. sentinels outside the root).
	Targets []string
	// ReadOnly produces 0444/0555 style files at some weight.
	ReadOnly bool
	Perms    []uint32
	// NoOrderBias disables the forced order-sensitive sibling sets.
	NoOrderBias bool
	// Deep adds, in 1 tree of 20, a chain of nested directories whose depth
	// lies around the sizes at which per-level stacks grow (8, 16, 32, 64;
	// 10, 20, 40), with a few files and order-sensitive siblings on the way.
	Deep bool
}

func DefaultOpt() GenOpt {
	return GenOpt{MaxEntries: 24, MaxDepth: 4, MaxFanout: 6, Names: Names, Types: "fdlpcb", Xattrs: true, SecXattrs: true, Links: true, Owners: []uint32{0, 1234, 65534, 3000000000}, Special: true, LongNames: true, ReadOnly: true, Deep: true}
}

func (o GenOpt) has(t byte) bool { return strings.IndexByte(o.Types, t) >= 0 }

// Gen generates a random tree.
func Gen(r *core.Rand, o GenOpt) *Tree {
	t := &Tree{}
	if o.MaxEntries == 0 {
		o.MaxEntries = 24
	}
	if o.MaxFanout == 0 {
		o.MaxFanout = 6
	}
	if len(o.Names) == 0 {
		o.Names = Names
	}
	if len(o.Owners) == 0 {
		o.Owners = []uint32{0}
	}
	budget := r.Range(1, o.MaxEntries)
	g := &gen{r: r, o: o, t: t, budget: budget}
	g.dir("", 0)
	if o.Deep && o.has(Dir) && r.P(1, 20) {
		g.deepChain()
	}
	t.Sort()
	if o.Links {
		g.addLinks(File)
	}
	if o.SpecLinks {
		g.addLinks(Fifo)
		g.addLinks(Char)
	}
	t.Sort()
	t.recanon()
	return t
}

type gen struct {
	r      *core.Rand
	o      GenOpt
	t      *Tree
	budget int
}

func (g *gen) names(n int) []string {
	pool := append([]string(nil), g.o.Names...)
	core.Shuffle(g.r, pool)
	if n > len(pool) {
		n = len(pool)
	}
	out := pool[:n]
	if g.o.LongNames && g.r.P(1, 40) && n > 0 {
		out[0] = LongName
	}
	return out
}

func (g *gen) meta(e *Entry) {
	r := g.r
	e.UID = core.Pick(r, g.o.Owners)
	e.GID = core.Pick(r, g.o.Owners)
	if r.P(1, 2) {
		e.Mtime = core.Pick(r, Mtimes)
	} else {
		e.Mtime = int64(1_000_000_000+r.Intn(700_000_000))*1_000_000_000 + int64(r.Intn(1_000_000_000))
	}
	if len(g.o.Perms) > 0 {
		e.Perm = core.Pick(r, g.o.Perms)
	} else {
		switch e.Type {
		case Dir:
			e.Perm = core.Pick(r, []uint32{0755, 0700, 0775, 0711, 0750})
		case Symlink:
			e.Perm = 0777
		default:
			e.Perm = core.Pick(r, []uint32{0644, 0600, 0755, 0640, 0664, 0700})
			if g.o.ReadOnly && r.P(1, 8) {
				e.Perm = core.Pick(r, []uint32{0444, 0400, 0555})
			}
		}
	}
	if g.o.Special && e.Type != Symlink && r.P(1, 8) {
		switch e.Type {
		case Dir:
			e.Perm |= core.Pick(r, []uint32{01000, 02000, 03000})
		default:
			e.Perm |= core.Pick(r, []uint32{04000, 02000, 06000, 01000})
		}
	}
	if g.o.Xattrs && (e.Type == File || e.Type == Dir) && r.P(1, 5) {
		e.Xattrs = map[string][]byte{}
		n := r.Range(1, 2)
		for i := 0; i < n; i++ {
			e.Xattrs[core.Pick(r, []string{"user.k1", "user.k2", "user.verif.long-key"})] = r.Bytes(core.Pick(r, []int{0, 1, 7, 40}))
		}
	}
	if g.o.SecXattrs && e.Type == File && r.P(1, 12) {
		if e.Xattrs == nil {
			e.Xattrs = map[string][]byte{}
		}
		// vfs_cap_data revision 2: cap_net_raw (or cap_chown) permitted
		bit := core.Pick(r, []byte{0x20, 0x01})
		e.Xattrs["security.capability"] = []byte{1, 0, 0, 2, 0, bit, 0, 0, 0, 0, 0, 0, 0, 0, 0, 0, 0, 0, 0, 0}
	}
	if g.o.SymXattrs && e.Type == Symlink && r.P(1, 6) {
		e.Xattrs = map[string][]byte{"trusted.vx": r.Bytes(5)}
	}
}

func (g *gen) pickType(depth int) byte {
	o := g.o
	w := []int{0, 0, 0, 0, 0, 0}
	ts := []byte{File, Dir, Symlink, Fifo, Char, Block}
	base := []int{10, 6, 3, 1, 1, 1}
	for i, t := range ts {
		if o.has(t) {
			w[i] = base[i]
		}
	}
	if depth >= o.MaxDepth {
		w[1] = 0
	}
	return ts[g.r.Weighted(w)]
}

func (g *gen) dir(prefix string, depth int) {
	if g.budget <= 0 {
		return
	}
	n := g.r.Range(1, g.o.MaxFanout)
	nms := g.names(n)
	forceDir := ""
	if !g.o.NoOrderBias && depth < g.o.MaxDepth && g.o.has(Dir) && g.r.P(1, 3) {
		// order-sensitive sibling set: directory "a" with children next to "a<byte below '/'>..."
		forceDir = "a"
		sib := core.Pick(g.r, []string{"a-b", "a b", "a.b", "a+", "a,", "a!", "a-"})
		keep := []string{forceDir, sib}
		for _, x := range nms {
			if x != forceDir && x != sib {
				keep = append(keep, x)
			}
		}
		nms = keep
		if g.budget < 3 {
			g.budget = 3
		}
	}
	for _, nm := range nms {
		if g.budget <= 0 {
			return
		}
		g.budget--
		p := nm
		if prefix != "" {
			p = prefix + "/" + nm
		}
		if len(p) > 900 {
			continue
		}
		e := Entry{Path: p, Type: g.pickType(depth)}
		if nm == forceDir {
			e.Type = Dir
			if g.budget < 1 {
				g.budget = 1
			}
		}
		g.meta(&e)
		switch e.Type {
		case File:
			sz := core.Pick(g.r, Sizes)
			if g.r.P(1, 4) {
				sz = g.r.Intn(200)
			}
			if g.o.Big && g.r.P(1, 25) {
				sz = 1<<20 + g.r.Intn(5000)
			}
			if g.o.MaxSize > 0 && sz > g.o.MaxSize {
				sz = g.r.Intn(g.o.MaxSize + 1)
			}
			e.Data = g.r.Bytes(sz)
			if sz == 0 {
				e.Data = []byte{}
			}
			if sz >= 4096 && g.r.P(1, 10) {
				// blank content (all zero bytes), or zero runs that cover whole
				// chunks: writers that treat zero blocks specially see them
				e.Data = make([]byte, sz)
				if g.r.P(1, 2) {
					e.Data[g.r.Intn(sz)] = 1
				}
			}
		case Symlink:
			e.Target = g.target(prefix)
		case Char, Block:
			e.Major = core.Pick(g.r, []uint32{1, 5, 259, 4095})
			e.Minor = core.Pick(g.r, []uint32{0, 3, 255, 256, 70000})
		}
		g.t.Entries = append(g.t.Entries, e)
		if e.Type == Dir {
			g.dir(p, depth+1)
		}
	}
}

// deepChain adds q/..., a chain of directories of boundary depth.
func (g *gen) deepChain() {
	r := g.r
	depth := core.Pick(r, []int{7, 8, 9, 10, 11, 12, 15, 16, 17, 19, 20, 21, 31, 32, 33, 39, 40, 41, 63, 64, 65})
	p := "q"
	for l := 0; l < depth; l++ {
		if l > 0 {
			p += "/" + core.Pick(r, []string{"a", "b", "d"})
		}
		e := Entry{Path: p, Type: Dir}
		g.meta(&e)
		g.t.Entries = append(g.t.Entries, e)
		if r.P(1, 4) || l == depth-1 {
			// a file (and sometimes a sibling sorting between "a" and "a/x")
			f := Entry{Path: p + "/f", Type: File, Data: r.Bytes(r.Intn(300))}
			g.meta(&f)
			g.t.Entries = append(g.t.Entries, f)
			if r.P(1, 3) && g.o.has(Symlink) {
				sl := Entry{Path: p + "/a-b", Type: Symlink, Target: "f"}
				g.meta(&sl)
				g.t.Entries = append(g.t.Entries, sl)
			}
		}
	}
}

func (g *gen) target(prefix string) string {
	r := g.r
	if len(g.o.Targets) > 0 && r.P(1, 2) {
		return core.Pick(r, g.o.Targets)
	}
	nm := core.Pick(r, g.o.Names)
	switch r.Intn(8) {
	case 0:
		return nm
	case 1:
		return "../" + nm
	case 2:
		return "/" + nm
	case 3:
		return "./" + nm + "/../" + core.Pick(r, g.o.Names)
	case 4:
		return "../../../" + nm
	case 5:
		return "."
	case 6:
		return nm + "/" + core.Pick(r, g.o.Names)
	default:
		return "does-not-exist"
	}
}

// addLinks adds 0-2 link groups of the given type: extra paths that share the
// inode of an existing entry.
func (g *gen) addLinks(typ byte) {
	r := g.r
	var cands []int
	for i, e := range g.t.Entries {
		if e.Type == typ && e.LinkTo == "" {
			cands = append(cands, i)
		}
	}
	if len(cands) == 0 || r.P(1, 3) {
		return
	}
	dirs := []string{""}
	for _, e := range g.t.Entries {
		if e.Type == Dir {
			dirs = append(dirs, e.Path)
		}
	}
	ng := r.Range(1, 2)
	for k := 0; k < ng; k++ {
		src := g.t.Entries[core.Pick(r, cands)]
		members := r.Range(1, 3)
		for m := 0; m < members; m++ {
			d := core.Pick(r, dirs)
			nm := core.Pick(r, g.o.Names) + core.Pick(r, []string{"", "", ".lnk", "-l"})
			p := nm
			if d != "" {
				p = d + "/" + nm
			}
			if g.t.Get(p) != nil {
				continue
			}
			ne := src.Clone()
			ne.Path = p
			ne.LinkTo = src.Path
			g.t.Entries = append(g.t.Entries, ne)
		}
	}
}

// recanon makes the first member (protocol order) of every group canonical.
func (t *Tree) recanon() {
	groups := map[string][]string{}
	for _, e := range t.Entries {
		if e.LinkTo != "" {
			if len(groups[e.LinkTo]) == 0 {
				groups[e.LinkTo] = []string{e.LinkTo}
			}
			groups[e.LinkTo] = append(groups[e.LinkTo], e.Path)
		}
	}
	var gs [][]string
	for _, g := range groups {
		gs = append(gs, g)
	}
	t.Canonicalise(gs)
}

// Recanon is exported for callers that edit link groups.
func (t *Tree) Recanon() { t.recanon() }

// GroupOf returns the canonical path of the group e belongs to ("" if none).
func (t *Tree) GroupOf(p string) string {
	e := t.Get(p)
	if e == nil {
		return ""
	}
	if e.LinkTo != "" {
		return e.LinkTo
	}
	for _, x := range t.Entries {
		if x.LinkTo == p {
			return p
		}
	}
	return ""
}
