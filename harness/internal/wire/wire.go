// Package wire is the instrumented in-memory stream the monitors put between
// a sender and a receiver: packet log with one global sequence, overlap
// detector for concurrent SendMsg/RecvMsg on one endpoint, bounded buffers,
// injectable delays, gates and faults, EOF/abort/teardown semantics modelled
// on a gRPC bidi stream (the transport fsutil is used with).
package wire

import (
	"context"
	"errors"
	"fmt"
	"io"
	"runtime"
	"sync"
	"sync/atomic"

	"github.com/tonistiigi/fsutil/types"
	"google.golang.org/protobuf/proto"
)

type Event struct {
	Seq  int64  `json:"seq"`
	End  string `json:"end"` // "S" = sender's endpoint, "R" = receiver's endpoint
	Op   string `json:"op"`  // send | recv
	Type int32  `json:"type"`
	ID   uint32 `json:"id,omitempty"`
	Path string `json:"path,omitempty"`
	Stat bool   `json:"stat,omitempty"`
	Len  int    `json:"len,omitempty"`
	Err  string `json:"err,omitempty"`
	// St is a copy of the stat of a STAT packet (only with Config.KeepStats).
	St *types.Stat `json:"-"`
}

func (e Event) String() string {
	t := types.Packet_PacketType(e.Type).String()
	s := fmt.Sprintf("#%d %s.%s %s", e.Seq, e.End, e.Op, t)
	switch types.Packet_PacketType(e.Type) {
	case types.PACKET_STAT:
		if e.Stat {
			s += " " + e.Path
		} else {
			s += " <end>"
		}
	case types.PACKET_REQ:
		s += fmt.Sprintf(" id=%d", e.ID)
	case types.PACKET_DATA:
		s += fmt.Sprintf(" id=%d len=%d", e.ID, e.Len)
	}
	if e.Err != "" {
		s += " err=" + e.Err
	}
	return s
}

// Config parameterises a stream pair.
type Config struct {
	// PostSend runs after a packet was handed over and before SendMsg
	// returns (a transport whose send completes after delivery).
	PostSend func(end string, pk *types.Packet)
	Cap int // packets buffered per direction (0 = rendezvous)
	// Hook is called inside every SendMsg/RecvMsg (phase 0: on entry while the
	// in-flight counter is raised, phase 1: after the packet was handed over).
	Hook func(end, op string, idx int64, phase int)
	// Fault may return an error for the idx-th op (per endpoint and op kind).
	// The error io.EOF on a recv delivers end of stream.
	Fault func(end, op string, idx int64) error
	// Generic selects the generic protobuf runtime for (un)marshalling on the
	// wire for a packet; nil = always fsutil's own codec.
	Generic func() bool
	// Gate is called before a packet is handed over; it may block (until the
	// harness opens the gate) to build up pending work on the other side.
	Gate func(end string, p *types.Packet)
	// KeepStats stores a copy of every STAT's stat in the event log.
	KeepStats bool
	// OnEvent is called for every logged event (under the log lock).
	OnEvent func(Event)
	// TeardownKeepsContexts: tearing the stream down makes every stream
	// operation fail but leaves the callers' contexts alone (a transport whose
	// lifetime is not tied to the contexts the calls were given).
	TeardownKeepsContexts bool
	// StreamIgnoresContexts: SendMsg/RecvMsg do not observe the context the
	// call was given (a transport with a life of its own: only its teardown
	// ends pending operations). The code under test must notice a cancelled
	// context by itself.
	StreamIgnoresContexts bool
}

var ErrTornDown = errors.New("stream torn down")

type queue struct {
	ch       chan []byte
	closed   chan struct{}
	aborted  chan struct{}
	abortErr error
	once     sync.Once
	aonce    sync.Once
}

func newQueue(cap int) *queue {
	return &queue{ch: make(chan []byte, cap), closed: make(chan struct{}), aborted: make(chan struct{})}
}

type Pair struct {
	mu       sync.Mutex
	log      []Event
	seq      int64
	overlaps []string
	cfg      Config
	S, R     *End
	down     chan struct{}
	donce    sync.Once
}

type End struct {
	Name   string
	pair   *Pair
	ctx    context.Context
	cancel context.CancelFunc
	in     *queue
	out    *queue
	inSend atomic.Int32
	inRecv atomic.Int32
	nSend  atomic.Int64
	nRecv  atomic.Int64
	// returned is set when the call that was given this endpoint has
	// returned; lateOps collects the stream operations started afterwards
	returned atomic.Bool
	atReturn atomic.Int32
	lateMu   sync.Mutex
	lateOps  []string
}

// MarkReturned records that the call owning this endpoint has returned: from
// now on the stream belongs to the caller again.
func (e *End) MarkReturned() {
	e.atReturn.Store(e.inSend.Load() + e.inRecv.Load())
	e.returned.Store(true)
}

// InFlightAtReturn is the number of stream operations that were still in
// flight on this endpoint at the moment the call owning it returned.
func (e *End) InFlightAtReturn() int { return int(e.atReturn.Load()) }

// LateOps lists the stream operations that were started on this endpoint
// after the call owning it had returned.
func (e *End) LateOps() []string {
	e.lateMu.Lock()
	defer e.lateMu.Unlock()
	return append([]string{}, e.lateOps...)
}

func (e *End) late(op string, pk *types.Packet) {
	if !e.returned.Load() {
		return
	}
	d := op
	if pk != nil {
		d = fmt.Sprintf("%s %v id=%d", op, pk.Type, pk.ID)
	}
	e.lateMu.Lock()
	if len(e.lateOps) < 8 {
		e.lateOps = append(e.lateOps, d+"\n"+stack())
	}
	e.lateMu.Unlock()
}

// NewPair creates the two endpoints. Each endpoint has its own context.
func NewPair(cfg Config) *Pair {
	p := &Pair{cfg: cfg, down: make(chan struct{})}
	s2r := newQueue(cfg.Cap)
	r2s := newQueue(cfg.Cap)
	sctx, scancel := context.WithCancel(context.Background())
	rctx, rcancel := context.WithCancel(context.Background())
	p.S = &End{Name: "S", pair: p, ctx: sctx, cancel: scancel, in: r2s, out: s2r}
	p.R = &End{Name: "R", pair: p, ctx: rctx, cancel: rcancel, in: s2r, out: r2s}
	return p
}

func (p *Pair) record(e Event) {
	p.mu.Lock()
	p.seq++
	e.Seq = p.seq
	p.log = append(p.log, e)
	if p.cfg.OnEvent != nil {
		p.cfg.OnEvent(e)
	}
	p.mu.Unlock()
}

// Seq returns the number of events logged so far (a progress counter).
func (p *Pair) Seq() int64 {
	p.mu.Lock()
	defer p.mu.Unlock()
	return p.seq
}

// Log returns a copy of the event log.
func (p *Pair) Log() []Event {
	p.mu.Lock()
	defer p.mu.Unlock()
	return append([]Event(nil), p.log...)
}

// Overlaps returns the concurrent-call observations.
func (p *Pair) Overlaps() []string {
	p.mu.Lock()
	defer p.mu.Unlock()
	return append([]string(nil), p.overlaps...)
}

// Teardown fails every pending and future call and cancels both contexts.
func (p *Pair) Teardown() {
	p.donce.Do(func() { close(p.down) })
	if p.cfg.TeardownKeepsContexts {
		return
	}
	p.S.cancel()
	p.R.cancel()
}

// Release cancels both contexts (after a verdict, so that whatever is still
// running can end).
func (p *Pair) Release() {
	p.Teardown()
	p.S.cancel()
	p.R.cancel()
}

// Down is closed when the stream is torn down.
func (p *Pair) Down() <-chan struct{} { return p.down }

func (p *Pair) TornDown() bool {
	select {
	case <-p.down:
		return true
	default:
		return false
	}
}

func (e *End) Context() context.Context { return e.ctx }

// ctxDone is what stream operations select on for the endpoint's context.
func (e *End) ctxDone() <-chan struct{} {
	if e.pair.cfg.StreamIgnoresContexts {
		return nil
	}
	return e.ctx.Done()
}

// Cancel cancels only this endpoint's context.
func (e *End) Cancel() { e.cancel() }

// CloseSend signals end of stream to the peer (delivered after buffered packets).
func (e *End) CloseSend() { e.out.once.Do(func() { close(e.out.closed) }) }

// Abort makes the peer's RecvMsg fail with err once buffered packets are drained.
func (e *End) Abort(err error) {
	e.out.aonce.Do(func() {
		e.out.abortErr = err
		close(e.out.aborted)
	})
}

func stack() string {
	buf := make([]byte, 8192)
	n := runtime.Stack(buf, false)
	return string(buf[:n])
}

func summarize(p *types.Packet, ev *Event) {
	ev.Type = int32(p.Type)
	ev.ID = p.ID
	ev.Len = len(p.Data)
	if p.Stat != nil {
		ev.Stat = true
		ev.Path = p.Stat.Path
	}
}

func (e *End) SendMsg(m interface{}) error {
	idx := e.nSend.Add(1) - 1
	if n := e.inSend.Add(1); n > 1 {
		e.pair.mu.Lock()
		e.pair.overlaps = append(e.pair.overlaps, fmt.Sprintf("%d concurrent SendMsg calls on endpoint %s\n%s", n, e.Name, stack()))
		e.pair.mu.Unlock()
	}
	defer e.inSend.Add(-1)
	cfg := &e.pair.cfg
	pk, ok := m.(*types.Packet)
	if !ok {
		return fmt.Errorf("wire: unexpected message type %T", m)
	}
	e.late("SendMsg", pk)
	ev := Event{End: e.Name, Op: "send"}
	summarize(pk, &ev)
	if cfg.KeepStats && pk.Stat != nil {
		ev.St = pk.Stat.CloneVT()
	}
	// "sendq" marks the moment the caller entered SendMsg (before the packet
	// can possibly be seen by the peer); "send" marks completed hand-over.
	evq := ev
	evq.Op = "sendq"
	e.pair.record(evq)
	if cfg.Hook != nil {
		cfg.Hook(e.Name, "send", idx, 0)
	}
	if cfg.Fault != nil {
		if err := cfg.Fault(e.Name, "send", idx); err != nil {
			ev.Err = err.Error()
			e.pair.record(ev)
			return err
		}
	}
	if cfg.Gate != nil {
		cfg.Gate(e.Name, pk)
	}
	var b []byte
	var err error
	if cfg.Generic != nil && cfg.Generic() {
		b, err = proto.Marshal(pk)
	} else {
		b, err = pk.Marshal()
	}
	if err != nil {
		return err
	}
	select {
	case <-e.pair.down:
		ev.Err = ErrTornDown.Error()
		e.pair.record(ev)
		return ErrTornDown
	case <-e.ctxDone():
		ev.Err = e.ctx.Err().Error()
		e.pair.record(ev)
		return e.ctx.Err()
	default:
	}
	select {
	case e.out.ch <- b:
	case <-e.pair.down:
		ev.Err = ErrTornDown.Error()
		e.pair.record(ev)
		return ErrTornDown
	case <-e.ctxDone():
		ev.Err = e.ctx.Err().Error()
		e.pair.record(ev)
		return e.ctx.Err()
	}
	e.pair.record(ev)
	if cfg.Hook != nil {
		cfg.Hook(e.Name, "send", idx, 1)
	}
	if cfg.PostSend != nil {
		cfg.PostSend(e.Name, pk)
	}
	return nil
}

func (e *End) RecvMsg(m interface{}) error {
	idx := e.nRecv.Add(1) - 1
	if n := e.inRecv.Add(1); n > 1 {
		e.pair.mu.Lock()
		e.pair.overlaps = append(e.pair.overlaps, fmt.Sprintf("%d concurrent RecvMsg calls on endpoint %s\n%s", n, e.Name, stack()))
		e.pair.mu.Unlock()
	}
	defer e.inRecv.Add(-1)
	cfg := &e.pair.cfg
	pk, ok := m.(*types.Packet)
	if !ok {
		return fmt.Errorf("wire: unexpected message type %T", m)
	}
	ev := Event{End: e.Name, Op: "recv"}
	if cfg.Hook != nil {
		cfg.Hook(e.Name, "recv", idx, 0)
	}
	if cfg.Fault != nil {
		if err := cfg.Fault(e.Name, "recv", idx); err != nil {
			ev.Err = err.Error()
			e.pair.record(ev)
			return err
		}
	}
	fail := func(err error) error {
		ev.Err = err.Error()
		e.pair.record(ev)
		return err
	}
	var b []byte
	select {
	case <-e.pair.down:
		return fail(ErrTornDown)
	default:
	}
	select {
	case b = <-e.in.ch:
	default:
		select {
		case b = <-e.in.ch:
		case <-e.in.closed:
			select {
			case b = <-e.in.ch:
			default:
				return fail(io.EOF)
			}
		case <-e.in.aborted:
			select {
			case b = <-e.in.ch:
			default:
				return fail(e.in.abortErr)
			}
		case <-e.pair.down:
			return fail(ErrTornDown)
		case <-e.ctxDone():
			return fail(e.ctx.Err())
		}
	}
	var err error
	if cfg.Generic != nil && cfg.Generic() {
		var tmp types.Packet
		err = proto.Unmarshal(b, &tmp)
		if err == nil {
			// hand the caller a packet whose buffers are its own
			pk.Type, pk.ID = tmp.Type, tmp.ID
			pk.Stat = tmp.Stat
			pk.Data = append(pk.Data[:0], tmp.Data...)
			if tmp.Data == nil {
				pk.Data = nil
			}
		}
	} else {
		err = pk.Unmarshal(b)
	}
	if err != nil {
		return fail(err)
	}
	summarize(pk, &ev)
	e.pair.record(ev)
	if cfg.Hook != nil {
		cfg.Hook(e.Name, "recv", idx, 1)
	}
	return nil
}

// Ops returns how many SendMsg and RecvMsg calls this endpoint has seen.
func (e *End) Ops() (sends, recvs int64) { return e.nSend.Load(), e.nRecv.Load() }
