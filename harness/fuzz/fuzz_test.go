package fuzz

import (
	"os"
	"strings"
	"testing"

	"github.com/tonistiigi/fsutil/types"
	"google.golang.org/protobuf/proto"
	"verif/internal/codec"
	"verif/internal/core"
)

type obs struct {
	t      *testing.T
	ignore map[string]bool
}

func newObs(t *testing.T) *obs {
	ig := "nonutf8-generic-runtime"
	if v, ok := os.LookupEnv("C20_FUZZ_IGNORE"); ok {
		ig = v
	}
	o := &obs{t: t, ignore: map[string]bool{}}
	for _, s := range strings.Split(ig, ",") {
		o.ignore[strings.TrimSpace(s)] = true
	}
	return o
}

func (o *obs) Violate(sig, format string, a ...any) {
	if o.ignore[sig] {
		return
	}
	o.t.Errorf("["+sig+"] "+format, a...)
}
func (o *obs) Count(string, int64)   {}
func (o *obs) AddSet(string, string) {}

func seedInputs(f *testing.F, packet bool) {
	r := core.NewRand(20)
	f.Add([]byte{})
	for i := 0; i < 60; i++ {
		var b []byte
		if i%3 == 0 {
			if packet {
				b, _ = codec.GenPacket(r, codec.GenOpt{MaxBig: 300}).MarshalVT()
			} else {
				b, _ = codec.GenStat(r, codec.GenOpt{MaxBig: 300}).MarshalVT()
			}
		} else {
			b, _ = codec.ArbitraryInput(r, packet)
		}
		if len(b) < 4096 {
			f.Add(b)
		}
	}
}

// FuzzPacketUnmarshal: arbitrary bytes into Packet.Unmarshal give a value or
// an error, never a panic, with bounded allocation; an accepted input
// re-encodes to an equal value; an input both runtimes decode to the same
// value must pass every value round trip.
func FuzzPacketUnmarshal(f *testing.F) {
	seedInputs(f, true)
	f.Fuzz(func(t *testing.T, data []byte) {
		o := newObs(t)
		if !codec.CheckUnmarshal(o, true, data) {
			return
		}
		var v, g types.Packet
		if v.UnmarshalVT(data) == nil && proto.Unmarshal(data, &g) == nil && codec.PacketDiff(&v, &g) == "" {
			codec.CheckPacketValue(o, &v)
		}
	})
}

// FuzzStatUnmarshal is the Stat counterpart.
func FuzzStatUnmarshal(f *testing.F) {
	seedInputs(f, false)
	f.Fuzz(func(t *testing.T, data []byte) {
		o := newObs(t)
		if !codec.CheckUnmarshal(o, false, data) {
			return
		}
		var v, g types.Stat
		if v.UnmarshalVT(data) == nil && proto.Unmarshal(data, &g) == nil && codec.StatDiff(&v, &g) == "" {
			codec.CheckStatValue(o, &v)
		}
	})
}

func cfgFrom(x uint64) codec.RecvCfg {
	cfg := codec.RecvCfg{Mode: codec.FragMode(x % 4), Chunk: int(x>>2%97) + 1, EOFWithData: x>>10&1 == 1, ZeroReads: x>>11&1 == 1}
	return cfg
}

// FuzzRecvMsg: an arbitrary byte stream, fragmented as chosen by frag, read
// with RecvMsg behaves call by call like the reference framing (big-endian
// length, body decoded with Packet.UnmarshalVT): same values, errors where
// the reference has errors, io.EOF only at a frame boundary, no panic, no
// aliasing of the buffers handed to Read, allocation bounded by the bytes
// received. Streams announcing a frame over 1 MiB are not run.
func FuzzRecvMsg(f *testing.F) {
	r := core.NewRand(21)
	f.Add([]byte{}, uint64(0))
	f.Add([]byte{0, 0, 0, 0}, uint64(1))
	f.Add([]byte{0, 0, 0, 2, 8, 1}, uint64(2))
	f.Add([]byte{0, 0x0f, 0xff, 0xff, 1, 2, 3}, uint64(3))
	for i := 0; i < 40; i++ {
		s, _ := codec.ArbitraryStream(r, 1<<20)
		if len(s) < 8192 {
			f.Add(s, r.U64())
		}
	}
	f.Fuzz(func(t *testing.T, data []byte, frag uint64) {
		o := newObs(t)
		codec.CheckRecvStream(o, data, cfgFrom(frag), core.NewRand(frag), 1<<20, true)
	})
}

// FuzzPacketValue: a packet value assembled from fuzzer-chosen field values
// passes every value round trip (vt, generic runtime, entry points) and
// survives SendMsg/RecvMsg through a fragmenting reader.
func FuzzPacketValue(f *testing.F) {
	f.Add(int32(0), uint32(0), []byte(nil), false, "", uint32(0), int64(0), int64(0), "", "", []byte(nil), uint64(0))
	f.Add(int32(2), uint32(7), []byte("payload"), false, "", uint32(0), int64(0), int64(0), "", "", []byte(nil), uint64(5))
	f.Add(int32(0), uint32(0), []byte(nil), true, "a/b", uint32(0644), int64(-1), int64(1<<62), "target", "user.k", []byte{1}, uint64(9))
	f.Add(int32(-1), uint32(1<<32-1), []byte{}, true, "\xff", uint32(1<<31), int64(-1<<63), int64(-1), "\xc3", "", []byte{}, uint64(77))
	f.Fuzz(func(t *testing.T, typ int32, id uint32, data []byte, hasStat bool, path string, mode uint32, size, mtime int64, link, xk string, xv []byte, frag uint64) {
		o := newObs(t)
		p := &types.Packet{Type: types.Packet_PacketType(typ), ID: id, Data: data}
		if hasStat {
			p.Stat = &types.Stat{Path: path, Mode: mode, Uid: uint32(size), Gid: uint32(mtime >> 32), Size: size, ModTime: mtime, Linkname: link, Devmajor: mtime >> 7, Devminor: size >> 9}
			if xk != "" || xv != nil {
				p.Stat.Xattrs = map[string][]byte{xk: xv}
			}
		}
		codec.CheckPacketValue(o, p)
		if codec.HasMarshalTo() {
			pkts := []*types.Packet{p, {}, p}
			stream, _ := codec.BuildStream(o, pkts)
			cfg := cfgFrom(frag)
			cfg.Reuse = frag>>12&1 == 1
			codec.ReadBack(o, stream, pkts, cfg, core.NewRand(frag))
		}
	})
}
