// Package fuzz holds the coverage-guided part of property C20: native Go fuzz
// targets that apply the oracles of verif/internal/codec to inputs chosen by
// the fuzzing engine. They are an extra to `vrun run C20` and are run with
// exec-count bounds, e.g.
//
//	go test ./fuzz -run '^$' -fuzz '^FuzzPacketUnmarshal$' -fuzztime 200000x
//
// or, without the go tool at run time and with the corpus in a scratch dir:
//
//	go test -c -o fuzz.test ./fuzz
//	./fuzz.test -test.run '^$' -test.fuzz '^FuzzRecvMsg$' -test.fuzztime 200000x -test.fuzzcachedir $SCRATCH/corpus
//
// C20_FUZZ_IGNORE is a comma separated list of violation classes that do not
// fail a target (default: nonutf8-generic-runtime, the known finding).
package fuzz
