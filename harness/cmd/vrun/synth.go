package main

import (
	"bytes"
	"context"
	"errors"
	"io"
	gofs "io/fs"
	"os"
	"syscall"
	"path/filepath"
	"strings"
	"sync"
	"sync/atomic"
	"verif/internal/core"

	"github.com/tonistiigi/fsutil"
	"verif/internal/tree"
)

// synthFS serves a tree model through the fsutil.FS interface without
// touching the disk. It is also where source-side faults and delays are
// injected (walk error at entry k, open error, read error after j bytes).
type synthFS struct {
	t *tree.Tree
	// WalkErrAt >= 0 makes the walk fail before reporting entry k.
	WalkErrAt int
	WalkErr   error
	// InfoErrAt >= 0: entry k is listed (the callback's error argument is
	// nil) but its lazy Info() fails with EIO (not a vanished entry).
	InfoErrAt int
	// ReadErr maps a path to the number of bytes after which Read fails.
	ReadErr map[string]int
	// SizeOff is added to the announced size of a path (a source whose
	// stat sizes are not exact, or a file rewritten shorter after the walk):
	// the bytes read stay what they are.
	SizeOff map[string]int64
	// SymSizeZero: the size of every symlink is announced as 0, which is
	// what lstat says on sysfs, procfs and some network file systems
	SymSizeZero bool
	// OpenErr lists paths whose Open fails.
	OpenErr map[string]bool
	// Hook is called on every Read (for delays).
	Hook func(op, path string)
	// ChunkMax limits the bytes returned per Read (0 = unlimited).
	ChunkMax int
	// EOFWithData makes readers return their final bytes together with io.EOF
	// (legal under the io.Reader contract; tar entry readers do this).
	EOFWithData bool
	// ShortReads, when set, makes every Read return a seeded number of bytes
	// between 1 and what was asked for (a pipe / decompressor style reader).
	ShortReads *core.Rand
	srMu       sync.Mutex

	opens  atomic.Int64
	reads  atomic.Int64
	mu     sync.Mutex
	opened map[string]int
}

var errInjected = errors.New("injected fault")

// infoFailEntry is a listed entry whose lazy stat fails (EIO, ESTALE, EACCES
// on an attribute: anything but "it vanished").
type infoFailEntry struct{ gofs.DirEntry }

func (e *infoFailEntry) Info() (gofs.FileInfo, error) {
	return nil, &os.PathError{Op: "lstat", Path: e.Name(), Err: syscall.EIO}
}

func newSynthFS(t *tree.Tree) *synthFS {
	return &synthFS{t: t, WalkErrAt: -1, InfoErrAt: -1, opened: map[string]int{}}
}

// newSynthFSReaders is newSynthFS with conforming but unusual readers chosen
// from R: final bytes delivered together with io.EOF, a fixed chunk limit, or
// seeded short reads.
func newSynthFSReaders(t *tree.Tree, R *core.Rand) *synthFS {
	s := newSynthFS(t)
	s.EOFWithData = R.P(1, 2)
	switch R.Intn(4) {
	case 0:
		s.ChunkMax = core.Pick(R, []int{1, 1000, 5000, 32768})
	case 1:
		s.ShortReads = R.Fork()
	}
	return s
}

func (s *synthFS) Walk(ctx context.Context, target string, fn gofs.WalkDirFunc) error {
	target = filepath.Clean("/" + target)[1:]
	var skipPrefix string
	var skipDirOf *string
	n := 0
	for i := range s.t.Entries {
		e := &s.t.Entries[i]
		if target != "" && e.Path != target && !strings.HasPrefix(e.Path, target+"/") {
			continue
		}
		if skipPrefix != "" && strings.HasPrefix(e.Path, skipPrefix) {
			continue
		}
		if skipDirOf != nil {
			// skip the rest of that directory
			if tree.Parent(e.Path) == *skipDirOf || strings.HasPrefix(e.Path, *skipDirOf+"/") || *skipDirOf == "" {
				if *skipDirOf == "" {
					return nil
				}
				continue
			}
			skipDirOf = nil
		}
		select {
		case <-ctx.Done():
			return ctx.Err()
		default:
		}
		if s.WalkErrAt >= 0 && n == s.WalkErrAt {
			err := s.WalkErr
			if err == nil {
				err = errInjected
			}
			return fn(e.Path, nil, err)
		}
		n++
		if s.Hook != nil {
			s.Hook("walk", e.Path)
		}
		st := e.Stat()
		if off, ok := s.SizeOff[e.Path]; ok {
			st.Size += off
		}
		if s.SymSizeZero && e.Type == tree.Symlink {
			st.Size = 0
		}
		var de gofs.DirEntry = &fsutil.DirEntryInfo{Stat: st}
		if s.InfoErrAt >= 0 && n-1 == s.InfoErrAt {
			de = &infoFailEntry{DirEntry: de}
		}
		err := fn(e.Path, de, nil)
		if err != nil {
			if err == filepath.SkipDir {
				if e.Type == tree.Dir {
					skipPrefix = e.Path + "/"
				} else {
					d := tree.Parent(e.Path)
					skipDirOf = &d
				}
				continue
			}
			if err == gofs.SkipAll {
				return nil
			}
			return err
		}
	}
	return nil
}

func (s *synthFS) Open(p string) (io.ReadCloser, error) {
	s.opens.Add(1)
	p = filepath.Clean("/" + p)[1:]
	s.mu.Lock()
	s.opened[p]++
	s.mu.Unlock()
	if s.OpenErr[p] {
		return nil, &os.PathError{Op: "open", Path: p, Err: errInjected}
	}
	e := s.t.Get(p)
	if e == nil {
		return nil, &os.PathError{Op: "open", Path: p, Err: os.ErrNotExist}
	}
	data := e.Data
	if e.LinkTo != "" {
		if c := s.t.Get(e.LinkTo); c != nil {
			data = c.Data
		}
	}
	fail := -1
	if v, ok := s.ReadErr[p]; ok {
		fail = v
	}
	return &synthFile{s: s, path: p, r: bytes.NewReader(data), fail: fail}, nil
}

type synthFile struct {
	s    *synthFS
	path string
	r    *bytes.Reader
	n    int
	fail int
}

func (f *synthFile) Read(b []byte) (int, error) {
	f.s.reads.Add(1)
	if f.s.Hook != nil {
		f.s.Hook("read", f.path)
	}
	if f.s.ChunkMax > 0 && len(b) > f.s.ChunkMax {
		b = b[:f.s.ChunkMax]
	}
	if f.s.ShortReads != nil && len(b) > 1 {
		f.s.srMu.Lock()
		n := 1 + f.s.ShortReads.Intn(len(b))
		if f.s.ShortReads.P(1, 3) && n > 700 {
			n = 1 + f.s.ShortReads.Intn(700)
		}
		f.s.srMu.Unlock()
		b = b[:n]
	}
	if f.fail >= 0 {
		if f.n >= f.fail {
			return 0, errInjected
		}
		if len(b) > f.fail-f.n {
			b = b[:f.fail-f.n]
		}
	}
	n, err := f.r.Read(b)
	f.n += n
	if err == nil && f.s.EOFWithData && f.r.Len() == 0 {
		err = io.EOF
	}
	return n, err
}

func (f *synthFile) Close() error { return nil }
