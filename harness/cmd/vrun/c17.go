package main

import (
	"archive/tar"
	"bytes"
	"context"
	"errors"
	"fmt"
	"io"
	"os"
	"os/exec"
	"path"
	"path/filepath"
	"sort"
	"strings"

	"github.com/tonistiigi/fsutil"
	"github.com/tonistiigi/fsutil/types"
	"verif/internal/core"
	"verif/internal/refs"
	"verif/internal/tree"
)

// C17: fsutil.WriteTar round-trips the filesystem view.
//
// The view is what the FS's Walk reports. It is predicted independently from
// the snapshot / tree model and the reference filter (internal/refs), the
// prediction is compared with a real walk, and the archive is compared with
// the prediction twice: header by header with archive/tar, and by extracting
// it with GNU tar and taking a snapshot.

const xattrPAX = "SCHILY.xattr."

// c17Want is one demanded archive member.
type c17Want struct {
	E tree.Entry // Path = member name without the directory slash; LinkTo = demanded link name
	// ViewLink is the link name the view (the FS's Walk) reports. It differs
	// from E.LinkTo only when the view names a first member that the filter
	// hides (Hidden).
	ViewLink string
	Hidden   bool
}

// c17Rename renames the entry old (and its subtree, and link references).
func c17Rename(t *tree.Tree, old, nw string) {
	fix := func(p string) string {
		if p == old {
			return nw
		}
		if strings.HasPrefix(p, old+"/") {
			return nw + p[len(old):]
		}
		return p
	}
	for i := range t.Entries {
		e := &t.Entries[i]
		e.Path = fix(e.Path)
		if e.LinkTo != "" {
			e.LinkTo = fix(e.LinkTo)
		}
	}
	t.Sort()
	t.Recanon()
}

var c17LongParts = []string{"long-", "é", "名", "x", "ö", "_", "Z"}

func c17LongName(r *core.Rand) string {
	n := r.Range(101, 255)
	var b strings.Builder
	for b.Len() < n {
		p := core.Pick(r, c17LongParts)
		if b.Len()+len(p) > 255 {
			p = "x"
		}
		b.WriteString(p)
	}
	return b.String()
}

// c17Keyword undoes the keyword encoding of attribute names (GNU tar's
// convention, the only one in use: a PAX keyword cannot hold '=', so '=' is
// written %3D and '%' itself %25; anything else stands for itself).
func c17Keyword(k string) string {
	var b strings.Builder
	for i := 0; i < len(k); i++ {
		switch {
		case strings.HasPrefix(k[i:], "%3D"):
			b.WriteByte('=')
			i += 2
		case strings.HasPrefix(k[i:], "%25"):
			b.WriteByte('%')
			i += 2
		default:
			b.WriteByte(k[i])
		}
	}
	return b.String()
}

// c17LimitWriter accepts the first `left` bytes and fails from then on.
type c17LimitWriter struct {
	left    int
	refused bool
}

func (w *c17LimitWriter) Write(p []byte) (int, error) {
	if len(p) <= w.left {
		w.left -= len(p)
		return len(p), nil
	}
	n := w.left
	w.left = 0
	w.refused = true
	return n, errors.New("destination full")
}

func c17GenTree(R *core.Rand) *tree.Tree {
	o := tree.DefaultOpt()
	o.SpecLinks = true
	o.SymXattrs = true
	o.Big = R.P(1, 8)
	t := tree.Gen(R, o)
	// names longer than the 100-byte ustar field, some of them non-ASCII
	for k := R.Weighted([]int{3, 3, 1}); k > 0 && len(t.Entries) > 0; k-- {
		e := core.Pick(R, t.Entries)
		nw := c17LongName(R)
		if d := tree.Parent(e.Path); d != "" {
			nw = d + "/" + nw
		}
		if t.Get(nw) == nil && len(nw) < 1500 {
			c17Rename(t, e.Path, nw)
		}
	}
	if R.P(1, 40) {
		// attribute names that hold '=' or '%' (legal: any bytes without
		// NUL); a PAX keyword cannot hold '=' and is written encoded
		for i := range t.Entries {
			if e := &t.Entries[i]; e.Type == tree.File && e.LinkTo == "" && t.GroupOf(e.Path) == "" {
				if e.Xattrs == nil {
					e.Xattrs = map[string][]byte{}
				}
				e.Xattrs[core.Pick(R, []string{"user.k=v", "user.=", "user.a=b=c%3D"})] = []byte("x")
				if R.P(1, 2) {
					e.Xattrs[core.Pick(R, []string{"user.p%q", "user.%25", "user.%3D"})] = []byte("y=z")
				}
				if R.P(1, 2) {
					// punctuation, blanks and non-ASCII bytes: written as they are
					// (only '=' and '%' are encoded in a keyword)
					e.Xattrs[core.Pick(R, []string{"user.DosStream.s:$DATA", "user.mime+type", "user.caf\u00e9", "user.a b", "user.x@y,z", "user.q?&;#~!"})] = []byte("w")
				}
				break
			}
		}
	}
	return t
}

// c17Prefix puts the view below a directory (what SubDirFS reports).
func c17Prefix(view *tree.Tree, name string, dir tree.Entry) *tree.Tree {
	out := &tree.Tree{Entries: []tree.Entry{dir}}
	for _, e := range view.Entries {
		c := e.Clone()
		c.Path = name + "/" + e.Path
		if c.LinkTo != "" {
			c.LinkTo = name + "/" + c.LinkTo
		}
		if c.Type == tree.Symlink && strings.HasPrefix(c.Target, "/") {
			c.Target = path.Join("/"+name, c.Target)
		}
		out.Entries = append(out.Entries, c)
	}
	return out
}

// c17View predicts the view: the full listing restricted to the selection
// (plus ancestors), and the link names the walk must report:
//   - "lazy"  (fsutil.NewFS directly below the filter): link names are assigned
//     among the reported entries only, the first reported member is the file;
//   - "eager" (synthetic FS): the full tree's link names are kept, a member
//     whose first member is hidden is marked;
//   - "flex"  (SubDirFS / stacked filters over NewFS): the inner walk assigns
//     link names among the entries it visits, which depends on which
//     directories the outer filter prunes; every answer that names an
//     earlier member of the same inode group (or none, when no earlier
//     member is visible) is accepted and taken from the walk.
//
// The returned error describes a link name of the walk that no mode allows.
func c17View(full *tree.Tree, keep []string, mode string, walked []*types.Stat) ([]c17Want, error) {
	in := map[string]bool{}
	for _, p := range keep {
		in[p] = true
	}
	groupOf := func(e *tree.Entry) string {
		if e.LinkTo != "" {
			return e.LinkTo
		}
		return e.Path
	}
	idx := full.Index()
	firstVisible := map[string]string{}
	var out []c17Want
	for i := range full.Entries {
		e := &full.Entries[i]
		if !in[e.Path] {
			continue
		}
		w := c17Want{E: e.Clone(), ViewLink: e.LinkTo}
		if e.Type != tree.Dir && e.Type != tree.Symlink {
			g := groupOf(e)
			f, seen := firstVisible[g]
			if seen {
				w.E.LinkTo = f
			} else {
				firstVisible[g] = e.Path
				w.E.LinkTo = ""
			}
			switch mode {
			case "lazy":
				w.ViewLink = w.E.LinkTo
			case "flex":
				wl := walked[len(out)].Linkname
				ok := false
				switch {
				case wl == "":
					ok = !seen
				case in[wl]:
					ok = seen && wl == f
				default:
					j, exists := idx[wl]
					ok = exists && groupOf(&full.Entries[j]) == g && tree.CmpPath(wl, e.Path) < 0
				}
				if !ok {
					return nil, fmt.Errorf("the walk reports %q as a link to %q; first visible member of its inode group: %q, group %q", e.Path, wl, f, g)
				}
				w.ViewLink = wl
			}
			w.Hidden = w.ViewLink != "" && !in[w.ViewLink]
		}
		out = append(out, w)
	}
	return out, nil
}

type c17Member struct {
	H    *tar.Header
	Data []byte
}

func c17Read(buf []byte) ([]c17Member, error) {
	tr := tar.NewReader(bytes.NewReader(buf))
	var out []c17Member
	for {
		h, err := tr.Next()
		if err == io.EOF {
			break
		}
		if err != nil {
			return out, fmt.Errorf("after %d members: %w", len(out), err)
		}
		d, err := io.ReadAll(tr)
		if err != nil {
			return out, fmt.Errorf("payload of %q: %w", h.Name, err)
		}
		out = append(out, c17Member{h, d})
	}
	if len(buf)%512 != 0 {
		return out, fmt.Errorf("archive length %d is not a multiple of 512", len(buf))
	}
	if len(buf) < 1024 || !bytes.Equal(buf[len(buf)-1024:], make([]byte, 1024)) {
		return out, fmt.Errorf("archive does not end with two zero blocks")
	}
	return out, nil
}

func c17Typeflag(e *tree.Entry) byte {
	if e.LinkTo != "" && e.Type != tree.Symlink && e.Type != tree.Dir {
		return tar.TypeLink
	}
	switch e.Type {
	case tree.Dir:
		return tar.TypeDir
	case tree.Symlink:
		return tar.TypeSymlink
	case tree.Fifo:
		return tar.TypeFifo
	case tree.Char:
		return tar.TypeChar
	case tree.Block:
		return tar.TypeBlock
	}
	return tar.TypeReg
}

func c17Abs(x int64) int64 {
	if x < 0 {
		return -x
	}
	return x
}

// c17MtimeOK: "to the second" is the exact time stamp, the second it lies in
// (truncation towards the past, as the file system and tar's own format
// define it) or the nearest second (archive/tar rounds, half up). For a
// time before 1970 with a fraction the second it lies in is the smaller one.
func c17MtimeOK(got, want int64) bool {
	floorDiv := func(x int64) int64 {
		q := x / 1e9
		if x%1e9 < 0 {
			q--
		}
		return q
	}
	return got == want || got == floorDiv(want)*1e9 || (want < 1<<62 && got == floorDiv(want+5e8)*1e9)
}

// c17CompareMember lists the header fields that differ from the demand.
func c17CompareMember(w *c17Want, m *c17Member) []string {
	var d []string
	e := &w.E
	h := m.H
	name := e.Path
	if e.Type == tree.Dir {
		name += "/"
	}
	if h.Name != name {
		d = append(d, fmt.Sprintf("name %q want %q", h.Name, name))
	}
	tf := c17Typeflag(e)
	if h.Typeflag != tf {
		d = append(d, fmt.Sprintf("typeflag %q want %q", h.Typeflag, tf))
	}
	wantLink := ""
	switch tf {
	case tar.TypeSymlink:
		wantLink = e.Target
	case tar.TypeLink:
		wantLink = e.LinkTo
	}
	if h.Linkname != wantLink {
		d = append(d, fmt.Sprintf("linkname %q want %q", h.Linkname, wantLink))
	}
	wantSize := int64(0)
	if tf == tar.TypeReg {
		wantSize = int64(len(e.Data))
	}
	if h.Size != wantSize {
		d = append(d, fmt.Sprintf("size %d want %d", h.Size, wantSize))
	}
	if tf == tar.TypeReg {
		if !bytes.Equal(m.Data, e.Data) {
			d = append(d, fmt.Sprintf("payload differs (%d bytes, want %d)", len(m.Data), len(e.Data)))
		}
	} else if len(m.Data) != 0 {
		d = append(d, fmt.Sprintf("%d bytes of payload on a member without content", len(m.Data)))
	}
	if uint32(h.Mode)&07777 != e.Perm {
		d = append(d, fmt.Sprintf("mode %04o want %04o", h.Mode&07777, e.Perm))
	}
	if h.Uid != int(e.UID) || h.Gid != int(e.GID) {
		d = append(d, fmt.Sprintf("owner %d:%d want %d:%d", h.Uid, h.Gid, e.UID, e.GID))
	}
	if !c17MtimeOK(h.ModTime.UnixNano(), e.Mtime) {
		d = append(d, fmt.Sprintf("mtime %d want %d (to the second)", h.ModTime.UnixNano(), e.Mtime))
	}
	if tf == tar.TypeChar || tf == tar.TypeBlock {
		if h.Devmajor != int64(e.Major) || h.Devminor != int64(e.Minor) {
			d = append(d, fmt.Sprintf("device %d,%d want %d,%d", h.Devmajor, h.Devminor, e.Major, e.Minor))
		}
	}
	got := map[string][]byte{}
	for k, v := range h.PAXRecords {
		if strings.HasPrefix(k, xattrPAX) {
			got[c17Keyword(k[len(xattrPAX):])] = []byte(v)
		}
	}
	if !tree.XattrEq(e.Xattrs, got) {
		d = append(d, fmt.Sprintf("xattr records %q want %q", sortedKeys(got), sortedKeys(e.Xattrs)))
	}
	return d
}

type c17Case struct {
	Source  string   `json:"source"`
	Include []string `json:"include"`
	Exclude []string `json:"exclude"`
	Tree    []string `json:"tree"`
	View    []string `json:"view,omitempty"`
}

func init() {
	core.Register(&core.Prop{
		ID:    "C17",
		Level: "exploration",
		Rule: "random trees as in C01 (adversarial names incl. non-ASCII, empty files, sizes around the 32KiB chunk, ~1MiB files, hard-link groups of files, fifos and char devices, symlinks, fifos, char/block devices, setuid/setgid/sticky, three owners, ns/negative/far-future mtimes, user.* xattrs with empty and binary values on files and directories (names holding '=' and '%', and in half of those also ':', '$', '+', '@', ',', '?', '&', ';', '#', '!', a blank or non-ASCII bytes, in 1 tree of 40, compared after undoing GNU tar's keyword encoding of '=' and '%' only), trusted.* on symlinks) plus 0-2 entries renamed to 101-255 byte (partly non-ASCII) names x filter {none, include, exclude, include+exclude; 0-2 patterns each from the C10 grammar, single level fsutil.NewFilterFS} x source {fsutil.NewFS on disk, synthetic in-memory FS, fsutil.SubDirFS over NewFS (half of them with a second sub-root 'su' next to 'sub'), diagnostic: filter stacked on a keep-all map filter}. " +
			"fsutil.WriteTar writes into a buffer (and, in 1 case of 8, once more into a destination that fails 1..1536 bytes before the end, or anywhere: a nil return for an archive the destination did not take whole is a violation). The view is predicted from an independent snapshot (or the model) + the naive reference filter and compared with a real second Walk; the archive is read with archive/tar (well-formed to EOF, two zero blocks, member sequence == view, per member: name with directory slash, type flag, link name, size, payload bytes, mode incl. special bits, uid/gid, mtime = view exactly, floored or rounded to the second, device numbers, SCHILY.xattr.* records) and extracted as root with GNU tar (--xattrs --xattrs-include=* --same-owner --numeric-owner -p) into an empty directory whose snapshot is compared with the view (type, bytes, link groups, targets, device numbers, mode, owner, xattrs, mtime incl. directories to the second). " +
			"non-trivial = the archive has at least one member and the case has a link group, a special file, a multi-chunk or empty file, a name > 100 bytes, or a filter that selects a proper non-empty subset; distinct by (tree, filter, source) fingerprint",
		Assumptions: []string{
			"runs as root on a file system with mknod, user.* and trusted.* xattrs; GNU tar >= 1.30 in PATH",
			"'mtime to the second' accepts the exact value, the second the time stamp lies in (floor, also before 1970) and the nearest second; archive/tar rounds to the nearest second",
			"hard-linked devices/fifos: the link member is demanded, its device numbers are those of the first member",
			"when the view names a hard-link source that the (single-level) filter hides, the demanded archive makes the first visible member the file and links the others to it (what Send does); for the stacked-filter diagnostic source this is only counted",
			"a listing that differs from the naive reference filter but equals incremental matching is known finding K1 of C10: counted and not judged (Walk and Open of the filter disagree on such views)",
		},
		Cases: func(tier string) int {
			if tier == "thorough" {
				return 300000
			}
			return 1500
		},
		Batch:         25,
		MinNontrivial: func(tier string) int { return 500 },
		Run:           c17Run,
	})
}

func c17Run(c *core.Ctx) *core.Result {
	r := &core.Result{}
	if !needRoot(r) {
		return r
	}
	if hr := core.NewRand(core.Mix(c.Seed, "C17-hidden-first-member", c.Index)); hr.P(1, 25) {
		return c17HiddenFirst(c, r, hr)
	}
	R := c.R
	kind := []string{"disk", "synth", "subdir", "stacked"}[R.Weighted([]int{6, 4, 2, 1})]
	model := c17GenTree(R)
	srcDir := filepath.Join(c.Dir, "src")
	os.Mkdir(srcDir, 0755)
	var full *tree.Tree
	var base fsutil.FS
	if kind == "synth" {
		full = model
		base = newSynthFSReaders(model, R)
	} else {
		if err := tree.Materialise(srcDir, model); err != nil {
			r.Inconclusive = "materialise: " + err.Error()
			return r
		}
		snap, err := tree.Snapshot(srcDir, tree.SnapOpt{})
		if err != nil {
			r.Inconclusive = "snapshot: " + err.Error()
			return r
		}
		full = snap
		base, err = fsutil.NewFS(srcDir)
		if err != nil {
			r.Inconclusive = "NewFS: " + err.Error()
			return r
		}
	}
	linkMode := map[string]string{"disk": "lazy", "synth": "eager", "subdir": "flex", "stacked": "flex"}[kind]
	switch kind {
	case "subdir":
		d := tree.Entry{Path: "sub", Type: tree.Dir, Perm: 0750, UID: 7, GID: 8, Mtime: 1234567890_000000000}
		full = c17Prefix(full, "sub", d)
		dirs := []fsutil.Dir{{FS: base, Stat: d.Stat()}}
		if core.NewRand(core.Mix(c.Seed, "C17-second-subroot", c.Index)).P(1, 2) {
			// a second sub-root whose name is a proper prefix of the first
			// one's: every path of "sub/..." also starts with "su"
			t2 := &tree.Tree{Entries: []tree.Entry{
				{Path: "b", Type: tree.Dir, Perm: 0755, Mtime: 1e18 + 1},
				{Path: "b/z", Type: tree.File, Perm: 0644, Mtime: 1e18 + 2, Data: []byte("below the second sub-root")},
				{Path: "k", Type: tree.File, Perm: 0600, UID: 9, Mtime: 1e18 + 3, Data: []byte("second sub-root")},
			}}
			d2 := tree.Entry{Path: "su", Type: tree.Dir, Perm: 0711, UID: 9, GID: 9, Mtime: 1e18}
			full = &tree.Tree{Entries: append(c17Prefix(t2, "su", d2).Entries, full.Entries...)}
			dirs = append(dirs, fsutil.Dir{FS: newSynthFS(t2), Stat: d2.Stat()})
			r.Count("views_with_two_sub_roots_in_prefix_relation", 1)
		}
		var err error
		base, err = fsutil.SubDirFS(dirs)
		if err != nil {
			r.Inconclusive = "SubDirFS: " + err.Error()
			return r
		}
	case "stacked":
		var err error
		base, err = fsutil.NewFilterFS(base, &fsutil.FilterOpt{Map: func(string, *types.Stat) fsutil.MapResult { return fsutil.MapResultKeep }})
		if err != nil {
			r.Inconclusive = "NewFilterFS: " + err.Error()
			return r
		}
	}

	// filter configuration
	var inc, exc []string
	var safe []string
	for _, p := range full.Paths() {
		if !strings.ContainsAny(p, "+(){}|$^") {
			safe = append(safe, p)
		}
	}
	fmode := R.Weighted([]int{2, 3, 3, 2})
	neg := R.P(1, 5)
	if fmode == 1 || fmode == 3 {
		inc = refs.GenPatterns(R, 2, neg, safe...)
	}
	if fmode == 2 || fmode == 3 {
		exc = refs.GenPatterns(R, 2, neg, safe...)
	}
	if kind == "stacked" && len(inc) == 0 && len(exc) == 0 && len(safe) > 0 {
		exc = []string{core.Pick(R, safe)}
	}
	filtered := len(inc) > 0 || len(exc) > 0
	sample := &c17Case{Source: kind, Include: inc, Exclude: exc, Tree: trunc(full.Lines(), 40)}
	r.Sample = sample
	r.FP = fmt.Sprintf("%s|%q|%q|%s", full.Fingerprint(), inc, exc, kind)
	cfg := kind + "/nofilter"
	switch {
	case len(inc) > 0 && len(exc) > 0:
		cfg = kind + "/include+exclude"
	case len(inc) > 0:
		cfg = kind + "/include"
	case len(exc) > 0:
		cfg = kind + "/exclude"
	}
	r.AddSet("configs", cfg)

	fs := base
	items := refs.Items(full)
	keepNaive := full.Paths()
	keepIncr := keepNaive
	if filtered {
		naive, err := refs.SelectNaive(items, inc, exc)
		ffs, err2 := fsutil.NewFilterFS(base, &fsutil.FilterOpt{IncludePatterns: inc, ExcludePatterns: exc})
		if err != nil || err2 != nil {
			if (err == nil) != (err2 == nil) {
				r.Violate("filter-badpattern", "patterns inc=%q exc=%q: reference says %v, NewFilterFS says %v", inc, exc, err, err2)
			}
			r.Count("invalid_pattern_lists", 1)
			return r
		}
		incr, err := refs.SelectIncremental(items, inc, exc)
		if err != nil {
			r.Inconclusive = "incremental reference: " + err.Error()
			return r
		}
		keepNaive = refs.WithAncestors(items, naive)
		keepIncr = refs.WithAncestors(items, incr)
		fs = ffs
	}

	// the view as the FS reports it (second, independent walk)
	walked, err := walkStats(fs, "/")
	if err != nil {
		sig := "view-walk-error"
		if err == filepath.SkipDir && kind == "subdir" {
			// SubDirFS hands the callback's SkipDir for a sub-root to its caller
			sig = "subdirfs-skipdir-leak"
		}
		r.ViolateD(sig, sample, "Walk of the view (%s) failed: %v", cfg, err)
		return r
	}
	var wpaths []string
	for _, st := range walked {
		wpaths = append(wpaths, st.Path)
	}
	keep := keepNaive
	if !eqStrings(wpaths, keepNaive) {
		if eqStrings(wpaths, keepIncr) {
			// known finding K1 (C10/C11/C16): the filter's Walk follows incremental
			// matching, its Open the naive one; they disagree on this view, so
			// there is no well-defined view to judge the archive against
			r.Count("k1_views_not_judged", 1)
			r.Inconclusive = "the filtered view is a K1 case (moby/patternmatcher parent memo): Walk and Open of the filter disagree, archive not judged"
			return r
		} else {
			r.ViolateD("view-filter-mismatch", sample, "the walk of the view differs from the reference filter (C10's subject, the archive is not judged)\nwant %q\ngot  %q", trunc(keepNaive, 30), trunc(wpaths, 30))
			return r
		}
	}
	want, err := c17View(full, keep, linkMode, walked)
	if err != nil {
		r.ViolateD("view-link-mismatch", sample, "%v", err)
		return r
	}
	nHidden := 0
	for i := range want {
		if want[i].Hidden {
			nHidden++
		}
		if want[i].E.Type != tree.Symlink && want[i].E.Type != tree.Dir && walked[i].Linkname != want[i].ViewLink {
			r.ViolateD("view-link-mismatch", sample, "the walk reports %q as a link to %q, the prediction is %q", walked[i].Path, walked[i].Linkname, want[i].ViewLink)
			return r
		}
	}
	for _, w := range want {
		sample.View = append(sample.View, w.E.Path)
	}
	sample.View = trunc(sample.View, 40)

	// an export is a read-only use of the view: a quarter of the cases first
	// export the same FS object through a filter whose Map rewrites every
	// stat it is shown (owner, mode, time: what a normalising exporter does);
	// the export under test must not see any of that
	if core.NewRand(core.Mix(c.Seed, "C17-pre-export", c.Index)).P(1, 4) {
		pre, err := fsutil.NewFilterFS(base, &fsutil.FilterOpt{Map: func(_ string, st *types.Stat) fsutil.MapResult {
			st.Uid, st.Gid, st.ModTime = st.Uid+100000, 77, 0
			st.Mode = st.Mode&^0777 | 0700
			st.Xattrs = nil
			return fsutil.MapResultKeep
		}})
		if err == nil {
			fsutil.WriteTar(context.Background(), pre, io.Discard)
			r.Count("exports_after_a_rewriting_export_of_the_same_fs", 1)
		}
	}
	// the call under test
	var buf bytes.Buffer
	if err := fsutil.WriteTar(context.Background(), fs, &buf); err != nil {
		sig := "tar-write-error"
		if strings.Contains(err.Error(), "invalid PAX record") {
			for _, w := range want {
				for k := range w.E.Xattrs {
					if strings.Contains(k, "=") {
						sig = "tar-xattr-name-with-equals"
					}
				}
			}
		}
		r.ViolateD(sig, sample, "WriteTar failed on a fault-free view: %v", err)
		return r
	}
	r.Count("archives", 1)
	r.Count("archive_bytes", int64(buf.Len()))
	members, err := c17Read(buf.Bytes())
	if err != nil {
		r.ViolateD("tar-malformed", sample, "archive/tar cannot read the archive to EOF: %v", err)
		return r
	}
	r.Count("members", int64(len(members)))
	// a destination that stops accepting bytes somewhere in the tail of the
	// archive (last payload, its padding, the end-of-archive blocks): what was
	// written is no well-formed archive, and a nil return would vouch for it
	if fr := core.NewRand(core.Mix(c.Seed, "C17-failing-destination", c.Index)); fr.P(1, 8) && buf.Len() > 0 {
		cut := buf.Len() - core.Pick(fr, []int{1, 511, 512, 513, 1024, 1025, 1536, 1 + fr.Intn(buf.Len())})
		if cut < 0 {
			cut = 0
		}
		lw := &c17LimitWriter{left: cut}
		err := fsutil.WriteTar(context.Background(), fs, lw)
		r.Count("exports_into_a_destination_that_fails_in_the_tail", 1)
		if err == nil && lw.refused {
			r.ViolateD("tar-nil-for-truncated-archive", sample, "WriteTar returned nil although the destination refused everything after %d of the archive's %d bytes", cut, buf.Len())
			return r
		}
	}

	// evidence: what this case exercises
	feat := map[string]bool{}
	for i := range want {
		e := &want[i].E
		switch {
		case e.Type == tree.File && e.LinkTo == "" && len(e.Data) == 0:
			feat["empty_files"] = true
		case e.Type == tree.File && e.LinkTo == "" && len(e.Data) > 32768:
			feat["multi_chunk_files"] = true
		}
		if e.LinkTo != "" && e.Type == tree.File {
			feat["hardlink_members_file"] = true
		}
		if e.LinkTo != "" && e.Type != tree.File && e.Type != tree.Symlink && e.Type != tree.Dir {
			feat["hardlink_members_special"] = true
		}
		if strings.IndexByte("pcb", e.Type) >= 0 {
			feat["special_files"] = true
		}
		if len(tree.Base(e.Path)) > 100 {
			feat["names_over_100_bytes"] = true
		}
		if len(e.Path) > 255 {
			feat["paths_over_255_bytes"] = true
		}
		for _, ch := range e.Path {
			if ch > 127 {
				feat["non_ascii_names"] = true
				break
			}
		}
		if e.Perm&07000 != 0 {
			feat["special_mode_bits"] = true
		}
		if len(e.Xattrs) > 0 {
			feat["xattrs"] = true
			for k := range e.Xattrs {
				if strings.ContainsAny(k, "=%") {
					feat["xattr_names_with_equals_or_percent"] = true
				}
				if strings.ContainsAny(k, ":$+@,?&;#! ") || strings.IndexFunc(k, func(r rune) bool { return r > 127 }) >= 0 {
					feat["xattr_names_with_punctuation_or_non_ascii"] = true
				}
			}
			for _, v := range e.Xattrs {
				if len(v) == 0 {
					feat["xattrs_empty_value"] = true
				}
			}
		}
		if e.Mtime < 0 {
			feat["negative_mtime"] = true
		}
		if e.Type == tree.Symlink {
			feat["symlinks"] = true
		}
	}
	for k := range feat {
		r.Count("cases_with_"+k, 1)
	}
	properSubset := filtered && len(want) > 0 && len(want) < len(full.Entries)
	if properSubset {
		r.Count("cases_filter_selects_proper_subset", 1)
	}
	if nHidden > 0 {
		r.Count("cases_with_hidden_link_source", 1)
		r.Count("members_with_hidden_link_source", int64(nHidden))
	}
	r.Nontrivial = len(want) > 0 && (properSubset || feat["empty_files"] || feat["multi_chunk_files"] || feat["hardlink_members_file"] || feat["hardlink_members_special"] || feat["special_files"] || feat["names_over_100_bytes"])

	// 1. literal: the members are the walk's entries, in walk order
	if len(members) != len(walked) {
		var mn []string
		for _, m := range members {
			mn = append(mn, m.H.Name)
		}
		r.ViolateD("tar-member-set", sample, "the archive has %d members, the view has %d entries\nview    %q\nmembers %q", len(members), len(walked), trunc(wpaths, 30), trunc(mn, 30))
		return r
	}
	// 2. member by member against the demanded archive
	hiddenOnly := true
	var diffs []string
	for i := range want {
		d := c17CompareMember(&want[i], &members[i])
		r.Count("members_compared", 1)
		if members[i].H.ModTime.UnixNano() > want[i].E.Mtime {
			r.Count("members_mtime_rounded_up_diagnostic", 1)
		}
		if len(d) == 0 {
			continue
		}
		if !want[i].Hidden {
			hiddenOnly = false
		} else {
			// tight signature: the member is exactly the view's dangling link member
			alt := want[i]
			alt.E.LinkTo = alt.ViewLink
			if len(c17CompareMember(&alt, &members[i])) != 0 {
				hiddenOnly = false
			}
		}
		diffs = append(diffs, fmt.Sprintf("member %d %q: %s", i, members[i].H.Name, strings.Join(d, "; ")))
	}
	diag := kind == "stacked"
	if len(diffs) > 0 {
		switch {
		case hiddenOnly && diag:
			r.Count("diag_stacked_link_members_with_hidden_source", int64(len(diffs)))
		case hiddenOnly:
			r.ViolateD("tar-hidden-link-source", map[string]any{"case": sample, "diffs": trunc(diffs, 10)}, "filtered view (%s): hard-link member(s) name a first member that is not in the archive:\n%s", cfg, strings.Join(trunc(diffs, 6), "\n"))
		default:
			r.ViolateD("tar-member-mismatch", map[string]any{"case": sample, "diffs": trunc(diffs, 10)}, "archive members differ from the view (%s):\n%s", cfg, strings.Join(trunc(diffs, 8), "\n"))
		}
	}

	// 3. independent round trip with GNU tar
	tarFile := filepath.Join(c.Dir, "out.tar")
	if err := os.WriteFile(tarFile, buf.Bytes(), 0600); err != nil {
		r.Inconclusive = "write archive: " + err.Error()
		return r
	}
	xdir := filepath.Join(c.Dir, "x")
	os.Mkdir(xdir, 0755)
	cmd := exec.Command("tar", "--xattrs", "--xattrs-include=*", "--same-owner", "--numeric-owner", "-p", "-xf", tarFile, "-C", xdir)
	cmd.Env = append(os.Environ(), "LC_ALL=C", "TZ=UTC")
	var stderr bytes.Buffer
	cmd.Stderr = &stderr
	xerr := cmd.Run()
	if _, ok := xerr.(*exec.ExitError); xerr != nil && !ok {
		r.Inconclusive = "cannot run GNU tar: " + xerr.Error()
		return r
	}
	r.Count("extractions", 1)
	if xerr != nil {
		msg := strings.Join(trunc(strings.Split(strings.TrimSpace(stderr.String()), "\n"), 6), "\n")
		switch {
		case nHidden > 0 && diag:
			r.Count("diag_stacked_extractions_failed", 1)
		case nHidden > 0:
			r.ViolateD("tar-hidden-link-source", sample, "GNU tar cannot extract the archive of the filtered view (%s): %v\n%s", cfg, xerr, msg)
		default:
			r.ViolateD("tar-extract-failed", sample, "GNU tar cannot extract the archive (%s): %v\n%s", cfg, xerr, msg)
		}
	}
	got, err := tree.Snapshot(xdir, tree.SnapOpt{})
	if err != nil {
		r.Violate("tar-extract-unreadable", "cannot snapshot the extracted tree: %v", err)
		return r
	}
	exp := &tree.Tree{}
	for i := range want {
		exp.Entries = append(exp.Entries, want[i].E)
	}
	m := tree.Mask{Perm: true, Owner: true, Xattrs: true, DirXattrs: true, SymlinkXattrs: true, SpecialXattrs: true, Links: true, Data: true, Rdev: true, Target: true}
	xd := tree.Diff(exp, got, m)
	gi := got.Index()
	for i := range want {
		e := &want[i].E
		if j, ok := gi[e.Path]; ok {
			r.Count("extracted_entries_compared", 1)
			if g := &got.Entries[j]; g.Type == e.Type && !c17MtimeOK(g.Mtime, e.Mtime) {
				xd = append(xd, fmt.Sprintf("differs (mtime): want %s | got %s", e.String(), g.String()))
			}
		}
	}
	hiddenExplains := false
	if len(xd) > 0 && nHidden > 0 {
		// tight signature: the extraction is the view minus the members whose
		// link source is hidden (GNU tar cannot create those)
		exp2 := &tree.Tree{}
		for i := range want {
			if !want[i].Hidden {
				exp2.Entries = append(exp2.Entries, want[i].E)
			}
		}
		hiddenExplains = len(tree.Diff(exp2, got, m)) == 0
	}
	if len(xd) > 0 {
		sort.Strings(xd)
		switch {
		case !hiddenExplains && nHidden > 0:
			r.ViolateD("tar-roundtrip-differs", map[string]any{"case": sample, "diffs": trunc(xd, 10)}, "extracting the archive with GNU tar does not reproduce the view (%s; beyond the members with a hidden link source):\n%s", cfg, strings.Join(trunc(xd, 8), "\n"))
		case nHidden > 0 && diag:
			r.Count("diag_stacked_extractions_differ", 1)
		case nHidden > 0:
			r.ViolateD("tar-hidden-link-source", map[string]any{"case": sample, "diffs": trunc(xd, 10)}, "extracting the archive of the filtered view (%s) does not reproduce the view:\n%s", cfg, strings.Join(trunc(xd, 6), "\n"))
		default:
			r.ViolateD("tar-roundtrip-differs", map[string]any{"case": sample, "diffs": trunc(xd, 10)}, "extracting the archive with GNU tar does not reproduce the view (%s):\n%s", cfg, strings.Join(trunc(xd, 8), "\n"))
		}
	}
	return r
}

// c17HiddenFirst: a composite view whose sub-root is a view that hides, after
// having looked at it, the first member of a hard-link group (a Map function
// that excludes it): the first visible member is the file of the archive, the
// later ones link to it, and every link member names an earlier member.
func c17HiddenFirst(c *core.Ctx, r *core.Result, R *core.Rand) *core.Result {
	dir := filepath.Join(c.Dir, "src")
	os.MkdirAll(filepath.Join(dir, "cache"), 0755)
	os.MkdirAll(filepath.Join(dir, "data"), 0755)
	body := R.Bytes(core.Pick(R, []int{1, 100, 40000}))
	first := core.Pick(R, []string{"cache/a", "cache/zz", "data/a"})
	others := []string{"data/b", "data/c", "e"}[:R.Range(1, 3)]
	if os.WriteFile(filepath.Join(dir, first), body, 0644) != nil {
		r.Inconclusive = "cannot write the source"
		return r
	}
	for _, o := range others {
		os.Link(filepath.Join(dir, first), filepath.Join(dir, o))
	}
	os.WriteFile(filepath.Join(dir, "data", "plain"), []byte("plain"), 0600)
	base, err := fsutil.NewFS(dir)
	if err != nil {
		r.Inconclusive = err.Error()
		return r
	}
	hidden, err := fsutil.NewFilterFS(base, &fsutil.FilterOpt{Map: func(p string, _ *types.Stat) fsutil.MapResult {
		if p == first {
			return fsutil.MapResultExclude
		}
		return fsutil.MapResultKeep
	}})
	if err != nil {
		r.Inconclusive = err.Error()
		return r
	}
	var view fsutil.FS = hidden
	pfx := ""
	shape := core.Pick(R, []string{"filtered", "subdir-of-filtered", "subdir-of-filtered", "filter-on-filtered"})
	switch shape {
	case "subdir-of-filtered":
		view, err = fsutil.SubDirFS([]fsutil.Dir{{FS: hidden, Stat: &types.Stat{Path: "sub", Mode: uint32(os.ModeDir | 0755)}}})
		pfx = "sub/"
	case "filter-on-filtered":
		view, err = fsutil.NewFilterFS(hidden, &fsutil.FilterOpt{ExcludePatterns: []string{"data/plain"}})
	}
	if err != nil {
		r.Inconclusive = err.Error()
		return r
	}
	r.Sample = map[string]any{"variant": "hidden-first-member", "shape": shape, "first": first, "others": others}
	r.FP = fmt.Sprintf("hidden-first|%s|%s|%d|%d", shape, first, len(others), len(body))
	r.Nontrivial = true
	r.AddSet("configs", "hidden-first/"+shape)
	var buf bytes.Buffer
	if err := fsutil.WriteTar(context.Background(), view, &buf); err != nil {
		r.ViolateD("tar-write-error", r.Sample, "WriteTar failed on a view that hides the first member of a link group: %v", err)
		return r
	}
	r.Count("archives", 1)
	r.Count("archives_of_views_hiding_a_first_link_member", 1)
	tr := tar.NewReader(bytes.NewReader(buf.Bytes()))
	seen := map[string]bool{}
	fileOf := ""
	for {
		h, err := tr.Next()
		if err == io.EOF {
			break
		}
		if err != nil {
			r.ViolateD("tar-malformed", r.Sample, "archive/tar cannot read the archive: %v", err)
			return r
		}
		name := strings.TrimSuffix(h.Name, "/")
		if name == pfx+first {
			r.ViolateD("tar-member-mismatch", r.Sample, "the hidden entry %q is a member of the archive", name)
		}
		member := false
		for _, o := range others {
			member = member || name == pfx+o
		}
		if member {
			switch h.Typeflag {
			case tar.TypeReg:
				data, _ := io.ReadAll(tr)
				if fileOf != "" {
					r.ViolateD("tar-member-mismatch", r.Sample, "two members of one link group (%q, %q) are written as files", fileOf, name)
				} else if !bytes.Equal(data, body) {
					r.ViolateD("tar-member-mismatch", r.Sample, "%q, the first visible member of its link group, carries %d bytes that are not the file's %d", name, len(data), len(body))
				}
				fileOf = name
			case tar.TypeLink:
				if !seen[h.Linkname] || h.Linkname != fileOf {
					r.ViolateD("tar-link-to-absent-member", r.Sample, "member %q is a hard link to %q, which is not an earlier file member of the archive (first visible member: %q)", name, h.Linkname, fileOf)
				}
			default:
				r.ViolateD("tar-member-mismatch", r.Sample, "member %q has type %q", name, string(h.Typeflag))
			}
		}
		seen[name] = true
	}
	for _, o := range others {
		if !seen[pfx+o] {
			r.ViolateD("tar-member-mismatch", r.Sample, "visible entry %q is missing from the archive", pfx+o)
		}
	}
	return r
}
