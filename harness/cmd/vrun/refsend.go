package main

import (
	"context"
	"fmt"
	"io"
	"os"
	"path/filepath"
	"sync"

	"github.com/tonistiigi/fsutil"
	"github.com/tonistiigi/fsutil/types"
	"verif/internal/core"
	"verif/internal/tree"
)

// refSender is an independent implementation of the sending side of the
// documented protocol. It announces a tree model (synthetic stats, no disk),
// answers requests with seeded chunkings and interleavings and is the
// protocol monitor of C07 (and the base of the hostile scripts of C03).
type refSender struct {
	T     *tree.Tree
	R     *core.Rand
	Chunk string // 1 | 7 | 4k | 32k-1 | 32k | 32k+1 | 1m | mixed
	Inter string // sequential | roundrobin | random | reverse
	Race  bool   // answer requests while STATs are still being sent
	// CloseEarly: return (close the stream) right after the end marker
	// without waiting for FIN.
	CloseEarly bool
	// Dest is inspected at the instant the receiver's FIN arrives.
	Dest string
	// Skip lists stat indexes that are announced under another name (used
	// for the metadata-only listing file) - unused here.

	mu       sync.Mutex
	cond     *sync.Cond
	sentIdx  int // number of STATs sent so far
	endSent  bool
	reqs     []uint32
	reqSeen  map[uint32]bool
	pending  []uint32
	termSent map[uint32]bool
	payload  map[uint32][]byte
	fin      bool
	finState []string // problems observed at the instant FIN arrived
	viol     []string
	errPkt   string
	recvErr  error
	sendMu   sync.Mutex
	stats    []*types.Stat
}

// announceOtherSizes makes the STATs of the given files announce a size that
// differs from the number of bytes that will be sent for them (a file that
// changed between the sender's walk and its read: still a conforming stream).
func (rs *refSender) announceOtherSizes(off map[string]int64) {
	for i := range rs.T.Entries {
		if d, ok := off[rs.T.Entries[i].Path]; ok {
			if n := rs.stats[i].Size + d; n >= 0 {
				rs.stats[i].Size = n
			}
		}
	}
}

func newRefSender(t *tree.Tree, r *core.Rand) *refSender {
	rs := &refSender{T: t, R: r, Chunk: "mixed", Inter: "sequential", reqSeen: map[uint32]bool{}, termSent: map[uint32]bool{}, payload: map[uint32][]byte{}}
	rs.cond = sync.NewCond(&rs.mu)
	for i := range t.Entries {
		rs.stats = append(rs.stats, t.Entries[i].Stat())
	}
	return rs
}

func (rs *refSender) violate(format string, a ...any) {
	rs.viol = append(rs.viol, fmt.Sprintf(format, a...))
}

func (rs *refSender) send(s fsutil.Stream, p *types.Packet) error {
	rs.sendMu.Lock()
	defer rs.sendMu.Unlock()
	return s.SendMsg(p)
}

func (rs *refSender) dataOf(id uint32) []byte {
	e := &rs.T.Entries[id]
	if e.LinkTo != "" {
		if c := rs.T.Get(e.LinkTo); c != nil {
			return c.Data
		}
	}
	return e.Data
}

func (rs *refSender) chunkSize() int {
	switch rs.Chunk {
	case "1":
		return 1
	case "7":
		return 7
	case "4k":
		return 4096
	case "32k-1":
		return 32767
	case "32k":
		return 32768
	case "32k+1":
		return 32769
	case "1m":
		return 1 << 20
	}
	return core.Pick(rs.R, []int{1, 7, 100, 4096, 32767, 32768, 32769, 1 << 20})
}

func (rs *refSender) reader(s fsutil.Stream) {
	for {
		var p types.Packet
		err := s.RecvMsg(&p)
		rs.mu.Lock()
		if err != nil {
			if err != io.EOF {
				rs.recvErr = err
			} else {
				rs.recvErr = io.EOF
			}
			rs.cond.Broadcast()
			rs.mu.Unlock()
			return
		}
		switch p.Type {
		case types.PACKET_REQ:
			id := p.ID
			switch {
			case int(id) >= len(rs.stats):
				rs.violate("REQ for id %d which is never announced (%d STATs)", id, len(rs.stats))
			case rs.reqSeen[id]:
				rs.violate("REQ for id %d sent twice", id)
			case !isRegular(rs.stats[id]):
				rs.violate("REQ for id %d (%q) which is not a regular file (mode %o)", id, rs.stats[id].Path, rs.stats[id].Mode)
			case rs.stats[id].Linkname != "":
				rs.violate("REQ for id %d (%q) which is a hard link to %q", id, rs.stats[id].Path, rs.stats[id].Linkname)
			}
			if int(id) < len(rs.stats) && !rs.reqSeen[id] {
				rs.reqSeen[id] = true
				rs.reqs = append(rs.reqs, id)
				rs.pending = append(rs.pending, id)
			}
		case types.PACKET_FIN:
			rs.fin = true
			// the instant FIN arrives: all content must already be on disk
			// (ordering against the end marker and the terminators is decided
			// on the receiver-side event log by the caller)
			if rs.Dest != "" {
				for _, id := range rs.reqs {
					pth := filepath.Join(rs.Dest, rs.stats[id].Path)
					b, err := os.ReadFile(pth)
					if err != nil {
						rs.finState = append(rs.finState, fmt.Sprintf("at FIN: %q cannot be read: %v", rs.stats[id].Path, err))
					} else if string(b) != string(rs.dataOf(id)) {
						rs.finState = append(rs.finState, fmt.Sprintf("at FIN: %q holds %d bytes, differing from the %d bytes of id %d", rs.stats[id].Path, len(b), len(rs.dataOf(id)), id))
					}
				}
			}
		case types.PACKET_ERR:
			rs.errPkt = string(p.Data)
		default:
			rs.violate("receiver emitted packet type %v", p.Type)
		}
		rs.cond.Broadcast()
		rs.mu.Unlock()
	}
}

// answer sends the DATA packets for a batch of ids using the interleaving policy.
func (rs *refSender) answer(s fsutil.Stream, ids []uint32) error {
	type cur struct {
		id   uint32
		data []byte
		off  int
	}
	var cs []*cur
	for _, id := range ids {
		cs = append(cs, &cur{id: id, data: rs.dataOf(id)})
	}
	switch rs.Inter {
	case "reverse":
		for i, j := 0, len(cs)-1; i < j; i, j = i+1, j-1 {
			cs[i], cs[j] = cs[j], cs[i]
		}
	}
	step := func(c *cur) (done bool, err error) {
		if c.off >= len(c.data) {
			if err := rs.send(s, &types.Packet{Type: types.PACKET_DATA, ID: c.id}); err != nil {
				return true, err
			}
			rs.mu.Lock()
			rs.termSent[c.id] = true
			rs.mu.Unlock()
			return true, nil
		}
		n := rs.chunkSize()
		if c.off+n > len(c.data) {
			n = len(c.data) - c.off
		}
		chunk := c.data[c.off : c.off+n]
		if err := rs.send(s, &types.Packet{Type: types.PACKET_DATA, ID: c.id, Data: chunk}); err != nil {
			return true, err
		}
		rs.mu.Lock()
		rs.payload[c.id] = append(rs.payload[c.id], chunk...)
		rs.mu.Unlock()
		c.off += n
		return false, nil
	}
	for len(cs) > 0 {
		var i int
		switch rs.Inter {
		case "roundrobin":
			for i = 0; i < len(cs); {
				done, err := step(cs[i])
				if err != nil {
					return err
				}
				if done {
					cs = append(cs[:i], cs[i+1:]...)
				} else {
					i++
				}
			}
			continue
		case "random":
			i = rs.R.Intn(len(cs))
		default:
			i = 0
		}
		done, err := step(cs[i])
		if err != nil {
			return err
		}
		if done {
			cs = append(cs[:i], cs[i+1:]...)
		}
	}
	return nil
}

func (rs *refSender) takePending() []uint32 {
	rs.mu.Lock()
	defer rs.mu.Unlock()
	p := rs.pending
	rs.pending = nil
	return p
}

// run plays the sender; it returns nil after echoing FIN (the harness then
// closes the stream), like a conforming sender.
func (rs *refSender) run(ctx context.Context, s fsutil.Stream) error {
	done := make(chan struct{})
	go func() { rs.reader(s); close(done) }()
	for i, st := range rs.stats {
		if err := rs.send(s, &types.Packet{Type: types.PACKET_STAT, Stat: st}); err != nil {
			return err
		}
		rs.mu.Lock()
		rs.sentIdx = i + 1
		rs.mu.Unlock()
		if rs.Race && rs.R.P(1, 3) {
			if p := rs.takePending(); len(p) > 0 {
				if err := rs.answer(s, p); err != nil {
					return err
				}
			}
		}
	}
	if err := rs.send(s, &types.Packet{Type: types.PACKET_STAT}); err != nil {
		return err
	}
	rs.mu.Lock()
	rs.endSent = true
	rs.mu.Unlock()
	if rs.CloseEarly {
		return nil
	}
	for {
		p := rs.takePending()
		if len(p) > 0 {
			if err := rs.answer(s, p); err != nil {
				return err
			}
			continue
		}
		rs.mu.Lock()
		for len(rs.pending) == 0 && !rs.fin && rs.recvErr == nil && rs.errPkt == "" {
			rs.cond.Wait()
		}
		fin, rerr, ep, np := rs.fin, rs.recvErr, rs.errPkt, len(rs.pending)
		rs.mu.Unlock()
		if np > 0 {
			continue
		}
		if ep != "" {
			return fmt.Errorf("error from receiver: %s", ep)
		}
		if fin {
			return rs.send(s, &types.Packet{Type: types.PACKET_FIN})
		}
		if rerr != nil {
			return rerr
		}
	}
}
