package main

import (
	"fmt"
	"sort"
	"strings"

	"github.com/tonistiigi/fsutil"
	"github.com/tonistiigi/fsutil/types"
	"verif/internal/core"
	"verif/internal/tree"
)

// C05: change notifications mirror exactly what changed, with true digests.

func init() {
	core.Register(&core.Prop{
		ID:    "C05",
		Level: "exploration",
		Rule: "Plus: a history that splits a link pair of a 1 MiB file keeping the size (1 case of 30); synthetic sources that announce size 0 for symlinks; symlinks re-targeted to another spelling of the same path. the edit histories of C02 plus targeted ones (pure directory chmod/chown, adjacent deleted directories, subtree deletions, dir<->file swaps), synthetic sources with delayed reads so that file contents complete out of order; every NotifyHashed call is recorded and checked against the notification model: applying the events to the old snapshot yields the new one, every changed path is reported exactly once with the stat as sent, no unchanged path is reported, deletes are exactly the top-most removed paths, digests are recomputed from the stat on the wire and the bytes now in dest. " +
			"non-trivial = a round with at least one add/modify and (a delete or an untouched entry); distinct by history fingerprint",
		Assumptions: []string{"root", "add vs modify is not demanded", "the hard-link timing exception of C02 applies", "children of a directory replaced by a non-directory vanish with the parent's event"},
		Cases: func(tier string) int {
			if tier == "thorough" {
				return 200000
			}
			return 2000
		},
		Batch:         40,
		MinNontrivial: func(tier string) int { return 150 },
		Run:           c05Run,
	})
}

func statFieldsEqual(a, b *types.Stat) bool {
	return a.Path == b.Path && a.Mode == b.Mode && a.Uid == b.Uid && a.Gid == b.Gid && a.Size == b.Size && a.ModTime == b.ModTime &&
		a.Linkname == b.Linkname && a.Devmajor == b.Devmajor && a.Devminor == b.Devminor && tree.XattrEq(a.Xattrs, b.Xattrs)
}

// targetedTree builds shapes the random generator rarely produces: adjacent
// stale directories with children, and directories whose only edit is chmod.
func c05Targeted(R *core.Rand, o tree.GenOpt) *tree.Tree {
	t := tree.Gen(R, o)
	for _, d := range []string{"d1", "d2", "d3", "d4"} {
		if t.Get(d) != nil || R.P(1, 4) {
			continue
		}
		t.Put(tree.Entry{Path: d, Type: tree.Dir, Perm: 0755, Mtime: 1e18})
		n := R.Range(1, 2)
		for i := 0; i < n; i++ {
			t.Put(tree.Entry{Path: fmt.Sprintf("%s/%c", d, 'x'+byte(i)), Type: tree.File, Perm: 0644, Mtime: 1e18, Data: R.Bytes(10)})
		}
		if R.P(1, 3) {
			t.Put(tree.Entry{Path: d + "/sub", Type: tree.Dir, Perm: 0755, Mtime: 1e18})
			t.Put(tree.Entry{Path: d + "/sub/f", Type: tree.File, Perm: 0644, Mtime: 1e18, Data: []byte("x")})
		}
	}
	t.Sort()
	return t
}

func c05Run(c *core.Ctx) *core.Result {
	r := &core.Result{}
	if !needRoot(r) {
		return r
	}
	g, eo := histGenOpt(c.R)
	synthetic := c.R.P(1, 3)
	ho := histOpt{Rounds: c.R.Range(1, 3), DiffNoneP: 8, Targeted: true, Synthetic: synthetic, SlowFiles: synthetic, Unchanged: c.R.P(1, 4), GenOpt: g, EditOpt: eo}
	if c.R.P(1, 3) {
		// a receiver-side filter that rewrites metadata: the entry is stored
		// with the rewritten values, the digest is still seeded with the stat
		// as sent
		ho.Filter = func(p string, st *types.Stat) bool {
			if st.Uid == 1234 {
				st.Uid = 4242
			}
			st.Gid = st.Gid/2 + 7
			st.Mode &^= 0o002 // (also for symlinks: their permission bits are no difference)
			return true
		}
		r.Count("histories_with_rewriting_filter", 1)
	}
	var obs []roundObs
	if br := core.NewRand(core.Mix(c.Seed, "C05-big-split", c.Index)); br.P(1, 30) {
		// a large file (disk image, database) with a second name; the source
		// then gives the second name a file of its own, same size, other
		// bytes: only that name changes, the first keeps bytes and stamp
		n := 1<<20 + br.Intn(3)*4096 + br.Intn(2)
		data := br.Bytes(n)
		t0 := &tree.Tree{Entries: []tree.Entry{
			{Path: "img", Type: tree.File, Perm: 0644, Mtime: 1e18, Data: data},
			{Path: "img.bak", Type: tree.File, Perm: 0644, Mtime: 1e18, Data: data, LinkTo: "img"},
			{Path: "z", Type: tree.File, Perm: 0600, Mtime: 1e18 + 1, Data: []byte("z")}}}
		ho2 := histOpt{Rounds: 1, GenOpt: g, EditOpt: eo, Filter: ho.Filter}
		obs = runHistoryFrom(c, r, ho2, t0, func(t *tree.Tree) []string {
			nd := append([]byte(nil), data...)
			copy(nd, "other bytes at the start")
			nd[len(nd)-1] ^= 0x55
			e := t.Get("img.bak")
			e.LinkTo, e.Data, e.Mtime = "", nd, 1e18+int64(br.Intn(2))*5
			fixGroups(t)
			return []string{"unlink-and-rewrite-same-size img.bak"}
		})
		r.Count("histories_splitting_a_link_pair_of_a_file_of_1MiB", 1)
	} else if c.R.P(1, 3) {
		// targeted: start from a tree with adjacent directories, delete several of them / chmod dirs
		ho.GenOpt.MaxEntries = 8
		obs = runHistoryFrom(c, r, ho, c05Targeted(c.R, ho.GenOpt), func(t *tree.Tree) []string {
			var ed []string
			for _, d := range []string{"d1", "d2", "d3", "d4"} {
				if t.Get(d) == nil {
					continue
				}
				switch c.R.Intn(4) {
				case 0, 1:
					removePath(t, d)
					ed = append(ed, "delete "+d)
				case 2:
					if e := t.Get(d); e.Type == tree.Dir {
						e.Perm = 0700
						ed = append(ed, "chmod "+d+" 700")
					}
				}
			}
			ed = append(ed, mutate(c.R, t, c.R.Intn(3), ho.EditOpt)...)
			return ed
		})
	} else {
		obs = runHistory(c, r, ho)
	}
	if obs == nil {
		return r
	}
	r.Sample = histSample(obs)
	r.FP = histFP(obs)
	for i, o := range obs {
		if i == 0 {
			// initial sync into an empty dest: everything is an add
			c05CheckRound(r, i, &o)
			continue
		}
		c05CheckRound(r, i, &o)
	}
	return r
}

func c05CheckRound(r *core.Result, round int, o *roundObs) {
	r.Count("rounds", 1)
	E, either := changedSet(o.Old, o.SrcF)
	sent := map[string]*types.Stat{}
	filtered := o.SrcF.Index()
	for _, st := range o.Stats {
		sent[st.Path] = st
	}
	requested := map[string]bool{}
	for _, p := range o.Reqs {
		requested[p] = true
	}
	ctx := func() map[string]any {
		var ns []string
		for _, n := range o.Notes {
			ns = append(ns, n.Kind+" "+n.Path)
		}
		return map[string]any{"edits": o.Edits, "notifications": ns, "old": o.Old.Lines(), "src": o.SrcF.Lines()}
	}

	// --- model application
	type ment struct {
		e    tree.Entry
		gid  string
		link string
		// reported: put here by an add/modify event of this round
		reported bool
	}
	M := map[string]*ment{}
	for _, e := range o.Old.Entries {
		g := ""
		if c := o.Old.GroupOf(e.Path); c != "" {
			g = "old:" + c
		}
		M[e.Path] = &ment{e: e, gid: g}
	}
	removeBelow := func(p string, self bool) {
		for q := range M {
			if (self && q == p) || strings.HasPrefix(q, p+"/") {
				delete(M, q)
			}
		}
	}
	upserts := map[string]int{}
	var deletes []string
	ni := o.New.Index()
	fresh := 0
	for _, n := range o.Notes {
		r.Count("notifications", 1)
		switch n.Kind {
		case "delete":
			deletes = append(deletes, n.Path)
			if _, ok := M[n.Path]; !ok {
				r.ViolateD("notify-delete-nonexistent", ctx(), "round %d (edits %v): delete reported for %q which does not exist in the model of dest (already removed with its parent, or never there)", round, o.Edits, n.Path)
			}
			removeBelow(n.Path, true)
		case "add", "modify":
			upserts[n.Path]++
			if n.Stat == nil {
				r.Violate("notify-nostat", "round %d: %s %q without stat", round, n.Kind, n.Path)
				continue
			}
			st, ok := sent[n.Path]
			if !ok {
				r.ViolateD("notify-unknown-path", ctx(), "round %d: %s reported for %q which the sender never announced", round, n.Kind, n.Path)
				continue
			}
			if !statFieldsEqual(st, n.Stat) {
				r.ViolateD("notify-stat", ctx(), "round %d: %s %q carries stat %v, the sender announced %v", round, n.Kind, n.Path, n.Stat, st)
			}
			ne := tree.FromStat(st)
			// what is stored is what was sent, whatever size was announced
			ne.Size -= o.SizeOff[n.Path]
			if j, ok := filtered[n.Path]; ok {
				// what is stored is the stat as rewritten by the receiver's filter
				fe := o.SrcF.Entries[j]
				ne.Perm, ne.UID, ne.GID = fe.Perm, fe.UID, fe.GID
			}
			if ne.Type != tree.Dir {
				removeBelow(n.Path, false)
			}
			// the link name is resolved after all events were applied: the
			// event of the first member of a group arrives when its content
			// is complete, possibly after the events of later members
			M[n.Path] = &ment{e: ne, link: ne.LinkTo, reported: true}
			// digest
			var content []byte
			if ne.Type == tree.File && ne.LinkTo == "" && requested[n.Path] {
				if j, ok := ni[n.Path]; ok {
					content = o.New.Entries[j].Data
				}
				r.Count("content_digests_checked", 1)
			} else {
				r.Count("header_digests_checked", 1)
			}
			if want := expectDigest(st, content); n.Digest != want {
				r.ViolateD("notify-digest", ctx(), "round %d: %s %q has digest %s, header+bytes now in dest hash to %s", round, n.Kind, n.Path, n.Digest, want)
			}
		}
	}
	// derive LinkTo from group ids and compare with the new snapshot
	for _, m := range M {
		if m.link == "" || m.e.Type == tree.Symlink || m.e.Type == tree.Dir {
			continue
		}
		if c, ok := M[m.link]; ok {
			if c.gid == "" {
				fresh++
				c.gid = fmt.Sprintf("n%d", fresh)
			}
			m.gid = c.gid
		}
	}
	groups := map[string][]string{}
	for p, m := range M {
		if m.gid != "" {
			groups[m.gid] = append(groups[m.gid], p)
		}
	}
	link := map[string]string{}
	for _, ms := range groups {
		sort.Slice(ms, func(i, j int) bool { return tree.CmpPath(ms[i], ms[j]) < 0 })
		for _, m := range ms[1:] {
			link[m] = ms[0]
		}
	}
	var modelDiff []string
	for p, m := range M {
		j, ok := ni[p]
		if !ok {
			modelDiff = append(modelDiff, "model has "+p+" but dest does not")
			continue
		}
		ne := o.New.Entries[j]
		me := m.e
		me.LinkTo = link[p]
		if me.Type == tree.Symlink || me.Type == tree.Dir {
			me.LinkTo, ne.LinkTo = "", ""
		}
		if !identityEqual(&me, &ne) {
			modelDiff = append(modelDiff, fmt.Sprintf("identity of %s: model %s | dest %s", p, me.String(), ne.String()))
		} else if me.Type == tree.Dir && m.reported && me.Mtime != ne.Mtime {
			// a directory that was reported carries the reported time stamp,
			// whatever else the transfer wrote below it afterwards
			modelDiff = append(modelDiff, fmt.Sprintf("time stamp of reported directory %s: reported %d | dest %d", p, me.Mtime, ne.Mtime))
		}
	}
	for _, e := range o.New.Entries {
		if _, ok := M[e.Path]; !ok {
			modelDiff = append(modelDiff, "dest has "+e.Path+" but the model does not")
		}
	}
	if len(modelDiff) > 0 {
		sort.Strings(modelDiff)
		r.ViolateD("notify-model", ctx(), "round %d (edits %v): applying the notifications to the old destination does not yield the new one:\n%s", round, o.Edits, strings.Join(trunc(modelDiff, 8), "\n"))
	}

	// --- every changed path exactly once, unchanged paths never
	untouched := 0
	for _, e := range o.SrcF.Entries {
		n := upserts[e.Path]
		switch {
		case E[e.Path] && either[e.Path]:
			if n > 1 {
				r.ViolateD("notify-dup", ctx(), "round %d: %q reported %d times", round, e.Path, n)
			}
		case E[e.Path]:
			if n != 1 {
				sig := "notify-missing"
				if n > 1 {
					sig = "notify-dup"
				}
				if n == 0 && e.Type == tree.Dir {
					sig = "notify-missing-dir-metadata"
				}
				r.ViolateD(sig, ctx(), "round %d (edits %v): %q changed identity but was reported %d times (want 1)", round, o.Edits, e.Path, n)
			}
		default:
			untouched++
			if o.Differ == fsutil.DiffNone {
				if n > 1 {
					r.ViolateD("notify-dup", ctx(), "round %d: %q reported %d times", round, e.Path, n)
				}
			} else if n != 0 {
				r.ViolateD("notify-unchanged", ctx(), "round %d (edits %v): unchanged existing path %q was reported", round, o.Edits, e.Path)
			}
		}
	}
	for p := range upserts {
		if o.Src.Get(p) == nil {
			r.ViolateD("notify-unknown-path", ctx(), "round %d: add/modify for %q which is not in the source view", round, p)
		}
	}
	// --- deletes are exactly the top-most removed paths
	si := o.Src.Index()
	oi := o.Old.Index()
	wantDel := map[string]bool{}
	for _, e := range o.Old.Entries {
		if _, ok := si[e.Path]; ok {
			continue
		}
		par := tree.Parent(e.Path)
		if par != "" {
			pj, inSrc := si[par]
			if !inSrc || o.Src.Entries[pj].Type != tree.Dir || o.Old.Entries[oi[par]].Type != tree.Dir {
				continue
			}
		}
		wantDel[e.Path] = true
	}
	gotDel := map[string]int{}
	for _, d := range deletes {
		gotDel[d]++
	}
	for p := range wantDel {
		if gotDel[p] != 1 {
			r.ViolateD("notify-delete-missing", ctx(), "round %d (edits %v): removed top-most path %q was reported %d times as deleted (want 1)", round, o.Edits, p, gotDel[p])
		}
	}
	for p, n := range gotDel {
		if !wantDel[p] {
			r.ViolateD("notify-delete-extra", ctx(), "round %d (edits %v): delete reported %d times for %q which is not a top-most removed path", round, o.Edits, n, p)
		}
	}
	r.Count("deletes_checked", int64(len(wantDel)))
	if len(upserts) > 0 && (len(wantDel) > 0 || untouched > 0) {
		r.Nontrivial = true
	}
	for _, ed := range o.Edits {
		r.AddSet("edit_kinds", strings.SplitN(ed, " ", 2)[0])
	}
}
