package main

import (
	"fmt"
	"golang.org/x/sys/unix"
	"io"
	"os"
	"path"
	"path/filepath"
	"strconv"
	"strings"
	"sync"
	"sync/atomic"
	"syscall"
	"time"

	"github.com/tonistiigi/fsutil/types"
	"verif/internal/core"
	"verif/internal/tree"
)

// C03: receiver containment against a hostile sender. Every case runs inside
// a throw-away chroot jail; the receiver is a separate process (it may crash
// on hostile input; the observer must survive).

func jailInit(dir string) error {
	exe, err := os.ReadFile("/proc/self/exe")
	if err != nil {
		return err
	}
	if err := os.WriteFile(filepath.Join(dir, "vrunbin"), exe, 0755); err != nil {
		return err
	}
	os.MkdirAll(filepath.Join(dir, "tmp"), 01777)
	os.MkdirAll(filepath.Join(dir, "etc"), 0755)
	os.WriteFile(filepath.Join(dir, "etc/passwd"), []byte("root:x:0:0::/:/bin/sh\n"), 0644)
	if err := syscall.Chroot(dir); err != nil {
		return err
	}
	return os.Chdir("/")
}

type hpkt struct {
	Kind string // stat | end | data | fin
	Stat *types.Stat
	ID   uint32
	Data []byte
}

func (h hpkt) String() string {
	switch h.Kind {
	case "stat":
		s := fmt.Sprintf("STAT %q mode=%o", h.Stat.Path, h.Stat.Mode)
		if h.Stat.Linkname != "" {
			s += fmt.Sprintf(" link=%q", h.Stat.Linkname)
		}
		if len(h.Stat.Xattrs) > 0 {
			s += " +xattrs"
		}
		return s
	case "data":
		return fmt.Sprintf("DATA id=%d len=%d", h.ID, len(h.Data))
	}
	return strings.ToUpper(h.Kind)
}

// hostileSpec returns the index (among the STAT packets) of the first
// malformed STAT, per C03/C12: clean relative path strictly inside the root,
// strictly ascending, parent is an accepted directory, a hard link names an
// entry sent earlier.
func hostileSpec(stats []*types.Stat) (int, string) {
	dirs := map[string]bool{"": true}
	files := map[string]bool{}
	last, first := "", true
	for i, st := range stats {
		p := st.Path
		if p != path.Clean(p) || strings.HasPrefix(p, "/") || p == "." || p == ".." || strings.HasPrefix(p, "../") {
			return i, "path"
		}
		if !first && tree.CmpPath(last, p) >= 0 {
			return i, "order"
		}
		if !dirs[tree.Parent(p)] {
			return i, "parent"
		}
		m := os.FileMode(st.Mode)
		if m.IsDir() {
			dirs[p] = true
		} else if m&os.ModeSymlink == 0 {
			if st.Linkname != "" {
				if !files[st.Linkname] {
					return i, "hardlink"
				}
			} else {
				files[p] = true
			}
		}
		last, first = p, false
	}
	return -1, ""
}

// snapOutside snapshots the whole case directory except what lies below dest;
// dest's own entry is kept without the fields that legitimately change.
func snapOutside(caseDir, dest string) (map[string]string, error) {
	t, err := tree.Snapshot(caseDir, tree.SnapOpt{SymlinkGroups: true})
	if err != nil {
		return nil, err
	}
	rel, _ := filepath.Rel(caseDir, dest)
	out := map[string]string{}
	for _, e := range t.Entries {
		if strings.HasPrefix(e.Path, rel+"/") {
			continue
		}
		if e.Path == rel {
			out[e.Path] = fmt.Sprintf("dest-dir type=%c perm=%o owner=%d:%d ino=%d", e.Type, e.Perm, e.UID, e.GID, e.Ino)
			continue
		}
		if e.Path == "outside/shared" {
			// this one has a second name inside dest (a snapshot made with
			// cp -al): a link added or removed inside dest legitimately moves
			// its link count and ctime; everything else of it must stay
			out[e.Path] = fmt.Sprintf("%s ino=%d", e.String(), e.Ino)
			continue
		}
		out[e.Path] = fmt.Sprintf("%s ino=%d nlink=%d ctime=%d", e.String(), e.Ino, e.Nlink, e.Ctime)
	}
	return out, nil
}

func diffOutside(a, b map[string]string) []string {
	var d []string
	for p, v := range a {
		w, ok := b[p]
		if !ok {
			d = append(d, "removed outside dest: "+p+" ("+v+")")
		} else if v != w {
			d = append(d, "changed outside dest: "+p+"\n   before "+v+"\n   after  "+w)
		}
	}
	for p, v := range b {
		if _, ok := a[p]; !ok {
			d = append(d, "created outside dest: "+p+" ("+v+")")
		}
	}
	return d
}

func init() {
	core.Register(&core.Prop{
		ID:    "C03",
		Level: "exploration",
		Rule: "Half of the hybrid-mode scripts mirror a root-level symlink of the prior destination (same name, owner, target, size, time stamp, plus the directory bit) and announce children below it. Directed additions: a listing symlink in an append-only destination (it cannot be removed; only directories are announced then). hostile packet scripts = STAT sequence of a random tree (symlinks to outside sentinels, xattrs on symlinks, devices) with one mutation {path '..', '.', '', 'a/../..', '../x', absolute, unclean, duplicate, out of order, child of file/symlink, missing parent, hard link to unknown/later/escaping/non-file name, unsolicited DATA, DATA after terminator, backslash and newline names, huge sizes} or none, sent by a scripted sender over real pipes to a receiver process inside a chroot jail, x prior destinations full of symlinks (absolute and '..'-laden) to sentinels outside dest x {normal, merge, metadata-only}; everything outside dest (and dest's own directory entry) is snapshotted before and after (inode, mode, owner, mtime, ctime, bytes, xattrs). " +
			"non-trivial = script with a malformation or with an entry colliding with an outward symlink of the prior destination; distinct by (script, prior, mode) fingerprint",
		Assumptions: []string{"root, chroot(2) available", "no concurrent local attacker (TOCTOU races are out of scope)", "a receiver process crash counts as a failed receive call (counted separately)"},
		Cases: func(tier string) int {
			if tier == "thorough" {
				return 60000
			}
			return 1500
		},
		Batch:         150,
		BatchInit:     jailInit,
		MinNontrivial: func(tier string) int { return 300 },
		Run:           c03Run,
	})
}

func c03Run(c *core.Ctx) *core.Result {
	r := &core.Result{}
	if !needRoot(r) {
		return r
	}
	R := c.R
	caseDir := c.Dir
	outside := filepath.Join(caseDir, "outside")
	dest := filepath.Join(caseDir, "work/p/dest")
	os.MkdirAll(filepath.Join(outside, "dir/sub"), 0755)
	os.MkdirAll(dest, 0755)
	// the sentinel directory holds entries with the same names as the trees
	// inside dest, so that an operation applied through a symlink to it
	// (delete, chmod, replace of "d/a") hits something
	for _, nm := range []string{"a", "b", "c", "a-b", "d", "ab"} {
		os.WriteFile(filepath.Join(outside, "dir", nm), []byte("SENTINEL-"+nm), 0644)
		os.MkdirAll(filepath.Join(outside, "dir/sub", nm), 0755)
		os.WriteFile(filepath.Join(outside, "dir/sub", nm, "a"), []byte("SENTINEL-DEEP-"+nm), 0600)
		os.WriteFile(filepath.Join(outside, nm), []byte("SENTINEL-TOP-"+nm), 0644)
	}
	os.WriteFile(filepath.Join(outside, "file"), []byte("SENTINEL-FILE"), 0644)
	os.WriteFile(filepath.Join(outside, "dir/inner"), []byte("SENTINEL-INNER"), 0600)
	os.WriteFile(filepath.Join(outside, "dir/sub/deep"), []byte("SENTINEL-DEEP"), 0640)
	os.WriteFile(filepath.Join(caseDir, "work/p/sibling"), []byte("SENTINEL-SIBLING"), 0644)
	os.WriteFile(filepath.Join(caseDir, "work/top"), []byte("SENTINEL-TOP"), 0644)
	os.Symlink("dest", filepath.Join(caseDir, "work/p/destlink"))
	up := strings.Repeat("../", 12)
	rc := strings.TrimPrefix(caseDir, "/")
	targets := []string{
		outside + "/file", outside + "/dir", outside + "/dir/inner", outside, caseDir + "/work/p", caseDir + "/work/p/sibling", "/etc/passwd", "/",
		up + rc + "/outside/file", up + rc + "/outside/dir", "../../outside/dir", "../sibling", "..", "../..", up,
	}
	po := tree.GenOpt{MaxEntries: 14, MaxDepth: 3, MaxFanout: 5, Names: []string{"a", "b", "c", "a-b", "d", "ab"}, Types: "fdl", Owners: []uint32{0, 1234}, Targets: targets, Xattrs: true, Links: true, MaxSize: 200}
	prior := tree.Gen(R, po)
	// symlinks to outside at likely collision points
	for _, nm := range []string{"a", "b", "c", "a/a", "a/b"} {
		if R.P(1, 3) && (tree.Parent(nm) == "" || (prior.Get(tree.Parent(nm)) != nil && prior.Get(tree.Parent(nm)).Type == tree.Dir)) {
			prior.Remove(nm)
			prior.Put(tree.Entry{Path: nm, Type: tree.Symlink, Perm: 0777, Target: core.Pick(R, targets), Mtime: 1e18})
		}
	}
	prior.Sort()
	fixGroups(prior)
	if err := tree.Materialise(dest, prior); err != nil {
		r.Inconclusive = "materialise: " + err.Error()
		return r
	}
	so := po
	so.Types = "fdlpc"
	so.SymXattrs = true
	base := tree.Gen(R, so)
	var stats []*types.Stat
	content := map[string][]byte{}
	for i := range base.Entries {
		e := &base.Entries[i]
		st := e.Stat()
		if e.Type == tree.Symlink && R.P(1, 2) {
			st.Xattrs = map[string][]byte{"user.evil": []byte("x"), "trusted.evil": []byte("y")}
		}
		stats = append(stats, st)
		content[e.Path] = e.Data
	}
	// legal but nasty: a directory of the prior destination (with children) is
	// announced as a symlink / special file; the stale children must not be
	// removed through the new entry
	for _, pe := range prior.Entries {
		if pe.Type != tree.Dir || !R.P(1, 3) {
			continue
		}
		idx := -1
		for i, st := range stats {
			if st.Path == pe.Path {
				idx = i
			}
			if strings.HasPrefix(st.Path, pe.Path+"/") {
				idx = -2
				break
			}
		}
		if idx == -2 {
			continue
		}
		par := tree.Parent(pe.Path)
		parOK := par == ""
		for _, st := range stats {
			if st.Path == par && os.FileMode(st.Mode).IsDir() {
				parOK = true
			}
		}
		if !parOK {
			continue
		}
		var st *types.Stat
		switch R.Intn(4) {
		case 0:
			st = &types.Stat{Path: pe.Path, Mode: uint32(os.ModeNamedPipe | 0644), ModTime: 1e18}
		default:
			st = &types.Stat{Path: pe.Path, Mode: uint32(os.ModeSymlink | 0777), Linkname: core.Pick(R, []string{outside + "/dir", outside + "/dir/sub", outside, up + rc + "/outside/dir", caseDir + "/work/p"})}
		}
		if idx >= 0 {
			stats[idx] = st
		} else {
			stats = append(stats, st)
			// keep protocol order
			for i := len(stats) - 1; i > 0 && tree.CmpPath(stats[i-1].Path, stats[i].Path) > 0; i-- {
				stats[i-1], stats[i] = stats[i], stats[i-1]
			}
		}
		r.Count("prior_dirs_announced_as_symlink_or_fifo", 1)
	}
	// one mutation
	mut := core.Pick(R, []string{"none", "none", "dotdot", "dot", "empty", "updown", "dotdotx", "abs", "unclean", "dup", "order", "childofnondir", "noparent", "hl-unknown", "hl-later", "hl-escape", "hl-nonfile", "data-unsolicited", "data-afterterm", "backslash", "newline", "hugesize", "fin-early", "stat-after-end", "err-packet", "req-from-sender", "hl-via-dest-symlink", "hl-via-dest-symlink", "tmp-name-planted", "random-script", "random-script", "deep-revisit", "deep-revisit", "listing-dir-child", "hl-shared-inode", "hybrid-mode", "hybrid-mode", "filter-skipped-dir", "filter-skipped-dir", "listing-symlink", "listing-symlink"})
	k := 0
	if len(stats) > 0 {
		k = R.Intn(len(stats) + 1)
	}
	ins := func(i int, st *types.Stat) {
		stats = append(stats[:i], append([]*types.Stat{st}, stats[i:]...)...)
	}
	fileStat := func(p string) *types.Stat {
		return &types.Stat{Path: p, Mode: 0644, Size: 5, ModTime: 1e18}
	}
	// a hard link may be announced with any non-directory, non-symlink type
	hlStat := func(p string) *types.Stat {
		st := fileStat(p)
		st.Mode = uint32(core.Pick(R, []os.FileMode{0644, 0644, os.ModeNamedPipe | 0644, os.ModeDevice | os.ModeCharDevice | 0600, os.ModeDevice | 0600, os.ModeSocket | 0600, os.ModeIrregular | 0600}))
		if st.Mode != 0644 {
			st.Size = 0
		}
		return st
	}
	dirStat := func(p string) *types.Stat {
		return &types.Stat{Path: p, Mode: uint32(os.ModeDir | 0755), ModTime: 1e18}
	}
	evil := func(p string) *types.Stat {
		switch R.Intn(4) {
		case 0:
			return dirStat(p)
		case 1:
			return &types.Stat{Path: p, Mode: uint32(os.ModeSymlink | 0777), Linkname: core.Pick(R, targets)}
		default:
			return fileStat(p)
		}
	}
	var unsolicited []hpkt
	var tmpSeed uint32
	rejectBase := ""
	forceMeta := false
	appendOnly := false
	hlSrc, hlDst := "", ""
	var hlSkip []string
	extraAfterEnd := false
	finEarly := false
	switch mut {
	case "dotdot":
		ins(k, evil(".."))
	case "dot":
		ins(k, evil("."))
	case "empty":
		ins(k, evil(""))
	case "updown":
		ins(k, evil(core.Pick(R, []string{"a/../..", "a/../../x", "a/../../../" + rc + "/outside/pwn"})))
	case "dotdotx":
		ins(k, evil(core.Pick(R, []string{"../x", "../sibling", "../../top", "../destlink/x", up + rc + "/outside/pwn"})))
	case "abs":
		ins(k, evil(core.Pick(R, []string{"/abs", outside + "/pwn", "/etc/passwd", dest + "/x"})))
	case "unclean":
		ins(k, evil(core.Pick(R, []string{"a//b", "a/", "./a", "a/./b", "a/..", "a/b/..", "zz/"})))
	case "dup":
		if len(stats) > 0 {
			i := R.Intn(len(stats))
			ins(i+1, stats[i].CloneVT())
		}
	case "order":
		if len(stats) > 1 {
			i := R.Intn(len(stats) - 1)
			stats[i], stats[i+1] = stats[i+1], stats[i]
		}
	case "childofnondir":
		for i, st := range stats {
			if !os.FileMode(st.Mode).IsDir() {
				ins(i+1, evil(st.Path+"/x"))
				break
			}
		}
	case "noparent":
		ins(k, evil("nodir"+fmt.Sprint(R.Intn(9))+"/x"))
	case "hl-unknown":
		st := hlStat("zz-hl")
		st.Linkname = "never-sent"
		stats = append(stats, st)
	case "hl-later":
		st := hlStat("0-hl")
		st.Linkname = "zz-later"
		ins(0, st)
		stats = append(stats, fileStat("zz-later"))
	case "hl-escape":
		st := hlStat("zz-hl")
		st.Linkname = core.Pick(R, []string{"../sibling", outside + "/file", up + rc + "/outside/file", "../../top"})
		stats = append(stats, st)
	case "hl-nonfile":
		for _, st0 := range stats {
			m := os.FileMode(st0.Mode)
			if m.IsDir() || m&os.ModeSymlink != 0 {
				st := hlStat("zz-hl")
				st.Linkname = st0.Path
				stats = append(stats, st)
				break
			}
		}
	case "data-unsolicited":
		// an id that cannot have been requested when the packet arrives: never
		// announced, announced only later, or not a regular file
		pos := k % (len(stats) + 1)
		cands := []uint32{uint32(len(stats)), uint32(len(stats) + 1 + R.Intn(3))}
		for i, st := range stats {
			if i >= pos || os.FileMode(st.Mode)&os.ModeType != 0 || st.Linkname != "" {
				cands = append(cands, uint32(i))
			}
		}
		unsolicited = append(unsolicited, hpkt{Kind: "data", ID: core.Pick(R, cands), Data: []byte("evil")})
	case "data-afterterm":
		// half of the files are empty: their writer has not opened anything
		// when the terminator arrives
		for _, st := range stats {
			if os.FileMode(st.Mode).IsRegular() && st.Linkname == "" && R.P(1, 2) {
				st.Size = 0
				content[st.Path] = []byte{}
			}
		}
	case "backslash":
		ins(len(stats), fileStat(`zz\..\..\x`))
	case "newline":
		ins(len(stats), fileStat("zz\nx"))
	case "hugesize":
		st := fileStat("zzz-huge")
		st.Size = 1 << 60
		stats = append(stats, st)
	case "random-script":
		// a fully random STAT sequence over well- and ill-formed paths, random
		// types and link names (the specification decides where it goes wrong)
		alpha := []string{"a", "a/a", "a/b", "a/b/c", "b", "b/a", "c", "a-b", "ab", "d", "d/d", "..", ".", "", "../x", "a/../..", "/abs", outside + "/pwn", "a//b", "a/", "./a", "a/..", "..a", "..a/x", up + rc + "/outside/pwn", ".tmp.1", "zz"}
		n := R.Range(3, 25)
		stats = nil
		for i := 0; i < n; i++ {
			p := core.Pick(R, alpha)
			var st *types.Stat
			switch R.Intn(6) {
			case 0, 1:
				st = dirStat(p)
			case 2:
				st = &types.Stat{Path: p, Mode: uint32(os.ModeSymlink | 0777), Linkname: core.Pick(R, targets)}
			case 3:
				st = hlStat(p)
				st.Linkname = core.Pick(R, append(alpha, "../sibling", outside+"/file"))
			default:
				st = fileStat(p)
			}
			stats = append(stats, st)
		}
		if R.P(2, 3) {
			// mostly sorted, so that long valid prefixes occur
			for i := 1; i < len(stats); i++ {
				for j := i; j > 0 && tree.CmpPath(stats[j-1].Path, stats[j].Path) > 0; j-- {
					stats[j-1], stats[j] = stats[j], stats[j-1]
				}
			}
		}
	case "hl-shared-inode":
		// dest holds a name of an inode that has another name outside dest.
		// The stream announces that name exactly as it is on disk (so it is
		// left alone) and then a hard link to it with other metadata: the
		// inode is not the transfer's to change
		sh := filepath.Join(outside, "shared")
		os.WriteFile(sh, []byte("SENTINEL-SHARED"), 0644)
		os.Chmod(sh, 0644)
		os.Chtimes(sh, time.Unix(1_000_000_000, 0), time.Unix(1_000_000_000, 0))
		os.RemoveAll(filepath.Join(dest, "0shared"))
		if os.Link(sh, filepath.Join(dest, "0shared")) == nil {
			same := &types.Stat{Path: "0shared", Mode: 0644, Size: int64(len("SENTINEL-SHARED")), ModTime: 1_000_000_000 * 1_000_000_000}
			stats = append([]*types.Stat{same}, stats...)
			m := fileStat("zz-shared-link")
			m.Linkname = "0shared"
			m.Mode = uint32(os.ModeSetuid | 0755)
			m.Uid, m.Gid, m.ModTime = 1000, 1000, 5_000_000_000
			m.Xattrs = map[string][]byte{"user.evil": []byte("x")}
			stats = append(stats, m)
			r.Count("hard_link_to_inode_shared_with_outside_scripts", 1)
		}
	case "listing-dir-child":
		// the name of the metadata-only listing announced as a directory with
		// a child, while dest holds a symlink of that name that points to an
		// outside directory; run (mostly) as a merging metadata-only receive,
		// where nothing stale is removed first: whatever the receiver makes
		// of the reserved name, the child must not land outside
		chain := []*types.Stat{dirStat(".fsutil-metadata"), fileStat(".fsutil-metadata/x")}
		content[".fsutil-metadata/x"] = []byte("pwned")
		if R.P(1, 2) {
			chain = append(chain, &types.Stat{Path: ".fsutil-metadata/y", Mode: uint32(os.ModeSymlink | 0777), Linkname: "x"})
		}
		at := len(stats)
		for i, st := range stats {
			if tree.CmpPath(st.Path, ".fsutil-metadata") > 0 {
				at = i
				break
			}
		}
		stats = append(stats[:at], append(chain, stats[at:]...)...)
		os.RemoveAll(filepath.Join(dest, ".fsutil-metadata"))
		os.Symlink(core.Pick(R, []string{outside + "/dir", up + rc + "/outside/dir"}), filepath.Join(dest, ".fsutil-metadata"))
		forceMeta = true
		r.Count("listing_name_as_directory_scripts", 1)
	case "listing-symlink":
		// the destination holds a symlink with the name of the metadata-only
		// listing that leads out of dest - dangling, or to an existing file or
		// directory; a merging metadata-only receive (nothing stale is removed
		// first) must not write its listing through it
		os.RemoveAll(filepath.Join(dest, ".fsutil-metadata"))
		os.Symlink(core.Pick(R, []string{outside + "/dir/planted-listing", outside + "/planted-listing", up + rc + "/outside/dir/planted-listing", outside + "/file", outside + "/dir/inner", outside + "/dir"}), filepath.Join(dest, ".fsutil-metadata"))
		forceMeta = true
		r.Count("listing_name_as_symlink_scripts", 1)
		if ar := core.NewRand(core.Mix(c.Seed, "C03-append-only", c.Index)); ar.P(1, 3) {
			// ... and cannot be taken away: the destination directory is
			// append-only (entries can be made, not removed or renamed, so
			// the script announces directories only)
			var dirsOnly []*types.Stat
			for _, st := range stats {
				if os.FileMode(st.Mode).IsDir() {
					dirsOnly = append(dirsOnly, st)
				}
			}
			if setAppendOnly(dest, true) == nil {
				defer setAppendOnly(dest, false)
				stats = dirsOnly
				content = map[string][]byte{}
				appendOnly = true
				r.Count("listing_symlinks_that_cannot_be_removed", 1)
			}
		}
	case "deep-revisit":
		// a directory chain whose depth lies around the sizes at which a
		// growing per-level stack is re-allocated (8..12, 18..22, 38..42);
		// at the bottom a directory j with a file f, then - the offence - j
		// again (or a smaller sibling) as a symlink to an outside directory:
		// if the validator let it pass, f's content would land outside
		depth := core.Pick(R, []int{8, 9, 10, 11, 12, 18, 19, 20, 21, 22, 38, 39, 40, 41, 42})
		var chain []*types.Stat
		p := "zzdeep"
		chain = append(chain, dirStat(p))
		for l := 1; l < depth; l++ {
			p += "/d"
			chain = append(chain, dirStat(p))
		}
		chain = append(chain, dirStat(p+"/j"), fileStat(p+"/j/f"))
		content[p+"/j/f"] = []byte("pwned")
		again := p + "/j"
		if R.P(1, 3) {
			again = p + "/i"
		}
		chain = append(chain, &types.Stat{Path: again, Mode: uint32(os.ModeSymlink | 0777), Linkname: core.Pick(R, []string{outside + "/dir", up + rc + "/outside/dir"})})
		if R.P(1, 2) {
			chain = append(chain, fileStat(p+"/j/g"))
			content[p+"/j/g"] = []byte("pwned")
		}
		at := len(stats)
		for i, st := range stats {
			if tree.CmpPath(st.Path, "zzdeep") > 0 {
				at = i
				break
			}
		}
		stats = append(stats[:at], append(chain, stats[at:]...)...)
		r.Count("deep_revisit_scripts", 1)
	case "tmp-name-planted":
		// legal entries whose names look like the writer's temporary names
		// (guessable if they were a counter or derived from the path): symlinks
		// to the outside, sorting before the entries that get replaced
		// ... and the names the writer of this receiver process is going to
		// use: its generator is pinned through the verification hook (what an
		// attacker reaches by spraying many names), the first eight names are
		// planted at the top level and below every announced directory
		tmpSeed = uint32(R.U64()) | 1
		var planted []string
		x := tmpSeed
		for i := 0; i < 8; i++ {
			x = x*1664525 + 1013904223
			planted = append(planted, ".tmp."+strconv.Itoa(int(1e9 + x%1e9))[1:])
		}
		dirsOf := []string{""}
		for _, st := range stats {
			if os.FileMode(st.Mode).IsDir() {
				dirsOf = append(dirsOf, st.Path+"/")
			}
		}
		for _, d := range dirsOf {
			for _, nm := range planted {
				stats = append(stats, &types.Stat{Path: d + nm, Mode: uint32(os.ModeSymlink | 0777), Linkname: core.Pick(R, []string{outside + "/file", up + rc + "/outside/file", outside + "/dir/a", outside + "/dir/new-name"})})
			}
		}
		for _, nm := range []string{".tmp.0", ".tmp.1", ".tmp.2", ".tmp.000000001", ".tmp.a"} {
			if R.P(2, 3) {
				stats = append(stats, &types.Stat{Path: nm, Mode: uint32(os.ModeSymlink | 0777), Linkname: core.Pick(R, []string{outside + "/file", up + rc + "/outside/file", outside + "/dir/a"})})
			}
		}
		for i := len(stats) - 1; i > 0; i-- {
			for j := i; j > 0 && tree.CmpPath(stats[j-1].Path, stats[j].Path) > 0; j-- {
				stats[j-1], stats[j] = stats[j], stats[j-1]
			}
		}
		for i := 1; i < len(stats); i++ {
			for j := i; j > 0 && tree.CmpPath(stats[j-1].Path, stats[j].Path) > 0; j-- {
				stats[j-1], stats[j] = stats[j], stats[j-1]
			}
		}
	case "hl-via-dest-symlink":
		// a well-formed stream: regular file X, later a hard link to X. The
		// destination holds a symlink named X that points outside; the receiver
		// runs in merge + metadata-only mode with a selector that does not
		// select X (set below), so X is never written and the link must not be
		// made to (or applied through) the old symlink
		hlSrc, hlDst = "0hl-src", "zz-hl-member"
		if R.P(1, 2) {
			// the link source lies below a directory that is announced but not
			// written either; dest holds a symlink of the directory's name
			// that points to an outside directory with an entry of that name
			hlSkip = []string{"0hl-dir", "0hl-dir/a"}
			hlSrc = "0hl-dir/a"
			stats = append([]*types.Stat{dirStat("0hl-dir"), fileStat(hlSrc)}, stats...)
			os.RemoveAll(filepath.Join(dest, "0hl-dir"))
			os.Symlink(core.Pick(R, []string{outside + "/dir", up + rc + "/outside/dir"}), filepath.Join(dest, "0hl-dir"))
			r.Count("hl_source_behind_symlinked_dir_scripts", 1)
		} else {
			hlSkip = []string{hlSrc}
			stats = append([]*types.Stat{fileStat(hlSrc)}, stats...)
			os.Remove(filepath.Join(dest, hlSrc))
			os.Symlink(core.Pick(R, []string{outside + "/file", outside + "/dir", up + rc + "/outside/file"}), filepath.Join(dest, hlSrc))
			if R.P(1, 2) {
				// the name of the new link already exists in dest as a second
				// name of that very symlink ("already a name of the wanted
				// inode" must not win over "the source is an older symlink")
				os.RemoveAll(filepath.Join(dest, hlDst))
				if os.Link(filepath.Join(dest, hlSrc), filepath.Join(dest, hlDst)) == nil {
					r.Count("hl_member_is_second_name_of_the_symlink_scripts", 1)
				}
			}
		}
		m := hlStat(hlDst)
		m.Mode = 0600
		m.Linkname = hlSrc
		stats = append(stats, m)
	case "hybrid-mode":
		// a mode word with two type bits (no honest sender produces it, a
		// peer can): whatever the receiver takes the entry for, the order and
		// link validators and the writer have to take it for the same thing.
		// Announced with a link name that leads out of dest and followed by
		// children whose names exist there.
		hm := core.Pick(R, []os.FileMode{os.ModeDir | os.ModeSymlink, os.ModeDir | os.ModeSymlink, os.ModeDir | os.ModeSymlink, os.ModeDir | os.ModeNamedPipe,
			os.ModeDir | os.ModeDevice | os.ModeCharDevice, os.ModeDir | os.ModeSocket, os.ModeDir | os.ModeIrregular, os.ModeSymlink | os.ModeNamedPipe, os.ModeSymlink | os.ModeDevice})
		nm := core.Pick(R, []string{"hz", "hz", "a0", "e"})
		tg := core.Pick(R, []string{outside + "/dir", outside + "/dir/sub", outside, "../../../outside/dir", up + rc + "/outside/dir", "../..", caseDir + "/work/p"})
		add := []*types.Stat{{Path: nm, Mode: uint32(hm | 0755), Linkname: tg, ModTime: 1e18}}
		if mr := core.NewRand(core.Mix(c.Seed, "C03-hybrid-mirror", c.Index)); mr.P(1, 2) {
			// the hybrid entry mirrors a symlink the destination already has
			// (same name, owner, target, size and time stamp, plus the
			// directory bit): a comparison that takes the two for the same
			// entry leaves the old symlink in place below the children
			var cand []*tree.Entry
			for i := range prior.Entries {
				if pe := &prior.Entries[i]; pe.Type == tree.Symlink && tree.Parent(pe.Path) == "" {
					cand = append(cand, pe)
				}
			}
			if len(cand) > 0 {
				pe := core.Pick(mr, cand)
				nm = pe.Path
				hm = os.ModeDir | os.ModeSymlink
				ms := pe.Stat()
				ms.Mode |= uint32(os.ModeDir)
				add = []*types.Stat{ms}
				keep := stats[:0]
				for _, st := range stats {
					if st.Path != nm && !strings.HasPrefix(st.Path, nm+"/") {
						keep = append(keep, st)
					}
				}
				stats = keep
				r.Count("hybrid_entries_mirroring_a_destination_symlink", 1)
			}
		}
		if hm&os.ModeDir != 0 {
			add = append(add, fileStat(nm+"/a"), fileStat(nm+"/inner"), dirStat(nm+"/sub"), fileStat(nm+"/sub/a"), fileStat(nm+"/sub/deep"),
				&types.Stat{Path: nm + "/top", Mode: uint32(os.ModeSymlink | 0777), Linkname: "x"})
			content[nm+"/a"], content[nm+"/inner"], content[nm+"/sub/a"], content[nm+"/sub/deep"] = []byte("PWNED"), []byte("PWNED"), []byte("PWNED"), []byte("PWNED")
		}
		for _, st := range add {
			stats = append(stats, st)
			for i := len(stats) - 1; i > 0 && tree.CmpPath(stats[i-1].Path, stats[i].Path) > 0; i-- {
				stats[i-1], stats[i] = stats[i], stats[i-1]
			}
		}
	case "filter-skipped-dir":
		// the receiver's Filter leaves out entries of one base name; the peer
		// announces a directory of that name with children where the
		// destination has a symlink that leads out of dest
		nm := core.Pick(R, []string{"e", "a0", "hz"})
		rejectBase = nm
		tg := core.Pick(R, []string{outside + "/dir", outside + "/dir/sub", outside, "../../../outside/dir", up + rc + "/outside/dir", caseDir + "/work/p"})
		os.Symlink(tg, filepath.Join(dest, nm))
		add := []*types.Stat{dirStat(nm), fileStat(nm + "/a"), fileStat(nm + "/planted"), dirStat(nm + "/sub"), fileStat(nm + "/sub/a"),
			{Path: nm + "/top", Mode: uint32(os.ModeSymlink | 0777), Linkname: "x"}}
		if R.P(1, 3) {
			// two nested directories left out, the entry below the inner one
			// accepted: behind the link the inner name exists as a real
			// directory (outside/dir/sub), every level has to be looked at
			rejectBase = nm + ",sub"
			tg = core.Pick(R, []string{outside + "/dir", up + rc + "/outside/dir", "../../../outside/dir"})
			os.Remove(filepath.Join(dest, nm))
			os.Symlink(tg, filepath.Join(dest, nm))
			add = []*types.Stat{dirStat(nm), dirStat(nm + "/sub"), fileStat(nm + "/sub/deep"), fileStat(nm + "/sub/planted"), dirStat(nm + "/sub/a"), fileStat(nm + "/sub/a/a")}
		} else if R.P(1, 2) {
			// the skipped name one level down
			add = []*types.Stat{dirStat("hy"), dirStat("hy/" + nm), fileStat("hy/" + nm + "/a"), fileStat("hy/" + nm + "/planted")}
			os.Remove(filepath.Join(dest, nm))
			os.Mkdir(filepath.Join(dest, "hy"), 0755)
			os.Symlink(tg, filepath.Join(dest, "hy", nm))
		}
		for _, st := range add {
			if os.FileMode(st.Mode).IsRegular() {
				content[st.Path] = []byte("PWNED")
			}
			stats = append(stats, st)
			for i := len(stats) - 1; i > 0 && tree.CmpPath(stats[i-1].Path, stats[i].Path) > 0; i-- {
				stats[i-1], stats[i] = stats[i], stats[i-1]
			}
		}
	case "err-packet":
		unsolicited = append(unsolicited, hpkt{Kind: "err", Data: []byte("sender says no")})
	case "req-from-sender":
		unsolicited = append(unsolicited, hpkt{Kind: "req", ID: uint32(R.Intn(len(stats) + 2))})
	case "fin-early":
		finEarly = true
	case "stat-after-end":
		extraAfterEnd = true
	}
	specK, specWhy := hostileSpec(stats)
	mode := core.Pick(R, []string{"normal", "normal", "merge", "metaonly"})
	opt := recvProcOpt{Dest: dest, TmpSeed: tmpSeed}
	switch mode {
	case "merge":
		opt.Merge = true
	case "metaonly":
		opt.MetaOnly = core.Pick(R, []string{"none", "all", "files"})
	}
	if forceMeta && (R.P(3, 4) || appendOnly) {
		mode = "merge+metaonly"
		opt.Merge = true
		opt.MetaOnly = core.Pick(R, []string{"all", "files"})
	}
	if hlSrc != "" {
		mode = "merge+metaonly"
		opt.Merge = true
		opt.MetaOnly = "not:" + strings.Join(hlSkip, "\x00")
	}
	_ = hlDst
	// a sixth of the receivers run with a Filter that leaves out every entry
	// of one base name ("drop entries called X"): a directory of that name
	// is announced but not written, what the destination has there stays
	if fr := core.NewRand(core.Mix(c.Seed, "C03-filter", c.Index)); fr.P(1, 6) || rejectBase != "" {
		opt.RejectBase = core.Pick(fr, []string{"a", "a", "b", "d", "ab", "c"})
		if rejectBase != "" {
			opt.RejectBase = rejectBase
		}
		mode += "+filter-rejects-" + opt.RejectBase
		r.Count("receivers_with_a_rejecting_filter", 1)
	}
	var script []string
	for _, st := range stats {
		script = append(script, hpkt{Kind: "stat", Stat: st}.String())
	}
	r.Sample = map[string]any{"mutation": mut, "mode": mode, "script": trunc(script, 30), "prior": trunc(prior.Lines(), 25), "first_offence": specK, "why": specWhy}
	r.FP = fmt.Sprintf("%s|%s|%s|%s", mut, mode, strings.Join(script, ";"), prior.Fingerprint())
	r.AddSet("mutations", mut+"/"+mode)

	before, err := snapOutside(caseDir, dest)
	if err != nil {
		r.Inconclusive = "snapshot: " + err.Error()
		return r
	}
	destBefore, err := tree.Snapshot(dest, tree.SnapOpt{})
	if err != nil {
		r.Inconclusive = "snapshot: " + err.Error()
		return r
	}

	rp, err := startRecvProc("/vrunbin", opt)
	if err != nil {
		r.Inconclusive = "start receiver: " + err.Error()
		return r
	}
	// scripted sender
	var wg sync.WaitGroup
	finSeen := make(chan struct{})
	var reqs []uint32
	var rmu sync.Mutex
	var activity atomic.Int64
	var lateSent atomic.Bool
	wg.Add(1)
	go func() {
		defer wg.Done()
		termed := map[uint32]bool{}
		for {
			var p types.Packet
			if err := rp.Stream.RecvMsg(&p); err != nil {
				return
			}
			activity.Add(1)
			switch p.Type {
			case types.PACKET_REQ:
				rmu.Lock()
				reqs = append(reqs, p.ID)
				rmu.Unlock()
				var data []byte
				if int(p.ID) < len(stats) {
					data = content[stats[p.ID].Path]
					if data == nil {
						data = []byte("hello")
					}
				}
				if len(data) > 0 {
					rp.Send(&types.Packet{Type: types.PACKET_DATA, ID: p.ID, Data: data})
				}
				rp.Send(&types.Packet{Type: types.PACKET_DATA, ID: p.ID})
				if mut == "data-afterterm" && !termed[p.ID] {
					if rp.Send(&types.Packet{Type: types.PACKET_DATA, ID: p.ID, Data: []byte("late")}) == nil {
						lateSent.Store(true)
					}
				}
				termed[p.ID] = true
			case types.PACKET_FIN:
				rp.Send(&types.Packet{Type: types.PACKET_FIN})
				close(finSeen)
				rp.CloseWrite()
				return
			case types.PACKET_ERR:
				rp.CloseWrite()
				return
			}
		}
	}()
	sendErr := func() error {
		if finEarly {
			if err := rp.Send(&types.Packet{Type: types.PACKET_FIN}); err != nil {
				return err
			}
		}
		for i, st := range stats {
			if len(unsolicited) > 0 && i == k%(len(stats)+1) {
				for _, u := range unsolicited {
					if err := rp.Send(hostilePacket(u)); err != nil {
						return err
					}
				}
				unsolicited = nil
			}
			if err := rp.Send(&types.Packet{Type: types.PACKET_STAT, Stat: st}); err != nil {
				return err
			}
		}
		for _, u := range unsolicited {
			if err := rp.Send(hostilePacket(u)); err != nil {
				return err
			}
		}
		if err := rp.Send(&types.Packet{Type: types.PACKET_STAT}); err != nil {
			return err
		}
		if extraAfterEnd {
			rp.Send(&types.Packet{Type: types.PACKET_STAT, Stat: fileStat("zzzz-after-end")})
		}
		return nil
	}()
	_ = sendErr
	// if the receiver never sends FIN (it failed, or it is stuck) end the stream after a grace period
	go func() {
		// idle-based: the wall clock only ends the stream, it decides nothing
		last := int64(-1)
		for {
			select {
			case <-finSeen:
				return
			case <-time.After(700 * time.Millisecond):
			}
			cur := activity.Load()
			if cur == last {
				rp.CloseWrite()
				return
			}
			last = cur
		}
	}()
	res, crashed, timedOut, stderr := rp.Wait(20 * time.Second)
	rp.CloseWrite()
	rp.out.Close()
	wg.Wait()
	r.Count("scripts", 1)
	if timedOut {
		r.Count("receiver_hung_diagnostic", 1)
	}
	if crashed && !timedOut {
		r.Count("receiver_crashed_diagnostic", 1)
		r.AddSet("crash_mutations", mut)
	}
	_ = io.EOF

	// (1) containment
	after, err := snapOutside(caseDir, dest)
	if err != nil {
		r.Violate("outside-unreadable", "cannot snapshot the outside after the run: %v", err)
		return r
	}
	det := map[string]any{"mutation": mut, "mode": mode, "script": script, "prior": prior.Lines(), "receive_err": res.Err, "crashed": crashed, "stderr_tail": tailStr(stderr, 1500)}
	if d := diffOutside(before, after); len(d) > 0 {
		sig := "escape"
		if mut == "dotdot" || mut == "dot" {
			sig = "escape-dotdot"
		}
		r.ViolateD(sig, det, "the receiver touched something outside dest (mutation %s, mode %s):\n%s", mut, mode, strings.Join(trunc(d, 6), "\n"))
	}
	r.Count("outside_entries_compared", int64(len(before)))
	// (2) malformed => error, nothing at or after the first offence applied
	// DATA after the terminator of a requested id: the request ended with the
	// terminator, so this is content for an id that is not requested
	malformed := specK >= 0 || mut == "data-unsolicited" || lateSent.Load()
	if lateSent.Load() {
		r.Count("scripts_with_data_after_the_terminator", 1)
		if specK < 0 {
			specWhy = "content after the terminator of a requested id"
		}
	}
	if malformed {
		r.Count("malformed_scripts", 1)
		if res.OK && !crashed {
			r.ViolateD("malformed-accepted", det, "malformed stream (%s: %s at STAT %d) but Receive returned nil", mut, specWhy, specK)
		} else {
			r.Count("malformed_rejected", 1)
		}
	} else if res.OK {
		r.Count("wellformed_accepted", 1)
	}
	if specK >= 0 && !timedOut {
		destAfter, err := tree.Snapshot(dest, tree.SnapOpt{})
		if err == nil {
			earlier := map[string]bool{}
			for _, st := range stats[:specK] {
				earlier[st.Path] = true
			}
			for _, st := range stats[specK:] {
				p := st.Path
				if p != path.Clean(p) || strings.HasPrefix(p, "/") || p == "." || p == ".." || strings.HasPrefix(p, "../") || p == ".fsutil-metadata" || earlier[p] {
					continue
				}
				// skip when an ancestor was legitimately replaced before the offence
				skip := false
				for a := tree.Parent(p); a != ""; a = tree.Parent(a) {
					b, x := destBefore.Get(a), destAfter.Get(a)
					if (b == nil) != (x == nil) || (b != nil && (b.Ino != x.Ino || b.Type != x.Type)) {
						skip = true
					}
				}
				if skip {
					continue
				}
				b, x := destBefore.Get(p), destAfter.Get(p)
				r.Count("not_applied_checks", 1)
				switch {
				case b == nil && x != nil:
					r.ViolateD("applied-after-offence", det, "STAT %q comes at or after the first offending STAT (%d, %s) but was created in dest", p, specK, specWhy)
				case b != nil && x != nil && (b.Ino != x.Ino || noLink(b) != noLink(x)):
					r.ViolateD("applied-after-offence", det, "STAT %q comes at or after the first offending STAT (%d, %s) but dest entry changed: %s -> %s", p, specK, specWhy, b.String(), x.String())
				}
			}
		}
	}
	collides := false
	for _, st := range stats {
		if e := prior.Get(st.Path); e != nil && e.Type == tree.Symlink {
			collides = true
		}
	}
	r.Nontrivial = malformed || collides
	if mode == "metaonly" {
		r.Count("metadata_only_scripts", 1)
	}
	return r
}

func tailStr(s string, n int) string {
	if len(s) > n {
		return s[len(s)-n:]
	}
	return s
}

// noLink renders an entry without its link-group name (the group changes
// legitimately when another member was replaced before the offence).
func noLink(e *tree.Entry) string {
	c := *e
	c.LinkTo = ""
	return c.String()
}

func hostilePacket(u hpkt) *types.Packet {
	switch u.Kind {
	case "err":
		return &types.Packet{Type: types.PACKET_ERR, Data: u.Data}
	case "req":
		return &types.Packet{Type: types.PACKET_REQ, ID: u.ID}
	}
	return &types.Packet{Type: types.PACKET_DATA, ID: u.ID, Data: u.Data}
}

// setAppendOnly sets or clears the append-only attribute of a directory
// (chattr +a): entries can be created in it, not removed or renamed.
func setAppendOnly(dir string, on bool) error {
	fd, err := unix.Open(dir, unix.O_RDONLY|unix.O_DIRECTORY, 0)
	if err != nil {
		return err
	}
	defer unix.Close(fd)
	fl, err := unix.IoctlGetUint32(fd, unix.FS_IOC_GETFLAGS)
	if err != nil {
		return err
	}
	const appendFl = 0x20
	if on {
		fl |= appendFl
	} else {
		fl &^= appendFl
	}
	return unix.IoctlSetPointerInt(fd, unix.FS_IOC_SETFLAGS, int(fl))
}
