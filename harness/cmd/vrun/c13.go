package main

import (
	"context"
	"fmt"
	"os"
	"os/exec"
	"path"
	"path/filepath"
	"sort"
	"strings"
	"syscall"
	"time"

	"github.com/tonistiigi/fsutil"
	fs "github.com/tonistiigi/fsutil/copy"
	"golang.org/x/sys/unix"
	"verif/internal/core"
	"verif/internal/tree"
)

// C13: Copy preserves the tree like cp -a, under every option combination.
//
// Helpers shared with C16 (c16.go) live in this file: the change-notifier
// recorder, subtree re-rooting and the snapshot helpers.

// ---------------------------------------------------------------------------
// shared helpers (C13, C16)

type copyNotifyCall struct {
	Kind fsutil.ChangeKind
	Path string
	Dir  bool
}

// copyNotify records every call of the change notifier.
type copyNotify struct{ calls []copyNotifyCall }

func (n *copyNotify) fn(kind fsutil.ChangeKind, p string, fi os.FileInfo, err error) error {
	n.calls = append(n.calls, copyNotifyCall{Kind: kind, Path: p, Dir: fi != nil && fi.IsDir()})
	return nil
}

// normNotifyPath is the "leading-slash normalised" form of a notified path.
func normNotifyPath(p string) string {
	return path.Clean("/" + strings.TrimLeft(filepath.ToSlash(p), "/"))
}

func joinRel(a, b string) string {
	switch {
	case a == "":
		return b
	case b == "":
		return a
	}
	return a + "/" + b
}

// placeSubtree re-roots the part of snap at and below srcRel ("" = the whole
// tree, whose own root entry is rootEnt) at landing ("" = the destination
// root). The top entry itself is included only when withTop is set and
// landing is not the destination root. Link groups are cleared; callers
// recompute them with regroupAll() from the inode numbers of the snapshot.
func placeSubtree(snap *tree.Tree, rootEnt *tree.Entry, srcRel, landing string, withTop bool) []tree.Entry {
	var out []tree.Entry
	var top *tree.Entry
	if srcRel == "" {
		top = rootEnt
	} else {
		top = snap.Get(srcRel)
	}
	if top == nil {
		return nil
	}
	if withTop && landing != "" {
		c := top.Clone()
		c.Path = landing
		c.LinkTo = ""
		out = append(out, c)
	}
	if top.Type != tree.Dir {
		return out
	}
	for _, e := range snap.Entries {
		rel := e.Path
		if srcRel != "" {
			if !strings.HasPrefix(e.Path, srcRel+"/") {
				continue
			}
			rel = e.Path[len(srcRel)+1:]
		}
		c := e.Clone()
		c.Path = joinRel(landing, rel)
		c.LinkTo = ""
		out = append(out, c)
	}
	return out
}

// resolveScoped follows every symlink of p (the last one included) inside the
// tree, chroot-style (".." at the root stays at the root, absolute targets
// restart at the root, 40 links at most). ok=false: the path does not resolve
// to an existing entry. ambiguous=true: a ".." follows a symlink, a missing
// name or a non-directory, where a lexical resolver (which the statement does
// not exclude) ends somewhere else than the kernel would.
func resolveScoped(t *tree.Tree, p string) (final string, ok, ambiguous bool) {
	idx := t.Index()
	var cur []string
	pending := strings.Split(p, "/")
	links := 0
	for len(pending) > 0 {
		c := pending[0]
		pending = pending[1:]
		if c == "" || c == "." {
			continue
		}
		if c == ".." {
			if len(cur) > 0 {
				cur = cur[:len(cur)-1]
			}
			continue
		}
		nextDotDot := false
		for _, q := range pending {
			if q == "" || q == "." {
				continue
			}
			nextDotDot = q == ".."
			break
		}
		full := strings.Join(append(append([]string{}, cur...), c), "/")
		j, found := idx[full]
		if !found {
			return "", false, nextDotDot
		}
		e := &t.Entries[j]
		switch e.Type {
		case tree.Dir:
			cur = append(cur, c)
		case tree.Symlink:
			links++
			if links > 40 {
				return "", false, true
			}
			if nextDotDot {
				ambiguous = true
			}
			if strings.HasPrefix(e.Target, "/") {
				cur = nil
			}
			pending = append(strings.Split(e.Target, "/"), pending...)
		default:
			if len(pending) > 0 {
				return "", false, true
			}
			return full, true, ambiguous
		}
	}
	return strings.Join(cur, "/"), true, ambiguous
}

// ---------------------------------------------------------------------------
// symbolic mode evaluation with /bin/chmod

type modeKey struct {
	Type byte
	Perm uint32
}

// gnuChmod creates one scratch node per key (of the key's type, or a regular
// file when asFile is set) carrying the key's mode bits, runs
// `/bin/chmod -- <mode> nodes...` once with umask 0 and returns the resulting
// mode bits. Independent of fsutil and of its mode library.
func gnuChmod(scratch string, modeStr string, keys []modeKey, asFile bool) (map[modeKey]uint32, error) {
	if err := os.Mkdir(scratch, 0700); err != nil {
		return nil, err
	}
	defer os.RemoveAll(scratch)
	args := []string{"-c", `umask 0; exec /bin/chmod -- "$@"`, "sh", modeStr}
	var paths []string
	for i, k := range keys {
		p := filepath.Join(scratch, fmt.Sprintf("n%d", i))
		ty := k.Type
		if asFile {
			ty = tree.File
		}
		var err error
		switch ty {
		case tree.Dir:
			err = os.Mkdir(p, 0700)
		case tree.Fifo:
			err = unix.Mknod(p, unix.S_IFIFO|0600, 0)
		case tree.Char:
			err = unix.Mknod(p, unix.S_IFCHR|0600, int(unix.Mkdev(1, 3)))
		case tree.Block:
			err = unix.Mknod(p, unix.S_IFBLK|0600, int(unix.Mkdev(7, 0)))
		case tree.Sock:
			err = unix.Mknod(p, unix.S_IFSOCK|0600, 0)
		default:
			err = os.WriteFile(p, nil, 0600)
		}
		if err != nil {
			return nil, err
		}
		if err := unix.Fchmodat(unix.AT_FDCWD, p, k.Perm&07777, 0); err != nil {
			return nil, err
		}
		paths = append(paths, p)
		args = append(args, p)
	}
	if len(keys) == 0 {
		return map[modeKey]uint32{}, nil
	}
	cmd := exec.Command("/bin/sh", args...)
	cmd.Env = []string{"LC_ALL=C", "PATH=/bin:/usr/bin"}
	if out, err := cmd.CombinedOutput(); err != nil {
		return nil, fmt.Errorf("chmod %q: %v: %s", modeStr, err, strings.TrimSpace(string(out)))
	}
	res := map[modeKey]uint32{}
	for i, k := range keys {
		var st unix.Stat_t
		if err := unix.Lstat(paths[i], &st); err != nil {
			return nil, err
		}
		res[k] = st.Mode & 07777
	}
	return res, nil
}

// rewriteX resolves the conditional X of a symbolic mode by the POSIX text
// ("if the file is a directory or if the current (unmodified) file mode bits
// have at least one execute bit set"): x when cond, nothing otherwise.
func rewriteX(modeStr string, cond bool) string {
	if cond {
		return strings.ReplaceAll(modeStr, "X", "x")
	}
	return strings.ReplaceAll(modeStr, "X", "")
}

// symbolicAccept returns, per (type, original mode), the set of mode bits the
// statement admits for the requested symbolic mode. The evaluator is
// /bin/chmod. Two points where chmod implementations legitimately differ are
// admitted both ways: (1) X judged on the unmodified mode (POSIX, BSD) or on
// the mode as modified by earlier clauses (GNU); (2) set-id bits of
// directories not named in the request: kept (GNU) or treated as for files.
func symbolicAccept(dir string, modeStr string, keys []modeKey) (map[modeKey]map[uint32]bool, error) {
	acc := map[modeKey]map[uint32]bool{}
	add := func(k modeKey, v uint32) {
		if acc[k] == nil {
			acc[k] = map[uint32]bool{}
		}
		acc[k][v] = true
	}
	native, err := gnuChmod(filepath.Join(dir, "chmod-a"), modeStr, keys, false)
	if err != nil {
		return nil, err
	}
	var kx, knox, kdir []modeKey
	for _, k := range keys {
		if k.Type == tree.Dir || k.Perm&0111 != 0 {
			kx = append(kx, k)
		} else {
			knox = append(knox, k)
		}
		if k.Type == tree.Dir {
			kdir = append(kdir, k)
		}
	}
	posix := map[modeKey]uint32{}
	if strings.Contains(modeStr, "X") {
		a, err := gnuChmod(filepath.Join(dir, "chmod-b"), rewriteX(modeStr, true), kx, false)
		if err != nil {
			return nil, err
		}
		b, err := gnuChmod(filepath.Join(dir, "chmod-c"), rewriteX(modeStr, false), knox, false)
		if err != nil {
			return nil, err
		}
		for k, v := range a {
			posix[k] = v
		}
		for k, v := range b {
			posix[k] = v
		}
	} else {
		posix = native
	}
	asFile, err := gnuChmod(filepath.Join(dir, "chmod-d"), modeStr, kdir, true)
	if err != nil {
		return nil, err
	}
	// special bits the request does not name: chmod implementations differ on
	// whether '=' and permission copies clear them (GNU clears set-id bits
	// with u=/g=/a= and the sticky bit with o=/a=, BSD setmode keeps them;
	// POSIX leaves it implementation-defined): keeping the original bit is
	// admitted next to the evaluator's result
	var unnamed []uint32
	if !strings.Contains(modeStr, "s") {
		unnamed = append(unnamed, 04000, 02000)
	}
	if !strings.Contains(modeStr, "t") {
		unnamed = append(unnamed, 01000)
	}
	for _, k := range keys {
		for _, v := range []uint32{native[k], posix[k]} {
			vs := []uint32{v}
			if k.Type == tree.Dir {
				vs = append(vs, v&^06000|asFile[k]&06000)
			}
			for _, b := range unnamed {
				for _, x := range append([]uint32(nil), vs...) {
					vs = append(vs, x&^b|k.Perm&b)
				}
			}
			for _, x := range vs {
				add(k, x)
			}
		}
	}
	return acc, nil
}

var c13ClassicModes = []string{"a+X", "u=rwX,go=rX", "go-w", "u+s", "+t", "a=r", "g=u", "o=", "ug+x,o-rwx", "=rw,+X", "a-x", "u=rX,go=r", "g+s", "a=rwx", "o=g", "-w", "+x", "ug=rw,o=r", "g-s", "u-s"}

// genModeStr draws a symbolic mode from the part of the chmod grammar on
// which chmod implementations agree: who lists, + - =, rwxX, s with any who,
// t only with who omitted or 'a', permission copies (u/g/o) alone.
func genModeStr(r *core.Rand) string {
	if os.Getenv("VERIF_C13_STICKY_NOWHO") != "" && r.P(1, 6) {
		// opt-in probe of the reported mode-library quirk: with who omitted
		// a 't' next to other letters makes the library apply only the
		// sticky bit ("+rt" on 0600 gives 1600, chmod gives 1644)
		return core.Pick(r, []string{"+rt", "-wt", "+rwt", "+Xt", "u+x,+rt", "-rwt,u+r", "+xt,g-w"})
	}
	if r.P(1, 4) {
		return core.Pick(r, c13ClassicModes)
	}
	for i := 0; i < 50; i++ {
		if s := genModeStrRaw(r); modeStrAgreed(s) {
			return s
		}
	}
	return core.Pick(r, c13ClassicModes)
}

// modeStrAgreed keeps the request inside the region where "the requested
// symbolic mode" has one meaning. Whether a later '=' clears a special bit
// that an earlier operation of the same request set is where GNU chmod and
// BSD setmode (fsutil's mode library) part ways: GNU's '=' and permission
// copies clear the set-id bits of u/g and the sticky bit of o/a, BSD's copies
// clear rwx only and its '=' never clears the sticky bit. Requests that name
// 's' therefore carry no '=<copy>', requests that name 't' carry '=' only in
// operations that name 't' themselves.
func modeStrAgreed(s string) bool {
	hasS, hasT := strings.Contains(s, "s"), strings.Contains(s, "t")
	if !hasS && !hasT {
		return true
	}
	for _, cl := range strings.Split(s, ",") {
		cl = strings.TrimLeft(cl, "ugoa")
		for len(cl) > 0 {
			op := cl[0]
			j := 1
			for j < len(cl) && !strings.ContainsRune("+-=", rune(cl[j])) {
				j++
			}
			perms := cl[1:j]
			cl = cl[j:]
			if op != '=' {
				continue
			}
			if hasS && (perms == "u" || perms == "g" || perms == "o") {
				return false
			}
			if hasT && !strings.Contains(perms, "t") {
				return false
			}
		}
	}
	return true
}

func genModeStrRaw(r *core.Rand) string {
	n := r.Weighted([]int{5, 4, 2}) + 1
	var clauses []string
	for i := 0; i < n; i++ {
		who := core.Pick(r, []string{"", "a", "u", "g", "o", "ug", "go", "uo", "ugo"})
		s := who
		nops := 1
		if r.P(1, 6) {
			nops = 2
		}
		for j := 0; j < nops; j++ {
			op := core.Pick(r, []byte("+-="))
			s += string(op)
			if r.P(1, 7) {
				s += core.Pick(r, []string{"u", "g", "o"})
				continue
			}
			for _, c := range "rwx" {
				if r.P(1, 2) {
					s += string(c)
				}
			}
			if r.P(1, 3) && op != '-' {
				// "-X" has three meanings (POSIX: judged on the unmodified
				// mode, GNU: on the current mode, BSD: plain -x): not requested
				s += "X"
			}
			if r.P(1, 10) {
				s += "s"
			}
			if who == "a" && r.P(1, 8) {
				s += "t"
			}
		}
		if who == "" && r.P(1, 12) {
			// with who omitted the sticky bit is only requested on its own
			// (see the report: "+rt" loses the r in the BSD-derived mode library)
			s = core.Pick(r, []string{"+t", "-t"})
		}
		clauses = append(clauses, s)
	}
	return strings.Join(clauses, ",")
}

// ---------------------------------------------------------------------------
// xattr fault variant: a destination file system with a small xattr value limit

// c13BigXattrSizes are the oversized values of the fault variant; tmpfs (the
// source) stores them, a block-limited file system such as ext4 rejects them.
var c13BigXattrSizes = []int{4500, 8000, 20000}

var c13LimitedFS struct {
	probed bool
	base   string // "" = none found
	why    string
}

// limitedXattrBase looks (once per process) for a directory on a file system
// that stores small user.*/trusted.* values and ns/negative/far-future
// mtimes but rejects every oversized value.
func limitedXattrBase() (string, string) {
	st := &c13LimitedFS
	if st.probed {
		return st.base, st.why
	}
	st.probed = true
	bases := []string{"/var/tmp", "/tmp", "/root"}
	if v := os.Getenv("VERIF_C13_XFAULT_BASE"); v != "" {
		bases = strings.Split(v, ":")
	}
	for _, base := range bases {
		// destinations of children that died before their deferred cleanup
		if stale, _ := filepath.Glob(filepath.Join(base, "verif-c13-*")); len(stale) > 0 {
			for _, d := range stale {
				parts := strings.Split(filepath.Base(d), "-")
				if len(parts) < 4 {
					continue
				}
				if _, err := os.Stat("/proc/" + parts[2]); os.IsNotExist(err) {
					core.RemoveAllForce(d)
				}
			}
		}
		d, err := os.MkdirTemp(base, "verif-c13-probe-")
		if err != nil {
			st.why = err.Error()
			continue
		}
		ok := func() bool {
			defer os.RemoveAll(d)
			f := filepath.Join(d, "f")
			l := filepath.Join(d, "l")
			if os.WriteFile(f, nil, 0600) != nil || os.Symlink("x", l) != nil {
				return false
			}
			if unix.Lsetxattr(f, "user.xf", []byte("small"), 0) != nil || unix.Lsetxattr(f, "trusted.xf", []byte("small"), 0) != nil || unix.Lsetxattr(l, "trusted.xf", []byte("small"), 0) != nil || unix.Lsetxattr(d, "user.xf", make([]byte, 40), 0) != nil {
				st.why = base + ": small xattrs refused"
				return false
			}
			for _, n := range c13BigXattrSizes {
				for _, k := range []string{"user.xf", "trusted.xf"} {
					if unix.Lsetxattr(f, k, make([]byte, n), 0) == nil {
						st.why = fmt.Sprintf("%s stores a %d-byte %s value", base, n, k)
						return false
					}
				}
			}
			for _, ns := range tree.Mtimes {
				if tree.Lutimes(f, ns) != nil {
					return false
				}
				e, err := tree.LstatEntry(f, tree.SnapOpt{NoData: true})
				if err != nil || e.Mtime != ns {
					st.why = base + ": mtime granularity/range"
					return false
				}
			}
			if unix.Mknod(filepath.Join(d, "b"), unix.S_IFBLK|0600, int(unix.Mkdev(7, 0))) != nil || os.Lchown(f, 4000000000, 65534) != nil {
				st.why = base + ": mknod/chown refused"
				return false
			}
			return true
		}()
		if ok {
			st.base, st.why = base, ""
			return st.base, ""
		}
	}
	return "", st.why
}

// xattrProbe tells whether an independent lsetxattr of key=value on a fresh
// scratch node of the given type is refused by the file system of dir.
func xattrProbe(dir string, typ byte, key string, val []byte) (refused bool) {
	d, err := os.MkdirTemp(dir, "xp-")
	if err != nil {
		return false
	}
	defer os.RemoveAll(d)
	n := filepath.Join(d, "n")
	switch typ {
	case tree.Dir:
		err = os.Mkdir(n, 0700)
	case tree.Symlink:
		err = os.Symlink("x", n)
	default:
		err = os.WriteFile(n, nil, 0600)
	}
	if err != nil {
		return false
	}
	return unix.Lsetxattr(n, key, val, 0) != nil
}

type xehCall struct{ Dst, Src, Key string }

// regroupAll recomputes link groups from the (dev, inode) numbers the entries
// carry from the source snapshot, within the given entries only; unlike
// regroup (c09.go) it groups symlinks too: link(2) does not follow, several
// names of one symlink inode are a link group like any other.
func regroupAll(t *tree.Tree) {
	type key struct{ dev, ino uint64 }
	first := map[key]string{}
	for i := range t.Entries {
		e := &t.Entries[i]
		e.LinkTo = ""
		if e.Type == tree.Dir || e.Nlink < 2 {
			continue
		}
		k := key{e.Dev, e.Ino}
		if f, ok := first[k]; ok {
			e.LinkTo = f
		} else {
			first[k] = e.Path
		}
	}
}

// ---------------------------------------------------------------------------
// requested timestamps outside the int64-nanosecond window

const (
	c13MaxNsSec  = 9223372036  // 2262-04-11T23:47:16
	c13MaxNsNsec = 854775807   // last nanosecond an int64 ns count can hold
	c13MinNsSec  = -9223372037 // 1677-09-21T00:12:43
	c13MinNsNsec = 145224192   // first nanosecond an int64 ns count can hold
)

// genFarTime draws [sec, nsec] of an instant that time.Time.UnixNano cannot
// represent: the two instants just outside the window, years 2262..2400 and
// years 1500..1677 with random second and nanosecond.
func genFarTime(r *core.Rand) []int64 {
	y1500 := time.Date(1500, 1, 1, 0, 0, 0, 0, time.UTC).Unix()
	y2401 := time.Date(2401, 1, 1, 0, 0, 0, 0, time.UTC).Unix()
	switch r.Intn(8) {
	case 0:
		return []int64{c13MaxNsSec, c13MaxNsNsec + 1}
	case 1:
		return []int64{c13MinNsSec, c13MinNsNsec - 1}
	case 2, 3, 4:
		span := uint64(y2401 - (c13MaxNsSec + 1))
		return []int64{c13MaxNsSec + 1 + int64(r.U64()%span), int64(r.Intn(1_000_000_000))}
	default:
		span := uint64(c13MinNsSec - y1500)
		return []int64{y1500 + int64(r.U64()%span), int64(r.Intn(1_000_000_000))}
	}
}

// lstatPair reads the mtime of p as a (sec, nsec) pair, never through an
// int64 nanosecond count.
func lstatPair(p string) (int64, int64, error) {
	var st unix.Stat_t
	if err := unix.Lstat(p, &st); err != nil {
		return 0, 0, err
	}
	return int64(st.Mtim.Sec), int64(st.Mtim.Nsec), nil
}

// farTimeOnFS returns the (sec, nsec) an independent utimensat(2) with the
// requested pair leaves on a scratch node of the file system of dir, so that
// whatever clamping that file system applies is tolerated rather than guessed.
func farTimeOnFS(dir string, sec, nsec int64) (int64, int64, error) {
	d, err := os.MkdirTemp(dir, fmt.Sprintf("verif-c13-%d-ut-", os.Getpid()))
	if err != nil {
		return 0, 0, err
	}
	defer os.RemoveAll(d)
	f := filepath.Join(d, "n")
	if err := os.WriteFile(f, nil, 0600); err != nil {
		return 0, 0, err
	}
	ts := []unix.Timespec{{Sec: sec, Nsec: nsec}, {Sec: sec, Nsec: nsec}}
	if err := unix.UtimesNanoAt(unix.AT_FDCWD, f, ts, unix.AT_SYMLINK_NOFOLLOW); err != nil {
		return 0, 0, err
	}
	return lstatPair(f)
}

func shortLines(ls []string, n int) []string {
	out := make([]string, len(ls))
	for i, l := range ls {
		if len(l) > n {
			l = l[:n] + fmt.Sprintf("...(%d bytes)", len(l))
		}
		out[i] = l
	}
	return out
}

// snapTypeOf returns the source type of the entry that landed at dst path p.
func snapTypeOf(snap *tree.Tree, srcRel, landing, p string) byte {
	rel := p
	if landing != "" {
		if p == landing {
			rel = ""
		} else {
			rel = strings.TrimPrefix(p, landing+"/")
		}
	}
	if e := snap.Get(joinRel(srcRel, rel)); e != nil {
		return e.Type
	}
	return 0
}

// ---------------------------------------------------------------------------
// the case

type c13Plan struct {
	Variant  string `json:"variant"` // whole | subdir | file | symlink
	SrcRel   string `json:"src_entry"`
	Src      string `json:"src_arg"`
	Dst      string `json:"dst_arg"`
	DstForm  string `json:"dst_form"` // exist | new | newslash
	Contents bool   `json:"copy_dir_contents,omitempty"`
	Follow   bool   `json:"follow_links,omitempty"`
	Chown    []int  `json:"chown,omitempty"`
	Mode     *int   `json:"mode,omitempty"`
	ModeStr  string `json:"mode_str,omitempty"`
	Utime    *int64 `json:"utime_ns,omitempty"`
	// UtimeFar, if set, replaces Utime by an instant outside the window an
	// int64 nanosecond count can hold (1677-09-21 .. 2262-04-11): [sec, nsec]
	UtimeFar []int64 `json:"utime_far_sec_nsec,omitempty"`
	Xeh      string  `json:"xattr_error_handler"`   // nil | allow | strict (recording, returns the error) | record (recording, tolerant)
	XFault   bool    `json:"xattr_fault,omitempty"` // destination on a file system that rejects the oversized values
	XKey     string  `json:"xattr_fault_key,omitempty"`
	Notify   bool    `json:"notifier"`
	Umask    int     `json:"umask"`
}

func (p *c13Plan) optCombo() string {
	var o []string
	if p.Chown != nil {
		o = append(o, "chown")
	}
	if p.Mode != nil {
		o = append(o, "mode")
	}
	if p.ModeStr != "" {
		if strings.Contains(p.ModeStr, "X") {
			o = append(o, "modestrX")
		} else {
			o = append(o, "modestr")
		}
	}
	if p.UtimeFar != nil {
		o = append(o, "utimefar")
	} else if p.Utime != nil {
		o = append(o, "utime")
	}
	if p.Xeh != "nil" {
		o = append(o, "xeh="+p.Xeh)
	}
	if p.Notify {
		o = append(o, "notify")
	}
	if p.Follow {
		o = append(o, "follow")
	}
	if p.Contents {
		o = append(o, "contents")
	}
	if p.XFault {
		o = append(o, "xfault")
	}
	if len(o) == 0 {
		return "none"
	}
	return strings.Join(o, "+")
}

var c13NewNames = []string{"n1", "n 2", "é", "a-b", "~", ".hidden", "a", "Z"}

var c13Modes = []int{0, 0644, 0755, 0700, 0400, 0111, 0664, 04755, 02750, 01777, 06711, 07777, 0020}

func init() {
	core.Register(&core.Prop{
		ID:    "C13",
		Level: "exploration",
		Rule: "Source files with holes (1 case of 6, a third of the files: a hole up to the end made by truncate, a file that is one hole, data-hole-data; sizes 1 byte to 200000 beyond the data): the copy has the bytes a read of the source returns. Plus directed variants: wildcard+linkgroup (a link group spread over three wildcard matches landing in one directory, an unrelated - possibly prefix-named - file in between) and a destination root spelled '.' with the working directory inside the destination. random source trees (adversarial names incl. a 255-byte name, files around the 32KiB boundary, symlinks relative/absolute/dangling/looping, fifos, char and block devices, a few sockets, hard-link groups of regular files and of fifos/char devices, in 1 tree of 6 a hard-link group of 2-3 socket names and in 1 of 6 a hard-link group of 2-3 symlink names (dangling, relative, absolute targets; same or different directories), setuid/setgid/sticky, owners {0,1234,65534}, ns/negative/far-future mtimes, user.* xattrs on files and dirs, trusted.* xattrs on symlinks, random metadata on the source root itself, 1/8 of the directories without any execute bit, up to two extra symlinks whose absolute or relative target is an existing entry) are created on disk and copied with fs.Copy into an empty destination root; " +
			"source = {whole tree, one sub-directory, one file/fifo/device/socket, one symlink}; destination argument = {existing root, new nested path n1/n2/leaf, new nested directory n1/n2/}; flags = FollowLinks on/off, CopyDirContents on/off (directory sources), process umask {0,022,077}; in 1/8 of the cases (xattr fault variant) the destination root is a fresh directory on a file system that rejects oversized xattr values (probed at run time: /var/tmp, /tmp, /root or $VERIF_C13_XFAULT_BASE; the source stays on tmpfs), 1-3 entries carry a 4500/8000/20000-byte value of a key K in {user.xf, trusted.xf, user.k1}, at least two other files/dirs/symlinks (and sometimes the source root) carry the SAME key with 0-40 byte values at names sorting before and after the oversized ones, and the handler is AllowXAttrErrors or a recording tolerant handler (7/8) or an aborting one (1/8); " +
			"options drawn independently: WithChown (uid,gid from {0,1,1234,65534,4000000000}), Mode (octal incl. special bits) or ModeStr (symbolic: 20 classic forms and a grammar of 1-3 clauses of who-lists x 1-2 operations + - = x subsets of rwx, X (not after '-'), s, t (with who 'a', or alone as +t/-t), permission copies u/g/o), Utime (ns, negative, far future; in 1/12 of the Utime cases an instant OUTSIDE the window an int64 nanosecond count can hold: the two instants one nanosecond outside it, years 2262-2400, years 1500-1677, random second and nanosecond), XAttrErrorHandler {nil, allow, recording-strict, recording-tolerant}, change notifier on 7/8 of the cases. " +
			"Oracle: independent lstat/readlink/listxattr/bytes snapshot of the source, re-rooted at the landing path, with the option overrides applied, compared with the snapshot of the destination (type, bytes, symlink target, mode incl. special bits, uid/gid, ns mtime of files, symlinks and directories, xattrs, rdev, link groups recomputed from source inodes inside the copied subset); symbolic modes are evaluated by /bin/chmod on scratch nodes of the same type and original mode; directories created above the target must carry the requested owner and timestamp; when the landing path is the image of a source directory but existed before its contents were copied (the destination root, or a path created with MkdirAll for CopyDirContents / a trailing-slash destination) that directory's own ns mtime must equal the source directory's (or the requested Utime) - nothing else of it is judged; for a requested time outside the int64-ns window every copied entry (files, dirs, symlinks, specials), every directory created above the target and the landing directory are read with lstat as (sec, nsec) pairs and must equal the pair an independent utimensat(AT_SYMLINK_NOFOLLOW) of the requested (sec, nsec) leaves on a scratch node of the same destination file system (file-system clamping is thereby tolerated; the mtime columns of the generic diff are masked for these cases; a Copy that refuses such a time is counted, not judged); an xattr (entry, key) may be missing in the copy only if the recording handler was called for exactly that destination path and key, or - AllowXAttrErrors - an independent lsetxattr of that key/value on a scratch node of the destination file system is refused (a tolerated failure of one key does not excuse the other keys of the entry); every handler call must name a copied destination path and carry an error; the notifier must be called exactly once per non-directory with its leading-slash normalised destination path (calls for directories are counted, not judged). " +
			"non-trivial = Copy returned nil, at least one entry was copied and compared, and the copied subset holds a link group, special file, special mode bit, xattr or symlink, or at least one of chown/mode/modestr/utime is set; distinct by (tree, variant, destination form, option values) fingerprint",
		Assumptions: []string{
			"runs as root; source on tmpfs under /dev/shm (mknod, user.* and trusted.* xattrs, values up to 20000 bytes); outside the xattr fault variant the destination is on the same tmpfs and no xattr operation fails",
			"xattr fault variant: needs a second file system that stores small user.*/trusted.* values, ns/negative/far-future mtimes, device nodes and large uids but refuses 4500..20000-byte xattr values (ext4 does); if none is found the variant is skipped, counted (xfault_variant_skipped_no_limited_fs) and the case runs as an ordinary one; with an aborting (nil/strict) handler a failing Copy is accepted in this variant; small values are kept <= 40 bytes so that the per-inode xattr space of the destination is never the reason of a refusal",
			"the source is not modified during the copy; source and destination are separate directories on the same file system",
			"sockets are copied as stubs (code comment): an empty regular file or a socket is accepted, its owner/mode/mtime are still compared",
			"symbolic modes: /bin/chmod (GNU coreutils) run with umask 0 is the evaluator; where GNU and POSIX/BSD chmod legitimately differ both results are accepted: X after a clause that changed the execute bits (judged on the unmodified or on the current mode), set-id bits of directories not named in the request, and special bits not named in the request that an '=' or a permission copy may or may not clear",
			"symbolic requests outside the agreed region are not generated: '-X' (three meanings), 's' together with '=<copy>', 't' together with an '=' that does not name 't', and 't' next to other letters when who is omitted ('+rt': the BSD-derived mode library applies only the sticky bit - reported, not demanded)",
			"FollowLinks on a symlink source: the expected source entry is computed by a chroot-style resolver on the model; dangling, looping or '..'-after-symlink chains are not judged (any outcome accepted, counted)",
			"link groups are judged for every non-directory type, symlinks included (both snapshots are taken with SymlinkGroups); the destination is fresh, so an inode of the copy must have exactly as many names as its group has inside the copied subset",
		},
		Cases: func(tier string) int {
			if tier == "thorough" {
				return 400000
			}
			return 4000
		},
		Batch:         100,
		MinNontrivial: func(tier string) int { return 1000 },
		Run:           c13Run,
	})
}

func c13GenPlan(R *core.Rand, snap *tree.Tree) *c13Plan {
	p := &c13Plan{}
	var dirs, nondirs, links []string
	for _, e := range snap.Entries {
		switch e.Type {
		case tree.Dir:
			dirs = append(dirs, e.Path)
		case tree.Symlink:
			links = append(links, e.Path)
		default:
			nondirs = append(nondirs, e.Path)
		}
	}
	p.Variant = []string{"whole", "subdir", "file", "symlink"}[R.Weighted([]int{8, 3, 3, 3})]
	switch {
	case p.Variant == "subdir" && len(dirs) > 0:
		p.SrcRel = core.Pick(R, dirs)
	case p.Variant == "file" && len(nondirs) > 0:
		p.SrcRel = core.Pick(R, nondirs)
	case p.Variant == "symlink" && len(links) > 0:
		p.SrcRel = core.Pick(R, links)
	default:
		p.Variant = "whole"
	}
	if p.Variant == "whole" {
		p.Src = core.Pick(R, []string{"/", ".", "/."})
	} else {
		p.Src = p.SrcRel
		if R.P(1, 3) {
			p.Src = "/" + p.Src
		}
	}
	p.Follow = R.P(1, 2)
	if p.Variant != "symlink" {
		p.Follow = R.P(1, 4)
	}
	if (p.Variant == "whole" || p.Variant == "subdir") && R.P(1, 4) {
		p.Contents = true
	}
	p.DstForm = []string{"exist", "new", "newslash"}[R.Weighted([]int{5, 4, 2})]
	switch p.DstForm {
	case "exist":
		p.Dst = core.Pick(R, []string{"/", "."})
	default:
		n := R.Range(1, 3)
		nm := append([]string(nil), c13NewNames...)
		core.Shuffle(R, nm)
		p.Dst = strings.Join(nm[:n], "/")
		if R.P(1, 3) {
			p.Dst = "/" + p.Dst
		}
		if p.DstForm == "newslash" {
			p.Dst += "/"
		}
	}
	if R.P(1, 3) {
		ids := []int{0, 1, 1234, 65534, 4000000000}
		p.Chown = []int{core.Pick(R, ids), core.Pick(R, ids)}
	}
	switch R.Intn(6) {
	case 0:
		m := core.Pick(R, c13Modes)
		p.Mode = &m
	case 1, 2:
		p.ModeStr = genModeStr(R)
	}
	if R.P(1, 3) {
		var ns int64
		if R.P(1, 2) {
			ns = core.Pick(R, tree.Mtimes)
		} else {
			ns = int64(1_000_000_000+R.Intn(700_000_000))*1_000_000_000 + int64(R.Intn(1_000_000_000))
		}
		p.Utime = &ns
		if R.P(1, 12) {
			p.UtimeFar = genFarTime(R)
		}
	}
	p.Xeh = []string{"nil", "allow", "strict", "record"}[R.Weighted([]int{3, 1, 2, 1})]
	p.Notify = !R.P(1, 8)
	p.Umask = core.Pick(R, []int{0, 022, 077})
	return p
}

// c13WildUtime: one call with several wildcard matches and a requested time
// stamp (and owner): every copied entry and every directory the call created
// above the target carries them, whichever match caused its creation.
func c13WildUtime(c *core.Ctx, r *core.Result, R *core.Rand) *core.Result {
	src, dst := filepath.Join(c.Dir, "src"), filepath.Join(c.Dir, "dst")
	t := &tree.Tree{}
	add := func(p string, typ byte, data string) {
		t.Entries = append(t.Entries, tree.Entry{Path: p, Type: typ, Perm: map[byte]uint32{tree.Dir: 0755}[typ] | 0644, Mtime: 1_100_000_000_000_000_000 + int64(len(t.Entries)), Data: []byte(data)})
	}
	add("in", tree.Dir, "")
	names := []string{"a-dir", "b-file", "c-dir", "d-file", "e-dir"}
	n := R.Range(2, 5)
	for _, nm := range names[:n] {
		if strings.HasSuffix(nm, "-dir") {
			add("in/"+nm, tree.Dir, "")
			add("in/"+nm+"/sub-"+nm, tree.Dir, "")
			add("in/"+nm+"/sub-"+nm+"/x", tree.File, nm)
			add("in/"+nm+"/y-"+nm, tree.File, nm)
		} else {
			add("in/"+nm, tree.File, nm)
		}
	}
	os.Mkdir(src, 0755)
	os.Mkdir(dst, 0755)
	if err := tree.Materialise(src, t); err != nil {
		r.Inconclusive = "materialise: " + err.Error()
		return r
	}
	tm := time.Unix(int64(1_200_000_000+R.Intn(100_000_000)), int64(R.Intn(1_000_000_000)))
	// (without CopyDirContents the first directory match becomes the not yet
	// existing destination itself and later matches are written into that
	// copied entry: the statement does not say whose time stamp it keeps)
	contents := true
	dstArg := core.Pick(R, []string{"new/out", "new", "new/out/deeper", "/new/out/"})
	ci := fs.CopyInfo{AllowWildcards: true, CopyDirContents: contents, Utime: &tm}
	opts := []fs.Opt{fs.WithCopyInfo(ci)}
	var own []int
	if R.P(1, 2) {
		own = []int{1234, 4321}
		opts = append(opts, fs.WithChown(own[0], own[1]))
	}
	pat := core.Pick(R, []string{"in/*", "in/?-*", "in/[a-e]*"})
	r.Sample = map[string]any{"variant": "wildcard+utime", "tree": t.Lines(), "src": pat, "dst": dstArg, "contents": contents, "utime": tm.UTC().Format(time.RFC3339Nano), "chown": own}
	r.FP = fmt.Sprintf("wild-utime|%d|%s|%s|%v|%v", n, pat, dstArg, contents, own)
	r.AddSet("variants", "wildcard+utime")
	r.Nontrivial = true
	if err := fs.Copy(context.Background(), src, pat, dst, dstArg, opts...); err != nil {
		r.ViolateD("copy-failed", r.Sample, "wildcard copy with a requested time stamp failed: %v", err)
		return r
	}
	r.Count("copies", 1)
	r.Count("wildcard_copies_with_utime", 1)
	checked := 0
	filepath.Walk(dst, func(p string, fi os.FileInfo, err error) error {
		if err != nil || p == dst {
			return nil
		}
		rel, _ := filepath.Rel(dst, p)
		sec, nsec, e := lstatPair(p)
		if e != nil {
			return nil
		}
		checked++
		if sec != tm.Unix() || nsec != int64(tm.Nanosecond()) {
			r.ViolateD("utime-not-applied", r.Sample, "%q (%s) carries mtime %s, requested %s (src %q, %d matches, dst %q)", "/"+rel, fi.Mode().Type(), time.Unix(sec, nsec).UTC().Format(time.RFC3339Nano), tm.UTC().Format(time.RFC3339Nano), pat, n, dstArg)
		}
		if st, ok := fi.Sys().(*syscall.Stat_t); ok && own != nil && (int(st.Uid) != own[0] || int(st.Gid) != own[1]) {
			r.ViolateD("chown-not-applied", r.Sample, "%q is owned by %d:%d, requested %d:%d", "/"+rel, st.Uid, st.Gid, own[0], own[1])
		}
		return nil
	})
	r.Count("wildcard_utime_entries_checked", int64(checked))
	return r
}

// c13WildLinks: a link group spread over several wildcard matches whose
// contents land in one destination directory, an unrelated file written
// between two of its names (its name may be a prefix of the first one).
func c13WildLinks(c *core.Ctx, r *core.Result, R *core.Rand) *core.Result {
	src, dst := filepath.Join(c.Dir, "src"), filepath.Join(c.Dir, "dst")
	n1 := core.Pick(R, []string{"f10", "ab", "x.y", "a b", "n-1"})
	n2 := core.Pick(R, []string{n1[:len(n1)-1], n1[:1], "zz", n1 + "0"})
	n3 := core.Pick(R, []string{"g", n1 + ".lnk", "0"})
	t := &tree.Tree{}
	mt := int64(1_100_000_000_000_000_000)
	for _, d := range []string{"in", "in/d1", "in/d2", "in/d3"} {
		t.Entries = append(t.Entries, tree.Entry{Path: d, Type: tree.Dir, Perm: 0755, Mtime: mt})
	}
	t.Entries = append(t.Entries,
		tree.Entry{Path: "in/d1/" + n1, Type: tree.File, Perm: 0644, Mtime: mt + 1, Data: []byte("the group's bytes")},
		tree.Entry{Path: "in/d2/" + n2, Type: tree.File, Perm: 0600, Mtime: mt + 2, Data: []byte("unrelated")},
		tree.Entry{Path: "in/d3/" + n3, Type: tree.File, Perm: 0644, Mtime: mt + 1, Data: []byte("the group's bytes"), LinkTo: "in/d1/" + n1})
	t.Sort()
	os.Mkdir(src, 0755)
	os.Mkdir(dst, 0755)
	if err := tree.Materialise(src, t); err != nil {
		r.Inconclusive = "materialise: " + err.Error()
		return r
	}
	dstArg := core.Pick(R, []string{"out", "new/out", "/out/"})
	r.Sample = map[string]any{"variant": "wildcard+linkgroup", "tree": t.Lines(), "src": "in/*", "dst": dstArg}
	r.FP = fmt.Sprintf("wild-links|%s|%s|%s|%s", n1, n2, n3, dstArg)
	r.AddSet("variants", "wildcard+linkgroup")
	r.Nontrivial = true
	if err := fs.Copy(context.Background(), src, "in/*", dst, dstArg, fs.WithCopyInfo(fs.CopyInfo{AllowWildcards: true, CopyDirContents: true})); err != nil {
		r.ViolateD("copy-failed", r.Sample, "wildcard copy of three directories failed: %v", err)
		return r
	}
	r.Count("copies", 1)
	r.Count("wildcard_copies_with_a_link_group_spread_over_matches", 1)
	out := filepath.Join(dst, strings.Trim(dstArg, "/"))
	ino := map[string]uint64{}
	for nm, want := range map[string]string{n1: "the group's bytes", n2: "unrelated", n3: "the group's bytes"} {
		b, err := os.ReadFile(filepath.Join(out, nm))
		if err != nil || string(b) != want {
			r.ViolateD("copy-diverged", r.Sample, "%q holds %q (%v), the source file holds %q", nm, b, err, want)
			return r
		}
		var st syscall.Stat_t
		if syscall.Lstat(filepath.Join(out, nm), &st) == nil {
			ino[nm] = st.Ino
		}
	}
	if ino[n1] != ino[n3] {
		r.ViolateD("linkgroup-lost", r.Sample, "%q and %q share an inode in the source (matches d1 and d3 of in/*), their copies do not (unrelated %q was written between them)", n1, n3, n2)
	}
	if ino[n2] == ino[n1] {
		r.ViolateD("linkgroup-invented", r.Sample, "%q shares an inode with %q in the copy only", n2, n1)
	}
	return r
}

func c13Run(c *core.Ctx) *core.Result {
	r := &core.Result{}
	if !needRoot(r) {
		return r
	}
	if wr := core.NewRand(core.Mix(c.Seed, "C13-wild-links", c.Index)); wr.P(1, 25) {
		return c13WildLinks(c, r, wr)
	}
	if wr := core.NewRand(core.Mix(c.Seed, "C13-wild-utime", c.Index)); wr.P(1, 20) {
		return c13WildUtime(c, r, wr)
	}
	R := c.R
	o := tree.DefaultOpt()
	o.SpecLinks = true
	o.SymXattrs = true
	o.Big = R.P(1, 10)
	t := tree.Gen(R, o)
	for i := range t.Entries {
		e := &t.Entries[i]
		if e.Type == tree.Fifo && e.LinkTo == "" && t.GroupOf(e.Path) == "" && R.P(1, 5) {
			e.Type = tree.Sock
		}
	}
	// the generator's directories always carry u+x; the X rule of symbolic
	// modes is only observable on directories without any execute bit
	for i := range t.Entries {
		e := &t.Entries[i]
		if e.Type == tree.Dir && R.P(1, 8) {
			e.Perm = e.Perm&07000 | core.Pick(R, []uint32{0600, 0644, 0000, 0400, 0660})
		}
	}
	// an access ACL on a file or directory (the attribute that holds it
	// rewrites the permission bits when it is set): with a requested mode the
	// copy carries that mode, not what the source's ACL says
	if ar := core.NewRand(core.Mix(c.Seed, "C13-acl", c.Index)); ar.P(1, 12) {
		for i := range t.Entries {
			e := &t.Entries[i]
			if (e.Type == tree.File || e.Type == tree.Dir) && e.LinkTo == "" && t.GroupOf(e.Path) == "" && ar.P(1, 3) {
				if e.Xattrs == nil {
					e.Xattrs = map[string][]byte{}
				}
				e.Xattrs["system.posix_acl_access"] = c13ACL(e.Perm, uint32(1000+ar.Intn(3)), uint16(ar.Intn(8)))
				r.Count("source_entries_with_an_access_acl", 1)
			}
		}
	}
	// the generator's symlink targets rarely resolve: add a few that do
	// (absolute = scoped to the source root, or relative to the link's parent)
	if len(t.Entries) > 0 && R.P(2, 3) {
		for n := R.Range(1, 2); n > 0; n-- {
			tg := core.Pick(R, t.Entries)
			dirs := dirsOf(t)
			d := core.Pick(R, dirs)
			lp := joinRel(d, core.Pick(R, []string{"lnk", "lnk2", "a.lnk2"}))
			if t.Get(lp) != nil || len(lp) > 900 {
				continue
			}
			target := "/" + tg.Path
			if R.P(1, 2) {
				target = tg.Path
				if d != "" {
					target = strings.Repeat("../", strings.Count(d, "/")+1) + tg.Path
				}
			}
			le := tree.Entry{Path: lp, Type: tree.Symlink, Perm: 0777, Target: target, UID: core.Pick(R, o.Owners), GID: core.Pick(R, o.Owners), Mtime: core.Pick(R, tree.Mtimes)}
			t.Put(le)
		}
	}
	// ---- hard-link groups of sockets and of symlinks (1 tree in 6 each): 2-3
	// names of one inode, in the same or in different directories. The model
	// expresses them with LinkTo; Materialise creates them with link(2), which
	// does not follow a symlink.
	{
		lgR := R.Fork()
		addGroup := func(first tree.Entry, names []string) {
			if t.Get(first.Path) == nil {
				t.Put(first)
			}
			dirs := dirsOf(t)
			for i, n := 0, lgR.Range(1, 2); i < n; i++ {
				d := core.Pick(lgR, dirs)
				if lgR.P(1, 2) {
					d = tree.Parent(first.Path)
				}
				mp := joinRel(d, names[i])
				if t.Get(mp) != nil || len(mp) > 900 {
					continue
				}
				m := first.Clone()
				m.Path = mp
				m.LinkTo = first.Path
				t.Put(m)
			}
		}
		pickFree := func(typ byte) *tree.Entry {
			var c []int
			for i := range t.Entries {
				e := &t.Entries[i]
				if e.Type == typ && e.LinkTo == "" && t.GroupOf(e.Path) == "" {
					c = append(c, i)
				}
			}
			if len(c) == 0 || lgR.P(1, 2) {
				return nil
			}
			return &t.Entries[core.Pick(lgR, c)]
		}
		if lgR.P(1, 6) {
			first := tree.Entry{Path: joinRel(core.Pick(lgR, dirsOf(t)), "sock"), Type: tree.Sock, Perm: core.Pick(lgR, []uint32{0755, 0600, 0660, 04711}), UID: core.Pick(lgR, o.Owners), GID: core.Pick(lgR, o.Owners), Mtime: core.Pick(lgR, tree.Mtimes)}
			if e := pickFree(tree.Sock); e != nil {
				first = e.Clone()
			}
			if len(first.Path) < 900 {
				addGroup(first, []string{core.Pick(lgR, []string{"!sock.hl", "sock.hl", "~sock.hl"}), "sock.hl2"})
			}
		}
		if lgR.P(1, 6) {
			tg := "does-not-exist"
			if len(t.Entries) > 0 {
				x := core.Pick(lgR, t.Entries)
				tg = core.Pick(lgR, []string{"does-not-exist", "/" + x.Path, tree.Base(x.Path), "../" + tree.Base(x.Path), ".", "/no/such/abs"})
			}
			first := tree.Entry{Path: joinRel(core.Pick(lgR, dirsOf(t)), "sl"), Type: tree.Symlink, Perm: 0777, Target: tg, UID: core.Pick(lgR, o.Owners), GID: core.Pick(lgR, o.Owners), Mtime: core.Pick(lgR, tree.Mtimes)}
			if lgR.P(1, 4) {
				first.Xattrs = map[string][]byte{"trusted.vx": lgR.Bytes(5)}
			}
			if e := pickFree(tree.Symlink); e != nil {
				first = e.Clone()
			}
			if len(first.Path) < 900 {
				addGroup(first, []string{core.Pick(lgR, []string{"!sl.hl", "sl.hl", "~sl.hl"}), "sl.hl2"})
			}
		}
		t.Sort()
		t.Recanon()
	}
	// ---- xattr fault variant (1/8 of the cases): the destination root is put
	// on a file system that rejects oversized xattr values; the tree gets one
	// or two entries whose value of key K is oversized and other entries that
	// carry the SAME key with small values; the handler is tolerant (allow or
	// recording) in 7/8 of these cases, aborting in the rest
	xfWant := R.P(1, 8)
	xfKey := core.Pick(R, []string{"user.xf", "trusted.xf", "user.k1"})
	xfR := R.Fork()
	xfault := false
	xfBase := ""
	if xfWant {
		var why string
		xfBase, why = limitedXattrBase()
		if xfBase == "" {
			r.Count("xfault_variant_skipped_no_limited_fs", 1)
			r.AddSet("xfault_skip_reasons", why)
		} else {
			xfault = true
		}
	}
	if xfault {
		carrier := func(e *tree.Entry) bool {
			if e.LinkTo != "" || t.GroupOf(e.Path) != "" {
				return false
			}
			if strings.HasPrefix(xfKey, "trusted.") && e.Type == tree.Symlink {
				return true
			}
			return e.Type == tree.File || e.Type == tree.Dir
		}
		var cands []int
		for i := range t.Entries {
			if carrier(&t.Entries[i]) {
				cands = append(cands, i)
			}
		}
		core.Shuffle(xfR, cands)
		setX := func(e *tree.Entry, v []byte) {
			if e.Xattrs == nil {
				e.Xattrs = map[string][]byte{}
			}
			e.Xattrs[xfKey] = v
		}
		nbig := xfR.Range(1, 2)
		nsmall := 0
		for k, i := range cands {
			e := &t.Entries[i]
			switch {
			case k < nbig && k < len(cands)-2:
				setX(e, xfR.Bytes(core.Pick(xfR, c13BigXattrSizes)))
			case xfR.P(2, 3):
				setX(e, xfR.Bytes(core.Pick(xfR, []int{0, 1, 7, 40})))
				nsmall++
			}
		}
		// make sure there is an oversized carrier and two small ones, at
		// names that sort before, between and after the others
		dirs := dirsOf(t)
		addFile := func(name string, v []byte) {
			d := core.Pick(xfR, dirs)
			p := joinRel(d, name)
			if t.Get(p) != nil || len(p) > 900 {
				return
			}
			t.Put(tree.Entry{Path: p, Type: tree.File, Perm: 0644, UID: core.Pick(xfR, o.Owners), GID: core.Pick(xfR, o.Owners), Mtime: core.Pick(xfR, tree.Mtimes), Data: xfR.Bytes(9), Xattrs: map[string][]byte{xfKey: v}})
		}
		addFile(core.Pick(xfR, []string{"!big", "Mbig", "zbig"}), xfR.Bytes(core.Pick(xfR, c13BigXattrSizes)))
		for nsmall < 2 {
			addFile(core.Pick(xfR, []string{"!small", "Msmall", "zsmall", "~small"}), xfR.Bytes(core.Pick(xfR, []int{1, 7, 40})))
			nsmall++
		}
	}
	srcDir := filepath.Join(c.Dir, "src")
	dstDir := filepath.Join(c.Dir, core.Pick(core.NewRand(core.Mix(c.Seed, "C13-root-names", c.Index)), []string{"dst", "src-dst"}))
	os.Mkdir(srcDir, 0755)
	if xfault {
		d, err := os.MkdirTemp(xfBase, fmt.Sprintf("verif-c13-%d-", os.Getpid()))
		if err != nil {
			r.Inconclusive = "xfault destination: " + err.Error()
			return r
		}
		dstDir = d
		defer core.RemoveAllForce(d)
		os.Chmod(dstDir, 0755)
	} else {
		os.Mkdir(dstDir, 0755)
	}
	if core.NewRand(core.Mix(c.Seed, "C13-setgid-dest", c.Index)).P(1, 4) {
		// a shared project directory: new entries below it inherit its group
		// (and new directories the bit), whatever the process's own group is
		os.Lchown(dstDir, 0, 4321)
		os.Chmod(dstDir, 0775|os.ModeSetgid)
		r.Count("destinations_with_setgid_bit_and_foreign_group", 1)
	}
	if err := tree.Materialise(srcDir, t); err != nil {
		r.Inconclusive = "materialise: " + err.Error()
		return r
	}
	// the source root carries metadata of its own
	rootMeta := tree.Entry{Type: tree.Dir, Perm: core.Pick(R, []uint32{0755, 0700, 0775, 0711, 02755, 01777, 0750}), UID: core.Pick(R, o.Owners), GID: core.Pick(R, o.Owners), Mtime: core.Pick(R, tree.Mtimes)}
	if R.P(1, 2) {
		rootMeta.Mtime = int64(1_000_000_000+R.Intn(700_000_000))*1_000_000_000 + int64(R.Intn(1_000_000_000))
	}
	if R.P(1, 3) {
		rootMeta.Xattrs = map[string][]byte{"user.root": R.Bytes(6)}
	}
	if xfault && xfR.P(1, 3) {
		if rootMeta.Xattrs == nil {
			rootMeta.Xattrs = map[string][]byte{}
		}
		rootMeta.Xattrs[xfKey] = xfR.Bytes(5)
	}
	// mount points inside the source: two fresh tmpfs instances hand out the
	// same inode numbers; files of one must not be linked to files of the other
	if core.NewRand(core.Mix(c.Seed, "C13-mounts", c.Index)).P(1, 40) && src9Free(t) {
		mounted := []string{}
		for _, nm := range []string{"zm1", "zm2"} {
			d := filepath.Join(srcDir, nm)
			if os.Mkdir(d, 0755) != nil || unix.Mount("tmpfs", d, "tmpfs", 0, "size=1m") != nil {
				break
			}
			mounted = append(mounted, d)
		}
		defer func() {
			for _, d := range mounted {
				unix.Unmount(d, unix.MNT_DETACH)
			}
		}()
		if len(mounted) == 2 {
			os.WriteFile(filepath.Join(mounted[0], "a"), []byte("ONE"), 0644)
			os.Link(filepath.Join(mounted[0], "a"), filepath.Join(mounted[0], "a2"))
			os.WriteFile(filepath.Join(mounted[0], "c"), []byte("ONE-C"), 0600)
			os.WriteFile(filepath.Join(mounted[1], "a"), []byte("TWO-TWO"), 0644)
			os.Link(filepath.Join(mounted[1], "a"), filepath.Join(mounted[1], "b"))
			os.WriteFile(filepath.Join(mounted[1], "c"), []byte("TWO-C"), 0600)
			os.Link(filepath.Join(mounted[1], "c"), filepath.Join(mounted[1], "d"))
			r.Count("sources_with_two_mounted_file_systems", 1)
		}
	}
	// sparse files: a hole at the end (truncate beyond the data), a file that
	// is one hole, a hole between data. The bytes are what a read returns;
	// time stamps are put back, the snapshot below is taken afterwards.
	if sr := core.NewRand(core.Mix(c.Seed, "C13-sparse", c.Index)); sr.P(1, 6) {
		for i := range t.Entries {
			e := &t.Entries[i]
			if e.Type != tree.File || !sr.P(1, 3) {
				continue
			}
			full := filepath.Join(srcDir, e.Path)
			var st unix.Stat_t
			if unix.Lstat(full, &st) != nil {
				continue
			}
			size := st.Size + int64(core.Pick(sr, []int{1, 4095, 4096, 4097, 70000, 200000}))
			switch sr.Intn(3) {
			case 0: // data, then a hole up to the end
				unix.Truncate(full, size)
			case 1: // nothing but a hole
				unix.Truncate(full, 0)
				unix.Truncate(full, size)
			default: // data, hole, data
				if f, err := os.OpenFile(full, os.O_WRONLY, 0); err == nil {
					f.WriteAt([]byte("tail-after-hole"), size)
					f.Close()
				}
			}
			unix.Chmod(full, st.Mode&07777)
			unix.UtimesNanoAt(unix.AT_FDCWD, full, []unix.Timespec{st.Atim, st.Mtim}, unix.AT_SYMLINK_NOFOLLOW)
			r.Count("source_files_with_holes", 1)
		}
	}
	if err := tree.ApplyMeta(srcDir, &rootMeta); err != nil {
		r.Inconclusive = "root metadata: " + err.Error()
		return r
	}
	snap, err := tree.Snapshot(srcDir, tree.SnapOpt{SymlinkGroups: true})
	if err != nil {
		r.Inconclusive = "snapshot src: " + err.Error()
		return r
	}
	rootEnt, err := tree.LstatEntry(srcDir, tree.SnapOpt{})
	if err != nil {
		r.Inconclusive = "lstat src: " + err.Error()
		return r
	}
	p := c13GenPlan(R, snap)
	if xfault {
		p.XFault, p.XKey = true, xfKey
		if p.Variant != "whole" && xfR.P(2, 3) {
			p.Variant, p.SrcRel, p.Src = "whole", "", core.Pick(xfR, []string{"/", ".", "/."})
		}
		p.Xeh = []string{"allow", "record", "strict", "nil"}[xfR.Weighted([]int{7, 7, 1, 1})]
	}

	// ---- expected source entry (FollowLinks) and landing path
	srcRel := p.SrcRel
	judge := true // false: outcome not fixed by the statement
	if p.Variant == "symlink" && p.Follow {
		fin, ok, amb := resolveScoped(snap, p.SrcRel)
		if !ok || amb {
			judge = false
			r.Count("follow_chains_not_judged", 1)
		} else {
			srcRel = fin
			r.Count("follow_chains_resolved", 1)
		}
	}
	var top *tree.Entry
	if srcRel == "" {
		top = rootEnt
	} else {
		top = snap.Get(srcRel)
	}
	srcIsDir := top != nil && top.Type == tree.Dir
	base := filepath.Base(p.Src)
	if base == "/" || base == "." {
		base = ""
	}
	dstClean := strings.Trim(path.Clean("/"+p.Dst), "/")
	var parents []string // directories the call creates itself (MkdirAll)
	addParents := func(d string, inclusive bool) {
		comps := strings.Split(d, "/")
		n := len(comps)
		if !inclusive {
			n--
		}
		for i := 1; i <= n; i++ {
			parents = append(parents, strings.Join(comps[:i], "/"))
		}
	}
	landing := ""
	withTop := false
	switch p.DstForm {
	case "exist":
		if srcIsDir && p.Contents {
			landing = ""
		} else {
			landing = base
			withTop = landing != ""
		}
	case "new":
		landing = dstClean
		if srcIsDir && p.Contents {
			addParents(dstClean, true)
		} else {
			addParents(dstClean, false)
			withTop = true
		}
	case "newslash":
		addParents(dstClean, true)
		if srcIsDir && p.Contents {
			landing = dstClean
		} else {
			landing = joinRel(dstClean, base)
			withTop = base != ""
		}
	}

	exp := &tree.Tree{}
	if judge {
		exp.Entries = placeSubtree(snap, rootEnt, srcRel, landing, withTop)
		exp.Sort()
		regroupAll(exp)
	}
	sample := map[string]any{"plan": p, "landing": landing, "tree": shortLines(trunc(snap.Lines(), 40), 300), "src_root": shortLines([]string{rootEnt.String()}, 300)[0]}
	r.Sample = sample
	r.AddSet("option_combos", p.optCombo())
	r.AddSet("variants", fmt.Sprintf("%s/%s/follow=%v/contents=%v", p.Variant, p.DstForm, p.Follow, p.Contents))

	// ---- run
	ci := fs.CopyInfo{FollowLinks: p.Follow, CopyDirContents: p.Contents, Mode: p.Mode, ModeStr: p.ModeStr}
	if p.Utime != nil {
		sec := *p.Utime / 1e9
		nsec := *p.Utime % 1e9
		if nsec < 0 {
			sec--
			nsec += 1e9
		}
		tm := time.Unix(sec, nsec)
		if p.UtimeFar != nil {
			tm = time.Unix(p.UtimeFar[0], p.UtimeFar[1])
			if tm.Unix() != p.UtimeFar[0] || int64(tm.Nanosecond()) != p.UtimeFar[1] {
				r.Inconclusive = "far time not representable as time.Time"
				return r
			}
		}
		ci.Utime = &tm
	}
	far := p.UtimeFar != nil
	opts := []fs.Opt{fs.WithCopyInfo(ci)}
	if p.Chown != nil {
		opts = append(opts, fs.WithChown(p.Chown[0], p.Chown[1]))
	}
	nrec := &copyNotify{}
	if p.Notify {
		opts = append(opts, fs.WithChangeNotifier(nrec.fn))
	}
	var xehCalls []xehCall
	xehNilErr := 0
	switch p.Xeh {
	case "allow":
		opts = append(opts, fs.AllowXAttrErrors)
	case "strict", "record":
		tolerant := p.Xeh == "record"
		opts = append(opts, fs.WithXAttrErrorHandler(func(dst, src, key string, err error) error {
			if !filepath.IsAbs(dst) {
				// (destination root spelled ".": relative to dstDir)
				dst = filepath.Join(dstDir, dst)
			}
			xehCalls = append(xehCalls, xehCall{dst, src, key})
			if err == nil {
				xehNilErr++
			}
			if tolerant {
				return nil
			}
			return err
		}))
	}
	old := syscall.Umask(p.Umask)
	// the destination root as a caller may spell it
	dstRootArg := dstDir + core.Pick(core.NewRand(core.Mix(c.Seed, "C13-dstroot-spelling", c.Index)), []string{"", "", "", "/", "/.", "//", "/./"})
	if dstRootArg != dstDir {
		r.Count("destination_roots_spelled_unclean", 1)
	}
	if wr := core.NewRand(core.Mix(c.Seed, "C13-dstroot-cwd", c.Index)); wr.P(1, 12) && filepath.IsAbs(srcDir) {
		// the destination root is the working directory (cases run one at a
		// time in this process; umask is process-wide too)
		if wd, err := os.Getwd(); err == nil && os.Chdir(dstDir) == nil {
			defer os.Chdir(wd)
			dstRootArg = core.Pick(wr, []string{".", "./", "./."})
			r.Count("destination_root_is_the_working_directory", 1)
		}
	}
	cerr := fs.Copy(context.Background(), srcDir, p.Src, dstRootArg, p.Dst, opts...)
	syscall.Umask(old)
	r.Count("copies", 1)

	if !judge {
		// dangling / looping / lexically ambiguous chain: nothing demanded
		if cerr != nil {
			r.Count("follow_not_judged_error", 1)
		}
		r.FP = ""
		return r
	}
	if xfault {
		r.Count("xfault_cases", 1)
	}
	r.Count("xattr_handler_calls", int64(len(xehCalls)))
	if xehNilErr > 0 {
		r.ViolateD("xeh-nil-error", sample, "the xattr error handler was called %d times without an error", xehNilErr)
	}
	if cerr != nil && xfault && (p.Xeh == "strict" || p.Xeh == "nil") {
		// the destination cannot store an oversized value and the handler
		// does not tolerate it: aborting is the documented outcome
		r.Count("xfault_aborted_by_intolerant_handler", 1)
		return r
	}
	if far {
		r.Count("utime_far_cases", 1)
		if p.UtimeFar[0] > 0 {
			r.Count("utime_far_cases_after_2262", 1)
		} else {
			r.Count("utime_far_cases_before_1677", 1)
		}
	}
	if cerr != nil && far {
		// the conversion of such a time may legitimately be refused
		r.Count("utime_far_copy_error_not_judged", 1)
		return r
	}
	if cerr != nil {
		r.ViolateD("copy-failed", sample, "Copy(%q -> %q, %s) failed on a legal tree: %v", p.Src, p.Dst, p.optCombo(), cerr)
		return r
	}
	// requested time outside the int64-ns window: judged on (sec, nsec)
	// pairs, expected = what utimensat leaves on this file system
	var farSec, farNsec int64
	if far {
		var err error
		farSec, farNsec, err = farTimeOnFS(filepath.Dir(dstDir), p.UtimeFar[0], p.UtimeFar[1])
		if err != nil {
			r.Inconclusive = "far-time scratch: " + err.Error()
			return r
		}
		if farSec != p.UtimeFar[0] || farNsec != p.UtimeFar[1] {
			r.Count("utime_far_clamped_by_file_system", 1)
		}
	}
	farCheck := func(rel, what string) {
		s, n, err := lstatPair(filepath.Join(dstDir, filepath.FromSlash(rel)))
		if err != nil {
			return // a missing entry is reported by the generic diff
		}
		r.Count("utime_far_entries_checked", 1)
		if s != farSec || n != farNsec {
			r.ViolateD("utime-far-range", sample, "%s %q carries mtime (sec=%d, nsec=%d) = %s; requested (sec=%d, nsec=%d) = %s, which utimensat stores on this file system as (sec=%d, nsec=%d)", what, "/"+rel, s, n, time.Unix(s, n).UTC().Format(time.RFC3339Nano), p.UtimeFar[0], p.UtimeFar[1], time.Unix(p.UtimeFar[0], p.UtimeFar[1]).UTC().Format(time.RFC3339Nano), farSec, farNsec)
		}
	}
	got, err := tree.Snapshot(dstDir, tree.SnapOpt{SymlinkGroups: true})
	if err != nil {
		r.Violate("dest-unreadable", "cannot snapshot the destination: %v", err)
		return r
	}
	// the source must be untouched
	if after, err := tree.Snapshot(srcDir, tree.SnapOpt{SymlinkGroups: true}); err == nil {
		if d := tree.Diff(snap, after, tree.FullMask()); len(d) > 0 {
			r.ViolateD("source-modified", d, "the copy modified its source:\n%s", strings.Join(trunc(d, 6), "\n"))
		}
	}

	// ---- option overrides on the expectation
	if p.Mode != nil || p.ModeStr != "" {
		// the access ACL of the source is a statement about permissions: a
		// requested mode replaces it
		for i := range exp.Entries {
			delete(exp.Entries[i].Xattrs, "system.posix_acl_access")
		}
	}
	gi := got.Index()
	if p.ModeStr != "" {
		seen := map[modeKey]bool{}
		var keys []modeKey
		for _, e := range exp.Entries {
			if e.Type == tree.Symlink {
				continue
			}
			k := modeKey{e.Type, e.Perm}
			if !seen[k] {
				seen[k] = true
				keys = append(keys, k)
			}
		}
		acc, err := symbolicAccept(c.Dir, p.ModeStr, keys)
		if err != nil {
			r.Count("modestr_evaluator_failed", 1)
			r.Inconclusive = "chmod evaluator: " + err.Error()
			return r
		}
		for i := range exp.Entries {
			e := &exp.Entries[i]
			if e.Type == tree.Symlink {
				continue
			}
			a := acc[modeKey{e.Type, e.Perm}]
			r.Count("modestr_entries_evaluated", 1)
			if len(a) > 1 {
				r.Count("modestr_entries_with_two_admitted_results", 1)
			}
			want := uint32(0)
			var all []uint32
			for v := range a {
				all = append(all, v)
			}
			sort.Slice(all, func(i, j int) bool { return all[i] < all[j] })
			want = all[0]
			if j, ok := gi[e.Path]; ok && a[got.Entries[j].Perm] {
				want = got.Entries[j].Perm
			}
			e.Perm = want
		}
	} else if p.Mode != nil {
		for i := range exp.Entries {
			if exp.Entries[i].Type != tree.Symlink {
				exp.Entries[i].Perm = uint32(*p.Mode) & 07777
			}
		}
	}
	for i := range exp.Entries {
		e := &exp.Entries[i]
		if p.Chown != nil {
			e.UID, e.GID = uint32(p.Chown[0]), uint32(p.Chown[1])
		}
		if p.Utime != nil {
			e.Mtime = *p.Utime
		}
	}

	// ---- directories created above the target: owner and timestamp only
	parentSet := map[string]bool{}
	for _, d := range parents {
		parentSet[d] = true
		j, ok := gi[d]
		if !ok || got.Entries[j].Type != tree.Dir {
			r.ViolateD("parent-missing", sample, "directory %q above the target was not created", d)
			continue
		}
		g := got.Entries[j]
		r.Count("created_parents_seen", 1)
		if p.Chown != nil {
			r.Count("created_parents_owner_checked", 1)
			if g.UID != uint32(p.Chown[0]) || g.GID != uint32(p.Chown[1]) {
				r.ViolateD("parent-owner", sample, "created directory %q above the target has owner %d:%d, requested %d:%d", d, g.UID, g.GID, p.Chown[0], p.Chown[1])
			}
		}
		if far {
			r.Count("created_parents_time_checked", 1)
			farCheck(d, "created directory above the target")
		} else if p.Utime != nil {
			r.Count("created_parents_time_checked", 1)
			if g.Mtime != *p.Utime {
				r.ViolateD("parent-utime", sample, "created directory %q above the target has mtime %d, requested %d", d, g.Mtime, *p.Utime)
			}
		}
		// everything else about such a directory is not demanded
		pe := g.Clone()
		pe.LinkTo = ""
		exp.Put(pe)
	}
	exp.Sort()

	// ---- the landing directory that existed before copier.copy reached it
	// (the destination root, or a path the call created with MkdirAll just
	// before) is the image of the copied source DIRECTORY: the statement
	// demands the ns mtime of directories, so it must carry the source
	// directory's mtime, or the requested one. Its mode, owner and xattrs are
	// not the source's in these shapes and are not judged.
	if srcIsDir && !withTop && top != nil {
		var ld *tree.Entry
		if landing == "" {
			ld, _ = tree.LstatEntry(dstDir, tree.SnapOpt{NoData: true})
		} else if j, ok := gi[landing]; ok {
			ld = &got.Entries[j]
		}
		if ld != nil && ld.Type == tree.Dir {
			want, what := top.Mtime, "the source directory's mtime"
			if p.Utime != nil {
				want, what = *p.Utime, "the requested timestamp"
			}
			r.Count("landing_dir_mtimes_checked", 1)
			if landing == "" {
				r.Count("landing_dir_is_destination_root", 1)
			}
			if far {
				if !parentSet[landing] { // parents were checked above
					farCheck(landing, "landing directory")
				}
			} else if ld.Mtime != want {
				r.ViolateD("landing-dir-mtime", sample, "the landing directory %q (image of source directory %q, it existed before its contents were copied) has mtime %d, want %s %d", "/"+landing, "/"+srcRel, ld.Mtime, what, want)
			}
		}
	}

	if far {
		for _, e := range exp.Entries {
			if !parentSet[e.Path] {
				farCheck(e.Path, fmt.Sprintf("copied entry (type %c)", e.Type))
			}
		}
	}

	// ---- known shapes get a signature of their own
	groupSize := map[string]int{} // canonical path -> names of that inode in the copied subset
	for _, e := range exp.Entries {
		if e.LinkTo != "" && !parentSet[e.Path] {
			if groupSize[e.LinkTo] == 0 {
				groupSize[e.LinkTo] = 1
			}
			groupSize[e.LinkTo]++
		}
	}
	for i := range exp.Entries {
		e := &exp.Entries[i]
		j, ok := gi[e.Path]
		if !ok {
			continue
		}
		g := &got.Entries[j]
		origType := e.Type
		canon := e.LinkTo
		if canon == "" {
			canon = e.Path
		}
		if n := groupSize[canon]; n > 0 && !parentSet[e.Path] {
			// names that share an inode in the copied source subset share one
			// in the copy: same group (the snapshot groups by inode), and the
			// inode has exactly that many names in the fresh destination
			sig, kind := "", ""
			switch origType {
			case tree.Sock:
				sig, kind = "socket-links-split", "socket"
				r.Count("socket_link_members_checked", 1)
			case tree.Symlink:
				sig, kind = "symlink-links-split", "symlink"
				r.Count("symlink_link_members_checked", 1)
			}
			switch {
			case sig != "" && e.LinkTo != g.LinkTo:
				r.ViolateD(sig, sample, "%s %q is one of %d names of one inode in the copied source subset (canonical name %q); in the copy it is grouped with %q (inode %d, %d links)", kind, e.Path, n, canon, g.LinkTo, g.Ino, g.Nlink)
				e.LinkTo = g.LinkTo
			case e.LinkTo == g.LinkTo && int(g.Nlink) != n:
				if sig == "" {
					sig = "link-count"
				}
				r.ViolateD(sig, sample, "%q (type %c) belongs to a group of %d names of one inode; the copy's inode %d has %d links", e.Path, origType, n, g.Ino, g.Nlink)
			}
		}
		switch {
		case e.Type == tree.Sock:
			if g.Type == tree.Sock || (g.Type == tree.File && len(g.Data) == 0) {
				r.Count("socket_stubs_accepted", 1)
				e.Type = g.Type
				e.Data = g.Data
			}
		case e.Type == tree.Block && g.Type == tree.Char:
			r.ViolateD("copy-blockdev-as-chardev", sample, "block device %q (%d,%d) was copied as a character device (%d,%d)", e.Path, e.Major, e.Minor, g.Major, g.Minor)
			e.Type = tree.Char
		}
		if e.LinkTo != "" && g.LinkTo == "" && (e.Type == tree.Fifo || e.Type == tree.Char || e.Type == tree.Block) && !parentSet[e.Path] {
			r.ViolateD("copy-special-linkgroup-lost", sample, "%q shares an inode with %q in the source (type %c); the copy created an independent node", e.Path, e.LinkTo, e.Type)
			e.LinkTo = ""
		}
	}
	// ---- xattrs under an error handler: an (entry, key) pair may be missing
	// in the destination ONLY if the failure of exactly that pair was
	// tolerated: the recording handler was called with that destination path
	// and key, or (non-recording AllowXAttrErrors) an independent lsetxattr of
	// that key/value on a scratch node of the destination file system is
	// refused. Every other xattr is demanded, also the remaining keys of an
	// entry after a tolerated failure of one of them.
	called := map[xehCall]bool{}   // (dst, key)
	calledDst := map[string]bool{} // dst
	for _, cl := range xehCalls {
		called[xehCall{Dst: filepath.Clean(cl.Dst), Key: cl.Key}] = true
		calledDst[filepath.Clean(cl.Dst)] = true
	}
	probeCache := map[string]bool{}
	refused := func(typ byte, k string, v []byte) bool {
		if !xfault || p.Xeh != "allow" {
			return false
		}
		ck := fmt.Sprintf("%c|%s|%d", typ, k, len(v))
		if res, ok := probeCache[ck]; ok {
			return res
		}
		res := xattrProbe(xfBase, typ, k, v)
		probeCache[ck] = res
		r.Count("xattr_independent_probes", 1)
		return res
	}
	dstPathOf := map[string]bool{filepath.Clean(dstDir): true}
	for i := range exp.Entries {
		e := &exp.Entries[i]
		if parentSet[e.Path] {
			continue
		}
		abs := filepath.Join(dstDir, filepath.FromSlash(e.Path))
		dstPathOf[abs] = true
		j, ok := gi[e.Path]
		if !ok || len(e.Xattrs) == 0 {
			continue
		}
		g := &got.Entries[j]
		anyTolerated := calledDst[abs]
		if !anyTolerated {
			for k, v := range e.Xattrs {
				if refused(e.Type, k, v) {
					anyTolerated = true
					break
				}
			}
		}
		for k, v := range e.Xattrs {
			if xfault && k == xfKey {
				if len(v) > 4000 {
					r.Count("xfault_oversized_pairs_in_copied_set", 1)
				} else {
					r.Count("xfault_small_same_key_pairs_in_copied_set", 1)
				}
			}
			if _, has := g.Xattrs[k]; has {
				continue // present: value compared by the diff below
			}
			switch {
			case called[xehCall{Dst: abs, Key: k}] || refused(e.Type, k, v):
				r.Count("xattr_pairs_missing_and_tolerated", 1)
				delete(e.Xattrs, k)
			case anyTolerated:
				// the tolerated failure of another key of this entry does not
				// excuse this one
				r.ViolateD("xattr-dropped-after-tolerated-failure", sample, "%q: xattr %q (%d bytes) is missing in the copy; only the failure of another attribute of this entry was reported to/tolerated by the xattr error handler (handler=%s)", e.Path, k, len(v), p.Xeh)
				delete(e.Xattrs, k)
			default:
				r.ViolateD("xattr-lost-without-tolerated-failure", sample, "%q: xattr %q (%d bytes) is missing in the copy although no failure of this entry was reported to/tolerated by the xattr error handler (handler=%s, %d handler calls in this copy)", e.Path, k, len(v), p.Xeh, len(xehCalls))
				delete(e.Xattrs, k)
			}
		}
	}
	for _, cl := range xehCalls {
		if !dstPathOf[filepath.Clean(cl.Dst)] {
			r.ViolateD("xeh-unexpected-path", sample, "xattr error handler called with destination %q, which is not the destination path of a copied entry", cl.Dst)
		}
	}
	mask := tree.Mask{Perm: true, Owner: true, Mtime: !far, DirMtime: !far, Xattrs: true, DirXattrs: true, SymlinkXattrs: true, SpecialXattrs: true, Links: true, Data: true, Rdev: true, Target: true}
	diffs := tree.Diff(exp, got, mask)
	if len(diffs) > 0 {
		diffs = shortLines(diffs, 700)
		r.ViolateD("copy-diverged", map[string]any{"diffs": diffs, "case": sample}, "destination differs from the source under the statement's mask (%s %s -> %s, %s):\n%s", p.Variant, p.Src, p.Dst, p.optCombo(), strings.Join(trunc(diffs, 8), "\n"))
	}

	// ---- evidence
	copied := 0
	interesting := p.Chown != nil || p.Mode != nil || p.ModeStr != "" || p.Utime != nil
	groups := map[string]bool{}
	for _, e := range exp.Entries {
		if parentSet[e.Path] {
			continue
		}
		copied++
		r.Count("entries_compared", 1)
		switch e.Type {
		case tree.Dir:
			r.Count("dirs_compared", 1)
		case tree.Symlink:
			r.Count("symlinks_compared", 1)
			interesting = true
		case tree.File:
			r.Count("files_compared", 1)
		default:
			r.Count("special_files_compared", 1)
			interesting = true
		}
		if len(e.Xattrs) > 0 {
			r.Count("entries_with_xattrs", 1)
			interesting = true
		}
		if e.Perm&07000 != 0 {
			r.Count("entries_with_special_bits", 1)
			interesting = true
		}
		if e.LinkTo != "" {
			groups[e.LinkTo] = true
			r.Count("link_members_compared", 1)
			interesting = true
		}
	}
	r.Count("link_groups_compared", int64(len(groups)))
	for cn := range groups {
		if j, ok := exp.Index()[cn]; ok {
			switch {
			case exp.Entries[j].Type == tree.Symlink:
				r.Count("symlink_link_groups_compared", 1)
			case snapTypeOf(snap, srcRel, landing, cn) == tree.Sock:
				r.Count("socket_link_groups_compared", 1)
			}
		}
	}

	// ---- change notifier: exactly once per non-directory, destination path
	if p.Notify {
		ei := exp.Index()
		seen := map[string]int{}
		for _, cl := range nrec.calls {
			np := normNotifyPath(cl.Path)
			rel := strings.TrimPrefix(np, "/")
			r.AddSet("notifier_kinds", cl.Kind.String())
			j, ok := ei[rel]
			if rel == "" && landing == "" {
				r.Count("notifier_calls_for_directories", 1)
				continue
			}
			if !ok {
				r.ViolateD("notify-unexpected-path", sample, "notifier called with %q (normalised %q), which is not a destination path of a copied entry", cl.Path, np)
				continue
			}
			if exp.Entries[j].Type == tree.Dir {
				r.Count("notifier_calls_for_directories", 1)
				continue
			}
			seen[rel]++
		}
		for _, e := range exp.Entries {
			if e.Type == tree.Dir {
				continue
			}
			r.Count("notifier_calls_checked", 1)
			if seen[e.Path] != 1 {
				r.ViolateD("notify-count", sample, "notifier called %d times for non-directory %q (want exactly 1)", seen[e.Path], "/"+e.Path)
			}
		}
	}
	r.Nontrivial = copied > 0 && interesting
	ut, md := int64(0), -1
	if p.Utime != nil {
		ut = *p.Utime
	}
	if p.Mode != nil {
		md = *p.Mode
	}
	r.FP = fmt.Sprintf("%s|%s|%s|%s|%s|%v|%o|%s|%d%v|%s", snap.Fingerprint(), p.Variant, p.SrcRel, p.DstForm, p.optCombo(), p.Chown, md, p.ModeStr, ut, p.UtimeFar, p.Dst)
	return r
}

// src9Free: the names of the mount points are not taken.
func src9Free(t *tree.Tree) bool { return t.Get("zm1") == nil && t.Get("zm2") == nil }

// c13ACL encodes an access ACL (posix_acl_xattr, version 2) with the owner and
// other classes taken from perm, one named user and a mask.
func c13ACL(perm uint32, uid uint32, userPerm uint16) []byte {
	b := []byte{2, 0, 0, 0}
	ent := func(tag, p uint16, id uint32) {
		b = append(b, byte(tag), byte(tag>>8), byte(p), byte(p>>8), byte(id), byte(id>>8), byte(id>>16), byte(id>>24))
	}
	ent(0x01, uint16(perm>>6&7), 0xffffffff) // ACL_USER_OBJ
	ent(0x02, userPerm, uid)                 // ACL_USER
	ent(0x04, uint16(perm>>3&7), 0xffffffff) // ACL_GROUP_OBJ
	ent(0x10, 7, 0xffffffff)                 // ACL_MASK
	ent(0x20, uint16(perm&7), 0xffffffff)    // ACL_OTHER
	return b
}
