package main

import (
	"context"
	"fmt"
	gofs "io/fs"
	"os"
	"runtime"
	"sort"
	"strings"
	"sync"
	"time"

	"github.com/tonistiigi/fsutil"
	"github.com/tonistiigi/fsutil/types"
	"verif/internal/core"
	"verif/internal/tree"
)

func needRoot(r *core.Result) bool {
	if os.Geteuid() != 0 {
		r.Inconclusive = "needs root (mknod, chown, trusted xattrs)"
		return false
	}
	return true
}

// walkStats runs FS.Walk and returns the reported stats in callback order.
func walkStats(fs fsutil.FS, target string) ([]*types.Stat, error) {
	var out []*types.Stat
	err := fs.Walk(context.Background(), target, func(p string, d gofs.DirEntry, err error) error {
		if err != nil {
			return err
		}
		fi, err := d.Info()
		if err != nil {
			return err
		}
		st, ok := fi.Sys().(*types.Stat)
		if !ok {
			return fmt.Errorf("no stat for %s", p)
		}
		// asking an entry for its info again must give the same stat
		if fi2, err := d.Info(); err != nil {
			return err
		} else if st2, ok := fi2.Sys().(*types.Stat); !ok || !st.EqualVT(st2) {
			return fmt.Errorf("second Info() of %s differs from the first: %v vs %v", p, fi2.Sys(), st)
		}
		if p != st.Path {
			return fmt.Errorf("callback path %q != stat path %q", p, st.Path)
		}
		out = append(out, st)
		return nil
	})
	return out, err
}

// orderSensitive reports whether the tree contains a directory with children
// next to a sibling whose name extends the directory's name with a byte that
// sorts below '/' (so byte order and protocol order disagree).
func orderSensitive(t *tree.Tree) bool {
	dirs := map[string]bool{}
	hasChild := map[string]bool{}
	for _, e := range t.Entries {
		if e.Type == tree.Dir {
			dirs[e.Path] = true
		}
		hasChild[tree.Parent(e.Path)] = true
	}
	for _, e := range t.Entries {
		for d := range dirs {
			if hasChild[d] && tree.Parent(d) == tree.Parent(e.Path) && strings.HasPrefix(e.Path, d) && len(e.Path) > len(d) && e.Path[len(d)] < '/' {
				return true
			}
		}
	}
	return false
}

func hasLinks(t *tree.Tree) bool {
	for _, e := range t.Entries {
		if e.LinkTo != "" {
			return true
		}
	}
	return false
}

func hasType(t *tree.Tree, types string) bool {
	for _, e := range t.Entries {
		if strings.IndexByte(types, e.Type) >= 0 {
			return true
		}
	}
	return false
}

func hasMultiChunk(t *tree.Tree) bool {
	for _, e := range t.Entries {
		if e.Type == tree.File && len(e.Data) > 32768 {
			return true
		}
	}
	return false
}

func sortedKeys[V any](m map[string]V) []string {
	ks := make([]string, 0, len(m))
	for k := range m {
		ks = append(ks, k)
	}
	sort.Strings(ks)
	return ks
}

func trunc(ss []string, n int) []string {
	if len(ss) > n {
		return append(append([]string{}, ss[:n]...), fmt.Sprintf("... %d more", len(ss)-n))
	}
	return ss
}

// jitter yields or sleeps a little, driven by a seeded generator (delays are
// never used as verdicts).
func jitter(r *core.Rand, maxMicros int) {
	jmu.Lock()
	v := r.Intn(4)
	d := r.Intn(maxMicros*1000 + 1)
	jmu.Unlock()
	switch v {
	case 0:
	case 1:
		runtime.Gosched()
	default:
		time.Sleep(time.Duration(d) * time.Nanosecond)
	}
}

var jmu sync.Mutex
