package main

import (
	"fmt"
	"hash/fnv"
	"os"
	"path/filepath"
	"sort"
	"strings"

	"github.com/tonistiigi/fsutil"
	"github.com/tonistiigi/fsutil/types"
	"verif/internal/core"
	"verif/internal/tree"
	"verif/internal/wire"
)

// Shared by C02 (incremental minimality) and C05 (change notifications):
// initial tree -> sync -> edits -> sync (observed) -> edits -> sync ...

type roundObs struct {
	Edits []string
	Old   *tree.Tree // dest before the round
	Src   *tree.Tree // source view of the round
	SrcF  *tree.Tree // source view as rewritten by the receiver's Filter (== Src without one)
	// SizeOff: announced size minus number of bytes sent, for the paths where they differ
	SizeOff map[string]int64
	New     *tree.Tree // dest after the round
	Stats   []*types.Stat
	Reqs    []string // requested paths, in order
	ReqIDs  []uint32
	Notes   []note
	Differ  fsutil.DiffType
	Err     string
}

type histOpt struct {
	Rounds    int
	DiffNoneP int // 1/n probability of DiffNone in a round (0 = never)
	Targeted  bool
	Synthetic bool
	Unchanged bool              // add a final round without edits
	SlowFiles bool              // reorder completion of file contents through read delays
	Filter    fsutil.FilterFunc // receiver-side filter that rewrites metadata (always accepts)
	Unpriv    bool              // the whole history runs with the effective uid/gid of an ordinary user
	GenOpt    tree.GenOpt
	EditOpt   editOpt
}

func statIndex(log []wire.Event) (stats []string, reqs []uint32) {
	for _, e := range log {
		if e.End == "S" && e.Op == "send" && e.Type == int32(types.PACKET_STAT) && e.Stat && e.Err == "" {
			stats = append(stats, e.Path)
		}
		if e.End == "R" && e.Op == "send" && e.Type == int32(types.PACKET_REQ) && e.Err == "" {
			reqs = append(reqs, e.ID)
		}
	}
	return
}

// runHistory executes one history and returns the observations per round
// (round 0 is the initial sync into an empty destination).
func runHistory(c *core.Ctx, r *core.Result, ho histOpt) []roundObs {
	return runHistoryFrom(c, r, ho, tree.Gen(c.R, ho.GenOpt), nil)
}

func runHistoryFrom(c *core.Ctx, r *core.Result, ho histOpt, cur *tree.Tree, editFn func(t *tree.Tree) []string) []roundObs {
	R := c.R
	dest := filepath.Join(c.Dir, "dest")
	os.Mkdir(dest, 0755)
	if ho.Unpriv {
		os.Chmod(c.Dir, 0755)
		os.Lchown(dest, 1234, 1234)
	}
	var out []roundObs
	// entries whose names look like the writer's own temporary names
	// (".tmp." + nine digits): ordinary entries as far as the protocol and
	// the callback go; they leave the source again in a later round
	tr := core.NewRand(core.Mix(c.Seed, "hist-temp-like-names", c.Index))
	var tempLike []string
	if tr.P(1, 8) {
		for _, d := range append([]string{""}, dirsOf(cur)...) {
			if !tr.P(1, 2) {
				continue
			}
			p := ".tmp." + core.Pick(tr, []string{"123456789", "000000042", "999999999"})
			if d != "" {
				p = d + "/" + p
			}
			if cur.Get(p) != nil {
				continue
			}
			var own uint32
			if ho.Unpriv {
				own = 1234
			}
			if tr.P(1, 2) {
				cur.Put(tree.Entry{Path: p, Type: tree.File, Perm: 0644, UID: own, GID: own, Mtime: 1600000000_000000000, Data: []byte("an ordinary file")})
			} else {
				cur.Put(tree.Entry{Path: p, Type: tree.Dir, Perm: 0755, UID: own, GID: own, Mtime: 1600000000_000000000})
				cur.Put(tree.Entry{Path: p + "/x", Type: tree.File, Perm: 0600, UID: own, GID: own, Mtime: 1600000000_000000000, Data: []byte("x")})
			}
			tempLike = append(tempLike, p)
		}
		cur.Sort()
		fixGroups(cur)
		if len(tempLike) > 0 {
			r.Count("histories_with_temp_like_names", 1)
		}
	}
	for round := 0; round <= ho.Rounds; round++ {
		ro := roundObs{}
		if round > 0 {
			unchanged := ho.Unchanged && round == ho.Rounds
			if !unchanged && editFn == nil && len(tempLike) > 0 && tr.P(1, 2) {
				for _, p := range tempLike {
					if cur.Get(p) != nil {
						removePath(cur, p)
						ro.Edits = append(ro.Edits, "remove "+p)
					}
				}
				tempLike = nil
				cur.Sort()
				fixGroups(cur)
			}
			if !unchanged {
				n := R.Range(1, 6)
				if ho.Targeted && R.P(1, 3) {
					n = 1
				}
				if editFn != nil {
					ro.Edits = editFn(cur)
					cur.Sort()
					fixGroups(cur)
				} else {
					ro.Edits = append(ro.Edits, mutate(R, cur, n, ho.EditOpt)...)
				}
			} else {
				ro.Edits = []string{"(no edits)"}
			}
			if ho.DiffNoneP > 0 && R.P(1, ho.DiffNoneP) {
				ro.Differ = fsutil.DiffNone
			}
		}
		var fs fsutil.FS
		if ho.Synthetic {
			ro.Src = cur.Clone()
			if xr := core.NewRand(core.Mix(c.Seed, "hist-foreign-xattr", c.Index)); xr.P(1, 4) {
				// attributes of a name space the destination file system does
				// not know (what a btrfs or ceph source reports): they cannot
				// be stored, everything else of the entry still is. The same
				// files carry them in every round (identity does not include
				// attributes).
				for i := range ro.Src.Entries {
					e := &ro.Src.Entries[i]
					h := fnv.New64a()
					h.Write([]byte(e.Path))
					if e.Type == tree.File && e.LinkTo == "" && ro.Src.GroupOf(e.Path) == "" && h.Sum64()%3 == 0 {
						x := map[string][]byte{}
						for k, v := range e.Xattrs {
							x[k] = v
						}
						x["btrfs.compression"] = []byte("zstd")
						e.Xattrs = x
						r.Count("announced_entries_with_an_attribute_the_destination_cannot_store", 1)
					}
				}
			}
			sf := newSynthFSReaders(ro.Src, R)
			if ho.SlowFiles {
				gr := R.Fork()
				sf.Hook = func(op, p string) {
					if op == "read" {
						jitter(gr, 3)
					}
				}
			}
			fs = sf
		} else {
			srcDir := filepath.Join(c.Dir, fmt.Sprintf("src%d", round))
			os.Mkdir(srcDir, 0755)
			if err := tree.Materialise(srcDir, cur); err != nil {
				r.Inconclusive = "materialise: " + err.Error()
				return nil
			}
			snap, err := tree.Snapshot(srcDir, tree.SnapOpt{})
			if err != nil {
				r.Inconclusive = "snapshot: " + err.Error()
				return nil
			}
			ro.Src = snap
			fs, err = fsutil.NewFS(srcDir)
			if err != nil {
				r.Inconclusive = "NewFS: " + err.Error()
				return nil
			}
		}
		old, err := tree.Snapshot(dest, tree.SnapOpt{})
		if err != nil {
			r.Inconclusive = "snapshot dest: " + err.Error()
			return nil
		}
		ro.Old = old
		if sf, ok := fs.(*synthFS); ok {
			if core.NewRand(core.Mix(c.Seed, "hist-symlink-size-zero", c.Index)).P(1, 3) {
				sf.SymSizeZero = true
				r.Count("rounds_from_a_source_reporting_size_0_for_symlinks", 1)
			}
			// some new files are announced larger than the bytes that follow
			// (C07 does the same from its reference sender): what is stored,
			// and hashed, is what was sent
			if R2 := core.NewRand(core.Mix(c.Seed, "hist-announced-size", c.Index*64+round)); R2.P(1, 4) {
				off := map[string]int64{}
				for _, e := range ro.Src.Entries {
					if e.Type == tree.File && e.LinkTo == "" && ro.Src.GroupOf(e.Path) == "" && len(e.Data) > 0 && old.Get(e.Path) == nil && R2.P(1, 2) {
						off[e.Path] = int64(core.Pick(R2, []int{1, 5, 4096, 40000}))
					}
				}
				if len(off) > 0 {
					sf.SizeOff, ro.SizeOff = off, off
					r.Count("rounds_with_announced_size_above_content", 1)
				}
			}
		}
		nrec := newNotifyRec()
		ropt := fsutil.ReceiveOpt{NotifyHashed: nrec.fn, ContentHasher: newHasher().fn, Differ: ro.Differ, Filter: ho.Filter}
		ro.SrcF = ro.Src
		if ho.Filter != nil {
			ro.SrcF = &tree.Tree{}
			for i := range ro.Src.Entries {
				e := &ro.Src.Entries[i]
				st := e.Stat()
				ho.Filter(st.Path, st)
				ne := tree.FromStat(st)
				ne.Data, ne.Ino, ne.Nlink, ne.Dev = e.Data, e.Ino, e.Nlink, e.Dev
				ro.SrcF.Entries = append(ro.SrcF.Entries, ne)
			}
		}
		so := syncOpt{Cfg: wire.Config{Cap: core.Pick(R, []int{0, 1, 8, 64}), KeepStats: true}, Src: fs, Dest: dest, Recv: ropt}
		var res *syncRes
		if ho.Unpriv {
			if err := asUser(1234, 1234, func() { res = runSync(so) }); err != nil {
				r.Inconclusive = "cannot switch uid: " + err.Error()
				return nil
			}
		} else {
			res = runSync(so)
		}
		if checkHang(r, res, fmt.Sprintf("round %d edits %v", round, ro.Edits)) {
			return nil
		}
		if res.SendErr != nil || res.RecvErr != nil {
			r.Inconclusive = fmt.Sprintf("fault-free transfer failed: send=%v recv=%v", res.SendErr, res.RecvErr)
			return nil
		}
		nw, err := tree.Snapshot(dest, tree.SnapOpt{})
		if err != nil {
			r.Inconclusive = "snapshot dest: " + err.Error()
			return nil
		}
		ro.New = nw
		stats, reqs := statIndex(res.Pair.Log())
		for _, e := range res.Pair.Log() {
			if e.End == "S" && e.Op == "send" && e.St != nil && e.Err == "" {
				ro.Stats = append(ro.Stats, e.St)
			}
		}
		for _, id := range reqs {
			p := fmt.Sprintf("<unknown id %d>", id)
			if int(id) < len(stats) {
				p = stats[id]
			}
			ro.Reqs = append(ro.Reqs, p)
		}
		ro.ReqIDs = reqs
		ro.Notes = nrec.list()
		out = append(out, ro)
	}
	return out
}

// changedSet computes E: paths of src whose identity differs from (or that do
// not exist in) old, and the paths for which the hard-link timing exception
// allows either outcome.
func changedSet(old, src *tree.Tree) (E map[string]bool, either map[string]bool) {
	E, either = map[string]bool{}, map[string]bool{}
	oi := old.Index()
	for i := range src.Entries {
		e := &src.Entries[i]
		j, ok := oi[e.Path]
		if !ok {
			E[e.Path] = true
			continue
		}
		if !identityEqual(&old.Entries[j], e) {
			E[e.Path] = true
		}
	}
	// Hard-link timing exception. The destination is walked while it is being
	// rewritten: once a member of an inode group is removed or re-created, the
	// walker may or may not still see it, so the remaining members may be
	// announced with another link name (or none). Every member of a group
	// that loses a member in this sync, and whose own non-link identity is
	// unchanged, may therefore be transferred or not.
	si := src.Index()
	nonLinkEqual := func(o, e *tree.Entry) bool {
		oc, ec := *o, *e
		oc.LinkTo, ec.LinkTo = "", ""
		return identityEqual(&oc, &ec)
	}
	// members of each old group that are removed or re-created in this sync
	changedMembers := map[string][]string{}
	for i := range old.Entries {
		o := &old.Entries[i]
		g := old.GroupOf(o.Path)
		if g == "" || o.Type == tree.Symlink {
			continue
		}
		if _, ok := si[o.Path]; !ok || E[o.Path] {
			changedMembers[g] = append(changedMembers[g], o.Path)
		}
	}
	for i := range src.Entries {
		e := &src.Entries[i]
		j, ok := oi[e.Path]
		if !ok || !E[e.Path] {
			continue
		}
		o := &old.Entries[j]
		g := old.GroupOf(o.Path)
		if g == "" || !nonLinkEqual(o, e) {
			continue
		}
		for _, q := range changedMembers[g] {
			if q != e.Path {
				either[e.Path] = true
			}
		}
	}
	return
}

func histSample(obs []roundObs) any {
	var rounds []any
	for i, o := range obs {
		m := map[string]any{"round": i, "edits": o.Edits, "requests": trunc(o.Reqs, 12), "notifications": len(o.Notes)}
		if i == 0 {
			m["source"] = trunc(o.Src.Lines(), 25)
		}
		if o.Differ == fsutil.DiffNone {
			m["differ"] = "none"
		}
		rounds = append(rounds, m)
	}
	return rounds
}

func histFP(obs []roundObs) string {
	s := ""
	for _, o := range obs {
		s += o.Src.Fingerprint() + strings.Join(o.Edits, ";") + fmt.Sprint(o.Differ)
	}
	return s
}

func histGenOpt(R *core.Rand) (tree.GenOpt, editOpt) {
	o := tree.DefaultOpt()
	o.SpecLinks = true
	o.MaxEntries = 20
	o.MaxSize = 70000
	eo := editOpt{Owners: o.Owners, Types: "fdlpcb", Xattrs: true}
	return o, eo
}

// ---------------------------------------------------------------------------
// C02

func init() {
	core.Register(&core.Prop{
		ID:    "C02",
		Level: "exploration",
		Rule: "Edits include re-targeting a symlink to another spelling of the same path with the time stamp kept; a third of the synthetic histories announce size 0 for symlinks. edit histories: random initial tree -> sync -> 1-6 random edits (rewrite same/other size, touch, chmod, chown, delete, add, rename, file<->dir<->symlink swap, link/unlink, device renumber, retarget, xattr-only) or a single targeted edit -> sync, 2-3 rounds, last round optionally without edits, differ in {metadata, none}; the REQ ids in the packet log are mapped to paths through the STAT sequence and compared with the set computed by the identity model; inode and bytes of every untouched entry are compared before/after. " +
			"non-trivial = a round with at least one edit that must trigger a transfer and at least one entry that must stay untouched, or an unchanged re-sync of a tree with files; distinct by history fingerprint",
		Assumptions: []string{"root", "the hard-link timing exception is encoded as: an entry that was a link member whose named member is deleted or replaced in this sync and whose own identity is otherwise equal may be transferred or not"},
		Cases: func(tier string) int {
			if tier == "thorough" {
				return 300000
			}
			return 2000
		},
		Batch:         40,
		MinNontrivial: func(tier string) int { return 150 },
		Run:           c02Run,
	})
}

func c02Run(c *core.Ctx) *core.Result {
	r := &core.Result{}
	if !needRoot(r) {
		return r
	}
	g, eo := histGenOpt(c.R)
	ho := histOpt{Rounds: c.R.Range(1, 3), DiffNoneP: 5, Targeted: true, Synthetic: c.R.P(1, 4), Unchanged: c.R.P(1, 2), GenOpt: g, EditOpt: eo}
	if c.R.P(1, 6) {
		// an ordinary user on the receiving side (trees it can own): what the
		// kernel strips on an unprivileged write has to be put back, or the
		// next sync finds the entry changed again
		ho.Unpriv = true
		ho.GenOpt.Owners = []uint32{1234}
		ho.GenOpt.Types = "fdlp"
		ho.GenOpt.SecXattrs, ho.GenOpt.SymXattrs, ho.GenOpt.SpecLinks = false, false, false
		ho.EditOpt = editOpt{Owners: []uint32{1234}, Types: "fdlp", Xattrs: true}
		r.Count("histories_with_unprivileged_receiver", 1)
	} else if c.R.P(1, 4) {
		// a receiver-side Filter that rewrites metadata and is not idempotent
		// (an id shift): the identity compared is the rewritten one, applied
		// exactly once, so a re-sync still finds nothing to do
		ho.Filter = rewritingFilter
		r.Count("histories_with_rewriting_filter", 1)
	}
	var obs []roundObs
	if ur := core.NewRand(core.Mix(c.Seed, "C02-usrmerge", c.Index)); ur.P(1, 25) {
		// the shape of a usrmerge: a directory with more entries than the
		// destination walker can be ahead of the writer is replaced by a
		// symlink to a sibling that holds the same names (with further hard
		// links): nothing below the sibling changed, nothing is requested
		n := ur.Range(150, 320)
		t0 := &tree.Tree{Entries: []tree.Entry{{Path: "a", Type: tree.Dir, Perm: 0755, Mtime: 1e18}, {Path: "b", Type: tree.Dir, Perm: 0755, Mtime: 1e18}}}
		for i := 0; i < n; i++ {
			d := []byte(fmt.Sprintf("content %d", i))
			t0.Entries = append(t0.Entries,
				tree.Entry{Path: fmt.Sprintf("a/f%03d", i), Type: tree.File, Perm: 0644, Mtime: 1e18 + int64(i), Data: []byte("in a")},
				tree.Entry{Path: fmt.Sprintf("b/f%03d", i), Type: tree.File, Perm: 0644, Mtime: 1e18 + int64(i), Data: d})
			if i%2 == 0 {
				t0.Entries = append(t0.Entries, tree.Entry{Path: fmt.Sprintf("b/g%03d", i), Type: tree.File, Perm: 0644, Mtime: 1e18 + int64(i), Data: d, LinkTo: fmt.Sprintf("b/f%03d", i)})
			}
		}
		t0.Sort()
		ho = histOpt{Rounds: 1, GenOpt: g, EditOpt: eo}
		obs = runHistoryFrom(c, r, ho, t0, func(t *tree.Tree) []string {
			t.Remove("a")
			t.Put(tree.Entry{Path: "a", Type: tree.Symlink, Perm: 0777, Mtime: 1e18 + 7, Target: "b"})
			return []string{"replace directory a by a symlink to b"}
		})
		r.Count("histories_replacing_a_large_directory_by_a_symlink_to_its_sibling", 1)
	} else {
		obs = runHistory(c, r, ho)
	}
	if obs == nil {
		return r
	}
	r.Sample = histSample(obs)
	r.FP = histFP(obs)
	for i, o := range obs {
		if i == 0 {
			continue
		}
		r.Count("rounds", 1)
		E, either := changedSet(o.Old, o.SrcF)
		// expected requests
		want := map[string]bool{}
		opt := map[string]bool{}
		for _, e := range o.SrcF.Entries {
			if e.Type != tree.File || e.LinkTo != "" {
				continue
			}
			if o.Differ == fsutil.DiffNone {
				want[e.Path] = true
			} else if E[e.Path] {
				if either[e.Path] {
					opt[e.Path] = true
				} else {
					want[e.Path] = true
				}
			}
		}
		got := map[string]int{}
		for _, p := range o.Reqs {
			got[p]++
		}
		r.Count("requests_observed", int64(len(o.Reqs)))
		var miss, extra []string
		for p := range want {
			if got[p] == 0 {
				miss = append(miss, p)
			}
		}
		for p, n := range got {
			if n > 1 {
				r.Violate("req-duplicate", "round %d: %q requested %d times", i, p, n)
			}
			if !want[p] && !opt[p] {
				extra = append(extra, p)
			}
		}
		sort.Strings(miss)
		sort.Strings(extra)
		if len(miss) > 0 || len(extra) > 0 {
			r.ViolateD("req-set", map[string]any{"edits": o.Edits, "missing": miss, "extra": extra, "old": o.Old.Lines(), "src": o.SrcF.Lines()},
				"round %d (edits %v, differ=%d): content requests differ from the identity model: not requested %q, needlessly requested %q", i, o.Edits, o.Differ, miss, extra)
		}
		// "rewrites exactly those entries whose identity differs": after the
		// round nothing that differed may be left as it was (a stale entry
		// that survives, a changed one that was skipped)
		if o.Differ != fsutil.DiffNone {
			exp, created := expectSync(o.SrcF, o.Old, o.New)
			m := syncMask(created)
			// xattrs are not part of the identity: an unchanged entry keeps
			// its old ones, and the inode of a link group that gains a
			// member is stamped with the source's (C01 judges xattrs)
			m.Xattrs, m.DirXattrs = false, false
			if diffs := tree.Diff(exp, o.New, m); len(diffs) > 0 {
				r.ViolateD("round-diverged", map[string]any{"edits": o.Edits, "old": o.Old.Lines(), "src": o.SrcF.Lines()}, "round %d (edits %v): entries whose identity differed were not brought in line with the source:\n%s", i, o.Edits, strings.Join(trunc(diffs, 8), "\n"))
			}
			r.Count("round_final_states_compared", 1)
		}
		// untouched entries keep inode and bytes
		if o.Differ != fsutil.DiffNone {
			oi, ni := o.Old.Index(), o.New.Index()
			untouched := 0
			for _, e := range o.SrcF.Entries {
				if E[e.Path] {
					continue
				}
				oe := &o.Old.Entries[oi[e.Path]]
				j, ok := ni[e.Path]
				if !ok {
					r.Violate("untouched-vanished", "round %d: unchanged entry %q vanished", i, e.Path)
					continue
				}
				ne := &o.New.Entries[j]
				untouched++
				if oe.Ino != ne.Ino {
					r.ViolateD("untouched-recreated", map[string]any{"edits": o.Edits}, "round %d (edits %v): entry %q has unchanged identity but was re-created (inode %d -> %d)", i, o.Edits, e.Path, oe.Ino, ne.Ino)
				}
				if e.Type == tree.File && string(oe.Data) != string(ne.Data) {
					r.Violate("untouched-rewritten", "round %d: bytes of unchanged file %q changed", i, e.Path)
				}
			}
			r.Count("untouched_entries_checked", int64(untouched))
			if len(o.Edits) == 1 && o.Edits[0] == "(no edits)" {
				r.Count("unchanged_resyncs", 1)
				if len(o.Reqs) != 0 {
					r.Violate("unchanged-req", "re-sync of an unchanged source sent %d content requests: %q", len(o.Reqs), o.Reqs)
				}
				if len(o.Notes) != 0 {
					var ps []string
					for _, n := range o.Notes {
						ps = append(ps, n.Kind+" "+n.Path)
					}
					r.Violate("unchanged-notify", "re-sync of an unchanged source emitted %d notifications: %q", len(o.Notes), ps)
				}
				if len(o.SrcF.Entries) > 0 {
					r.Nontrivial = true
				}
			}
			if len(want) > 0 && untouched > 0 {
				r.Nontrivial = true
			}
		} else {
			r.Count("diffnone_rounds", 1)
			if len(want) > 0 {
				r.Nontrivial = true
			}
		}
		for _, ed := range o.Edits {
			r.AddSet("edit_kinds", strings.SplitN(ed, " ", 2)[0])
		}
	}
	return r
}

// rewritingFilter is a receiver-side Filter that accepts everything and
// rewrites ownership and mode; it is deliberately not idempotent.
func rewritingFilter(p string, st *types.Stat) bool {
	if st.Uid == 1234 {
		st.Uid = 4242
	}
	st.Gid = st.Gid/2 + 7
	// also for symlinks, whose permission bits the destination cannot hold:
	// they must not make the link look changed on every later sync
	st.Mode &^= 0o002
	return true
}
