package main

import (
	"context"
	"fmt"
	"golang.org/x/sys/unix"
	gofs "io/fs"
	"os"
	"path"
	"path/filepath"
	"strings"

	"github.com/tonistiigi/fsutil"
	"github.com/tonistiigi/fsutil/types"
	"verif/internal/core"
	"verif/internal/tree"
)

// C09: Walk lists every entry once, parents first, in protocol order, with
// true stats; first member of a regular-file inode group is the file, later
// ones links; SubDirFS prefixes.

// c09Expect renders what a walk must report for a snapshot entry.
func c09Expect(e *tree.Entry) *types.Stat {
	st := e.Stat()
	switch e.Type {
	case tree.Dir:
		st.Size = 0
	case tree.File:
		st.Size = int64(len(e.Data))
	case tree.Symlink:
		st.Size = int64(len(e.Target))
	default:
		st.Size = 0
	}
	return st
}

func c09Compare(r *core.Result, what string, want []tree.Entry, got []*types.Stat, prefix string) {
	if len(want) != len(got) {
		var wp, gp []string
		for _, e := range want {
			wp = append(wp, e.Path)
		}
		for _, s := range got {
			gp = append(gp, s.Path)
		}
		r.Violate("walk-set", "%s: walk reported %d entries, snapshot has %d\nwant %q\ngot  %q", what, len(got), len(want), wp, gp)
		return
	}
	for i := range want {
		w := c09Expect(&want[i])
		g := got[i]
		r.Count("stats_compared", 1)
		if w.Path != g.Path {
			r.Violate("walk-order", "%s: position %d: walk reported %q, protocol order demands %q", what, i, g.Path, w.Path)
			return
		}
		if i > 0 && tree.CmpPath(got[i-1].Path, g.Path) >= 0 {
			r.Violate("walk-order", "%s: %q reported after %q", what, g.Path, got[i-1].Path)
		}
		// link names are demanded for regular files; for hard-linked special
		// files either representation is accepted
		// (reported as an entry of its own, or as a link naming the first
		// member - with the sub-root's prefix where there is one; any other
		// name would point at nothing in the stream)
		if want[i].Type != tree.File && want[i].Type != tree.Symlink && want[i].Type != tree.Dir && g.Linkname == "" {
			w.Linkname = ""
		}
		if want[i].Type == tree.Symlink && prefix != "" && strings.HasPrefix(want[i].Target, "/") {
			if g.Linkname == path.Join("/"+prefix, want[i].Target) {
				w.Linkname = g.Linkname
			}
		}
		if w.Mode != g.Mode || w.Uid != g.Uid || w.Gid != g.Gid || w.Size != g.Size || w.ModTime != g.ModTime ||
			w.Linkname != g.Linkname || w.Devmajor != g.Devmajor || w.Devminor != g.Devminor || !xattrsEqual(w.Xattrs, g.Xattrs) {
			r.Violate("walk-stat", "%s: stat of %q differs from lstat/readlink/listxattr:\nwant %v\ngot  %v", what, g.Path, w, g)
		}
	}
}

func xattrsEqual(a, b map[string][]byte) bool {
	return tree.XattrEq(a, b)
}

func prefixed(ents []tree.Entry, name string, dirStat tree.Entry) []tree.Entry {
	out := []tree.Entry{dirStat}
	for _, e := range ents {
		c := e.Clone()
		c.Path = name + "/" + e.Path
		if c.LinkTo != "" {
			c.LinkTo = name + "/" + c.LinkTo
		}
		out = append(out, c)
	}
	return out
}

func init() {
	core.Register(&core.Prop{
		ID:    "C09",
		Level: "exploration",
		Rule: "Plus (1 case of 50) trees deeper than PATH_MAX built relative to directory descriptors - a walk that returns nil has reported every entry - and sub-root names that are no path element ('.', '..', '/'). random trees (adversarial name pool with bytes below and above '/', 255-byte names, all entry types incl. sockets, symlinks with a second name (1 tree of 6), extended POSIX access ACLs and default ACLs (system.posix_acl_*) on files and directories in 1 tree of 8, hard-link groups of files and of special files, depth<=6) are created on disk; fsutil.Walk, fsutil.WalkDir, FS.Walk on a sub-target and SubDirFS are run and their callback sequences compared with an independent lstat/readlink/listxattr snapshot sorted component-wise. " +
			"non-trivial = tree that has an order-sensitive sibling set (directory 'x' with children next to 'x<byte below />...'), a link group or a special file; distinct by tree fingerprint",
		Assumptions: []string{"runs as root on a file system with mknod, user.* and trusted.* xattrs", "the tree is not modified during the walk"},
		Cases: func(tier string) int {
			if tier == "thorough" {
				return 600000
			}
			return 3000
		},
		Batch:         100,
		MinNontrivial: func(tier string) int { return 100 },
		Run:           c09Run,
	})
}

// c09Deep: a tree deeper than PATH_MAX (built relative to directory
// descriptors). The walk works with full path names and may fail there; what
// it may not do is return success having reported only a part of the tree.
func c09Deep(c *core.Ctx, r *core.Result) *core.Result {
	root := filepath.Join(c.Dir, "deep")
	if err := os.Mkdir(root, 0755); err != nil {
		r.Inconclusive = err.Error()
		return r
	}
	fd, err := unix.Open(root, unix.O_RDONLY|unix.O_DIRECTORY, 0)
	if err != nil {
		r.Inconclusive = err.Error()
		return r
	}
	name := strings.Repeat("d", 200)
	levels := 22 + c.Index%5
	made := 0
	for i := 0; i < levels; i++ {
		if ffd, err := unix.Openat(fd, "f", unix.O_CREAT|unix.O_WRONLY, 0644); err == nil {
			unix.Close(ffd)
			made++
		}
		if err := unix.Mkdirat(fd, name, 0755); err != nil {
			break
		}
		nfd, err := unix.Openat(fd, name, unix.O_RDONLY|unix.O_DIRECTORY, 0)
		if err != nil {
			break
		}
		unix.Close(fd)
		fd = nfd
		made++
	}
	unix.Close(fd)
	r.FP = fmt.Sprintf("deep-%d", levels)
	r.Sample = map[string]any{"tree": fmt.Sprintf("%d nested directories with 200-byte names, a file in each", levels)}
	if made < 2*levels {
		r.Inconclusive = "could not build the deep tree"
		return r
	}
	for _, how := range []string{"NewFS", "FilterFS"} {
		fs, err := fsutil.NewFS(root)
		if err == nil && how == "FilterFS" {
			fs, err = fsutil.NewFilterFS(fs, &fsutil.FilterOpt{})
		}
		if err != nil {
			r.Inconclusive = err.Error()
			return r
		}
		n := 0
		werr := fs.Walk(context.Background(), "", func(p string, d gofs.DirEntry, err error) error {
			if err != nil {
				return err
			}
			n++
			return nil
		})
		if werr == nil && n != made {
			r.Violate("walk-truncated", "%s walk of a tree of %d entries (deeper than PATH_MAX) returned nil after reporting %d of them", how, made, n)
		} else if werr != nil {
			r.Count("walks_of_trees_deeper_than_PATH_MAX_that_fail", 1)
		} else {
			r.Count("walks_of_trees_deeper_than_PATH_MAX_complete", 1)
		}
	}
	r.Nontrivial = true
	return r
}

func c09Run(c *core.Ctx) *core.Result {
	r := &core.Result{}
	if !needRoot(r) {
		return r
	}
	if c.Index%50 == 31 {
		return c09Deep(c, r)
	}
	o := tree.DefaultOpt()
	o.MaxDepth = 6
	o.MaxEntries = 40
	o.Types = "fdlpcbs"
	o.SpecLinks = true
	o.SymXattrs = true
	o.MaxSize = 70000
	t := tree.Gen(c.R, o)
	// sockets: the generator does not produce them by weight; convert a few fifos
	for i := range t.Entries {
		if t.Entries[i].Type == tree.Fifo && t.Entries[i].LinkTo == "" && t.GroupOf(t.Entries[i].Path) == "" && c.R.P(1, 3) {
			t.Entries[i].Type = tree.Sock
		}
	}
	src := filepath.Join(c.Dir, "src")
	os.Mkdir(src, 0755)
	if err := tree.Materialise(src, t); err != nil {
		r.Inconclusive = "materialise: " + err.Error()
		return r
	}
	// symlinks with a second name (link(2) on a symlink links the symlink):
	// every name is reported as the symlink it is, with its target
	if lr := core.NewRand(core.Mix(c.Seed, "C09-linked-symlinks", c.Index)); lr.P(1, 6) {
		for i := range t.Entries {
			e := &t.Entries[i]
			if e.Type != tree.Symlink || !lr.P(1, 2) {
				continue
			}
			nw := e.Path + core.Pick(lr, []string{"~2", ".hl", "-zz"})
			if t.Get(nw) == nil && len(filepath.Base(nw)) < 250 {
				full := filepath.Join(src, tree.Parent(e.Path))
				var pst unix.Stat_t
				if unix.Lstat(full, &pst) != nil {
					continue
				}
				if os.Link(filepath.Join(src, e.Path), filepath.Join(src, nw)) == nil {
					r.Count("symlinks_with_a_second_name", 1)
				}
				unix.UtimesNanoAt(unix.AT_FDCWD, full, []unix.Timespec{pst.Atim, pst.Mtim}, unix.AT_SYMLINK_NOFOLLOW)
			}
		}
	}
	// POSIX ACLs: attributes of the system.* namespace the kernel lists like
	// any other (an extended access ACL on a file or directory, a default ACL
	// on a directory). The snapshot below is taken afterwards.
	if ar := core.NewRand(core.Mix(c.Seed, "C09-acl", c.Index)); ar.P(1, 8) {
		acl := func(named uint32) []byte {
			b := []byte{2, 0, 0, 0}
			ent := func(tag, perm uint16, id uint32) {
				b = append(b, byte(tag), byte(tag>>8), byte(perm), byte(perm>>8), byte(id), byte(id>>8), byte(id>>16), byte(id>>24))
			}
			ent(0x01, 6, 0xffffffff)
			ent(0x02, 4, named)
			ent(0x04, 4, 0xffffffff)
			ent(0x10, 4, 0xffffffff)
			ent(0x20, 0, 0xffffffff)
			return b
		}
		for i := range t.Entries {
			e := &t.Entries[i]
			if (e.Type != tree.File && e.Type != tree.Dir) || !ar.P(1, 3) {
				continue
			}
			full := filepath.Join(src, e.Path)
			if unix.Lsetxattr(full, "system.posix_acl_access", acl(1234), 0) == nil {
				r.Count("entries_with_an_extended_access_acl", 1)
			}
			if e.Type == tree.Dir && ar.P(1, 2) && unix.Lsetxattr(full, "system.posix_acl_default", acl(4321), 0) == nil {
				r.Count("directories_with_a_default_acl", 1)
			}
		}
	}
	// mount points inside the tree: inode numbers are unique per file system
	// only, and two fresh tmpfs instances hand out the same ones. A file of
	// the second mount that has several names must not be taken for a link of
	// an unrelated file of the first mount.
	if c.R.P(1, 60) {
		mounted := []string{}
		for _, nm := range []string{"zm1", "zm2"} {
			d := filepath.Join(src, nm)
			if os.Mkdir(d, 0755) != nil || unix.Mount("tmpfs", d, "tmpfs", 0, "size=1m") != nil {
				break
			}
			mounted = append(mounted, d)
		}
		defer func() {
			for _, d := range mounted {
				unix.Unmount(d, unix.MNT_DETACH)
			}
		}()
		if len(mounted) == 2 {
			os.WriteFile(filepath.Join(mounted[0], "a"), []byte("ONE"), 0644)
			os.WriteFile(filepath.Join(mounted[0], "c"), []byte("ONE-C"), 0600)
			os.WriteFile(filepath.Join(mounted[1], "a"), []byte("TWO-TWO"), 0644)
			os.Link(filepath.Join(mounted[1], "a"), filepath.Join(mounted[1], "b"))
			os.WriteFile(filepath.Join(mounted[1], "c"), []byte("TWO-C"), 0600)
			os.Link(filepath.Join(mounted[1], "c"), filepath.Join(mounted[1], "d"))
			r.Count("trees_with_two_mounted_file_systems", 1)
		}
	}
	snap, err := tree.Snapshot(src, tree.SnapOpt{})
	if err != nil {
		r.Inconclusive = "snapshot: " + err.Error()
		return r
	}
	r.Sample = trunc(t.Lines(), 30)
	r.FP = t.Fingerprint()
	r.Nontrivial = orderSensitive(t) || hasLinks(t) || hasType(t, "pcbs")
	if orderSensitive(t) {
		r.Count("order_sensitive_trees", 1)
	}
	if hasLinks(t) {
		r.Count("trees_with_link_groups", 1)
	}
	r.Count("entries", int64(len(snap.Entries)))

	// 1. fsutil.Walk
	var got []*types.Stat
	seen := map[string]int{}
	err = fsutil.Walk(context.Background(), src, nil, func(p string, fi os.FileInfo, err error) error {
		if err != nil {
			return err
		}
		st := fi.Sys().(*types.Stat)
		seen[p]++
		got = append(got, st)
		if fi.Name() != tree.Base(p) || fi.IsDir() != st.IsDir() {
			r.Violate("walk-stat", "FileInfo of %q inconsistent with its stat", p)
		}
		return nil
	})
	if err != nil {
		r.Violate("walk-error", "fsutil.Walk failed on a readable tree: %v", err)
		return r
	}
	for p, n := range seen {
		if n != 1 {
			r.Violate("walk-dup", "%q reported %d times", p, n)
		}
		if p == "." || p == "" || p == "/" {
			r.Violate("walk-root", "the root itself was reported as %q", p)
		}
	}
	c09Compare(r, "Walk", snap.Entries, got, "")

	// 2. WalkDir / FS.Walk via NewFS
	fs, err := fsutil.NewFS(src)
	if err != nil {
		r.Violate("walk-error", "NewFS: %v", err)
		return r
	}
	got2, err := walkStats(fs, "/")
	if err != nil {
		r.Violate("walk-error", "FS.Walk failed: %v", err)
		return r
	}
	c09Compare(r, "FS.Walk(/)", snap.Entries, got2, "")

	// 2b. the root named through a symlink, spelled the ways a caller may
	// spell a directory: the walk is the walk of the directory
	if core.NewRand(core.Mix(c.Seed, "C09-root-spelling", c.Index)).P(1, 5) {
		link := filepath.Join(c.Dir, "srclink")
		os.Remove(link)
		if os.Symlink("src", link) == nil {
			for _, sp := range []string{link, link + "/", link + "/.", src + "/", src + "/."} {
				rfs, err := fsutil.NewFS(sp)
				if err != nil {
					r.Violate("walk-error", "NewFS(%q) failed: %v", sp, err)
					continue
				}
				gotS, err := walkStats(rfs, "")
				if err != nil {
					r.Violate("walk-error", "NewFS(%q).Walk failed: %v", sp, err)
					continue
				}
				r.Count("root_spellings_walked", 1)
				if len(gotS) != len(got2) {
					r.Violate("walk-root-spelling", "NewFS(%q).Walk reports %d entries, NewFS(%q).Walk reports %d", sp, len(gotS), src, len(got2))
				}
			}
		}
	}
	// the wrapper Send puts around every FS must not change an unfiltered view
	if got2b, err := walkStats(fsutil.WithHardlinkReset(fs), "/"); err != nil {
		r.Violate("walk-error", "walk through WithHardlinkReset failed: %v", err)
	} else {
		c09Compare(r, "WithHardlinkReset(FS).Walk(/)", snap.Entries, got2b, "")
	}

	// 3. sub-target walk = restriction
	if len(snap.Entries) > 0 {
		tg := core.Pick(c.R, snap.Entries)
		var want []tree.Entry
		for _, e := range snap.Entries {
			if e.Path == tg.Path || strings.HasPrefix(e.Path, tg.Path+"/") {
				want = append(want, e)
			}
		}
		got3, err := walkStats(fs, tg.Path)
		if err != nil {
			r.Violate("walk-error", "FS.Walk(%q) failed: %v", tg.Path, err)
		} else {
			// a sub-walk starts a fresh inode map: link names are only
			// demanded relative to the first member inside the restriction
			sub := &tree.Tree{Entries: make([]tree.Entry, len(want))}
			for i, e := range want {
				sub.Entries[i] = e.Clone()
			}
			regroup(sub)
			c09Compare(r, fmt.Sprintf("FS.Walk(%q)", tg.Path), sub.Entries, got3, "")
			r.Count("subtarget_walks", 1)
		}
	}

	// 3c. an FS rooted at the file-system root itself, walked at the tree
	// (the only root whose cleaned form ends in a separator)
	if c.R.P(1, 4) {
		if rfs, err := fsutil.NewFS("/"); err == nil {
			rel := strings.TrimPrefix(filepath.ToSlash(src), "/")
			if top, err := tree.LstatEntry(src, tree.SnapOpt{NoData: true}); err == nil {
				top.Path = rel
				got3c, err := walkStats(rfs, rel)
				if err != nil {
					r.Violate("walk-error", "NewFS(\"/\").Walk(%q) failed: %v", rel, err)
				} else {
					c09Compare(r, "NewFS(\"/\").Walk(tree)", prefixed(snap.Entries, rel, *top), got3c, "")
					r.Count("walks_from_the_filesystem_root", 1)
				}
			}
		}
	}

	// 3d. file systems whose lstat does not report the length of a link
	// target (procfs and sysfs report 0): the link name must still be what
	// readlink returns, whatever size the walk was told
	if core.NewRand(core.Mix(c.Seed, "C09-procfs", c.Index)).P(1, 20) {
		for _, dir := range []string{"/proc/self/ns", "/sys/class/net", "/proc/self"} {
			checked := 0
			err := fsutil.Walk(context.Background(), dir, nil, func(p string, fi os.FileInfo, err error) error {
				if err != nil {
					if fi != nil && fi.IsDir() {
						return filepath.SkipDir
					}
					return nil
				}
				if fi.IsDir() && p != "" {
					return filepath.SkipDir // top level only
				}
				if fi.Mode()&os.ModeSymlink == 0 {
					return nil
				}
				buf := make([]byte, 8192)
				n, rerr := unix.Readlink(filepath.Join(dir, p), buf)
				if rerr != nil {
					return nil // gone meanwhile (these trees live)
				}
				st := fi.Sys().(*types.Stat)
				again, _ := unix.Readlink(filepath.Join(dir, p), buf[4096:])
				if st.Linkname != string(buf[:n]) && again == n && string(buf[4096:4096+again]) == string(buf[:n]) {
					r.Violate("walk-stat", "Walk(%q): %q is reported with link name %q, readlink gives %q (lstat reports size %d for it)", dir, p, st.Linkname, buf[:n], st.Size)
				}
				checked++
				return nil
			})
			_ = err
			r.Count("symlinks_compared_on_procfs_sysfs", int64(checked))
		}
	}

	// 3b. the single-entry stat constructor
	for k := 0; k < 3 && len(snap.Entries) > 0; k++ {
		e := core.Pick(c.R, snap.Entries)
		st, err := fsutil.Stat(filepath.Join(src, e.Path))
		if err != nil {
			r.Violate("walk-error", "fsutil.Stat(%q) failed: %v", e.Path, err)
			continue
		}
		w := e.Clone()
		w.Path = tree.Base(e.Path)
		w.LinkTo = ""
		c09Compare(r, "Stat("+e.Path+")", []tree.Entry{w}, []*types.Stat{st}, "")
		r.Count("single_stats_compared", 1)
	}

	// 4. SubDirFS
	names := []string{"sub", "a-b", "zz"}
	core.Shuffle(c.R, names)
	names = names[:c.R.Range(1, 3)]
	var dirs []fsutil.Dir
	var want []tree.Entry
	sortedNames := append([]string(nil), names...)
	for i := range sortedNames {
		for j := i + 1; j < len(sortedNames); j++ {
			if sortedNames[j] < sortedNames[i] {
				sortedNames[i], sortedNames[j] = sortedNames[j], sortedNames[i]
			}
		}
	}
	for _, nm := range names {
		dirs = append(dirs, fsutil.Dir{FS: fs, Stat: &types.Stat{Path: nm, Mode: uint32(os.ModeDir | 0750), Uid: 7, Gid: 8, ModTime: 12345}})
	}
	for _, nm := range sortedNames {
		want = append(want, prefixed(snap.Entries, nm, tree.Entry{Path: nm, Type: tree.Dir, Perm: 0750, UID: 7, GID: 8, Mtime: 12345})...)
	}
	// (a sub-root "name" that is no path element - ".", "..", "/" - must
	// be refused; where it is accepted the walk has to obey the clauses all
	// the same: never the root itself, strictly ascending, every entry once)
	if br := core.NewRand(core.Mix(c.Seed, "C09-subroot-names", c.Index)); br.P(1, 6) {
		bad := core.Pick(br, []string{".", "..", "/"})
		bdirs := []fsutil.Dir{{FS: fs, Stat: &types.Stat{Path: bad, Mode: uint32(os.ModeDir | 0750)}}, {FS: fs, Stat: &types.Stat{Path: "a", Mode: uint32(os.ModeDir | 0750)}}}
		if bfs, err := fsutil.SubDirFS(bdirs); err != nil {
			r.Count("sub_root_names_that_are_no_path_element_refused", 1)
		} else if sts, err := walkStats(bfs, "/"); err == nil {
			for i, st := range sts {
				cp := path.Clean("/" + st.Path)
				if st.Path == "." || st.Path == ".." || strings.HasPrefix(st.Path, "/") || strings.HasPrefix(st.Path, "../") || cp == "/" {
					r.Violate("composite-name", "SubDirFS accepts the sub-root name %q and its walk reports %q: the root itself or a path outside it", bad, st.Path)
					break
				}
				if i > 0 && tree.CmpPath(sts[i-1].Path, st.Path) >= 0 {
					r.Violate("composite-name", "SubDirFS accepts the sub-root name %q and its walk reports %q after %q: not strictly ascending", bad, st.Path, sts[i-1].Path)
					break
				}
			}
		}
	}
	sfs, err := fsutil.SubDirFS(dirs)
	if err != nil {
		r.Violate("walk-error", "SubDirFS: %v", err)
		return r
	}
	got4, err := walkStats(sfs, "/")
	if err != nil {
		r.Violate("walk-error", "SubDirFS walk failed: %v", err)
		return r
	}
	// compare per sub-root so that the symlink prefix rule knows the name
	off := 0
	for _, nm := range sortedNames {
		n := len(snap.Entries) + 1
		if off+n > len(got4) {
			r.Violate("walk-set", "SubDirFS walk reported %d entries, want %d", len(got4), len(want))
			break
		}
		c09Compare(r, "SubDirFS["+nm+"]", want[off:off+n], got4[off:off+n], nm)
		off += n
	}
	if off != len(got4) && len(r.Viols) == 0 {
		r.Violate("walk-set", "SubDirFS walk reported %d entries, want %d", len(got4), off)
	}
	r.Count("subdirfs_walks", 1)

	// 5. a sub-target below one of the sub-roots: like every FS, the walk
	// starts at the target (the sub-root above it is not part of it)
	if len(snap.Entries) > 0 && len(r.Viols) == 0 {
		nm := core.Pick(c.R, sortedNames)
		tg := core.Pick(c.R, snap.Entries)
		var want5 []tree.Entry
		for _, e := range snap.Entries {
			if e.Path == tg.Path || strings.HasPrefix(e.Path, tg.Path+"/") {
				want5 = append(want5, e)
			}
		}
		sub := &tree.Tree{Entries: make([]tree.Entry, len(want5))}
		for i, e := range want5 {
			sub.Entries[i] = e.Clone()
		}
		regroup(sub)
		got5, err := walkStats(sfs, nm+"/"+tg.Path)
		if err != nil {
			r.Violate("walk-error", "SubDirFS walk of sub-target %q failed: %v", nm+"/"+tg.Path, err)
		} else {
			exp5 := prefixed(sub.Entries, nm, tree.Entry{})[1:]
			if len(got5) != len(exp5) {
				var ps []string
				for _, g := range got5 {
					ps = append(ps, g.Path)
				}
				r.Violate("walk-set", "SubDirFS walk of sub-target %q reported %d entries %q, want the %d entries at and below the target", nm+"/"+tg.Path, len(got5), trunc(ps, 6), len(exp5))
			} else {
				c09Compare(r, fmt.Sprintf("SubDirFS.Walk(%q)", nm+"/"+tg.Path), exp5, got5, nm)
			}
			r.Count("subdirfs_subtarget_walks", 1)
		}
		// 6. the same targets spelled the ways the other FS implementations
		// accept: the walk reports the same paths
		pathsOf := func(target string) ([]string, error) {
			sts, err := walkStats(sfs, target)
			var ps []string
			for _, st := range sts {
				ps = append(ps, st.Path)
			}
			return ps, err
		}
		if len(r.Viols) == 0 {
			for _, pair := range [][2]string{{"", "."}, {"", "/"}, {nm, "/" + nm}, {nm, "./" + nm}, {nm, nm + "/."}, {nm + "/" + tg.Path, "/" + nm + "/" + tg.Path}, {nm + "/" + tg.Path, "./" + nm + "/./" + tg.Path}} {
				want, err1 := pathsOf(pair[0])
				got, err2 := pathsOf(pair[1])
				r.Count("subdirfs_target_spellings_compared", 1)
				if (err1 == nil) != (err2 == nil) || !eqStrings(want, got) {
					r.Violate("walk-target-spelling", "SubDirFS.Walk(%q) reports %d entries %q (err=%v), SubDirFS.Walk(%q) reports %d entries %q (err=%v)", pair[1], len(got), trunc(got, 6), err2, pair[0], len(want), trunc(want, 6), err1)
				}
			}
		}
	}
	return r
}

// regroup recomputes link groups from inode numbers within the given entries.
func regroup(t *tree.Tree) {
	type key struct{ dev, ino uint64 }
	first := map[key]string{}
	for i := range t.Entries {
		e := &t.Entries[i]
		e.LinkTo = ""
		if e.Type == tree.Dir || e.Type == tree.Symlink || e.Nlink < 2 {
			continue
		}
		k := key{e.Dev, e.Ino}
		if f, ok := first[k]; ok {
			e.LinkTo = f
		} else {
			first[k] = e.Path
		}
	}
}
