package main

import (
	"fmt"
	"strings"

	"verif/internal/core"
	"verif/internal/tree"
)

// Edit histories over the tree model (C01 prior destinations, C02, C05).
// Hard link groups stay consistent: members share data and metadata.

func groupIdx(t *tree.Tree, p string) []int {
	e := t.Get(p)
	if e == nil {
		return nil
	}
	canon := p
	if e.LinkTo != "" {
		canon = e.LinkTo
	}
	var out []int
	for i := range t.Entries {
		if t.Entries[i].Path == canon || t.Entries[i].LinkTo == canon {
			out = append(out, i)
		}
	}
	return out
}

func applyGroup(t *tree.Tree, p string, f func(e *tree.Entry)) {
	for _, i := range groupIdx(t, p) {
		f(&t.Entries[i])
	}
}

// fixGroups repairs LinkTo fields after members were removed or retyped.
func fixGroups(t *tree.Tree) {
	idx := t.Index()
	groups := map[string][]string{}
	for i := range t.Entries {
		e := &t.Entries[i]
		if e.LinkTo == "" {
			continue
		}
		groups[e.LinkTo] = append(groups[e.LinkTo], e.Path)
	}
	for canon, members := range groups {
		if j, ok := idx[canon]; ok && t.Entries[j].LinkTo == "" && t.Entries[j].Type == t.Entries[idx[members[0]]].Type {
			continue
		}
		// canonical member vanished: the first remaining member takes over
		first := members[0]
		for _, m := range members {
			if tree.CmpPath(m, first) < 0 {
				first = m
			}
		}
		for _, m := range members {
			e := &t.Entries[idx[m]]
			if m == first {
				e.LinkTo = ""
			} else {
				e.LinkTo = first
			}
		}
	}
	t.Recanon()
}

func removePath(t *tree.Tree, p string) {
	t.Remove(p)
	fixGroups(t)
}

func newMtime(r *core.Rand, old int64) int64 {
	if r.P(1, 5) {
		// another instant of the same second: the whole second when the old
		// one has a fraction, a fraction when it is a whole second (what a
		// file unpacked from an archive and touched afterwards looks like)
		sec := old / 1_000_000_000
		if old%1_000_000_000 < 0 {
			sec--
		}
		if whole := sec * 1_000_000_000; whole != old {
			return whole
		}
		return old + int64(1+r.Intn(999_999_999))
	}
	for {
		m := int64(1_000_000_000+r.Intn(700_000_000))*1_000_000_000 + int64(r.Intn(1_000_000_000))
		if r.P(1, 6) {
			m = core.Pick(r, tree.Mtimes)
		}
		if m != old {
			return m
		}
	}
}

type editOpt struct {
	Owners  []uint32
	Types   string
	NoLinks bool
	Xattrs  bool
}

// mutate applies n random edits and returns their descriptions.
func mutate(r *core.Rand, t *tree.Tree, n int, o editOpt) []string {
	var desc []string
	if len(o.Owners) == 0 {
		o.Owners = []uint32{0}
	}
	if o.Types == "" {
		o.Types = "fdl"
	}
	for k := 0; k < n; k++ {
		d := mutateOnce(r, t, o)
		if d != "" {
			desc = append(desc, d)
		}
	}
	t.Sort()
	fixGroups(t)
	return desc
}

func pickOf(r *core.Rand, t *tree.Tree, types string) *tree.Entry {
	var c []int
	for i, e := range t.Entries {
		if strings.IndexByte(types, e.Type) >= 0 {
			c = append(c, i)
		}
	}
	if len(c) == 0 {
		return nil
	}
	return &t.Entries[core.Pick(r, c)]
}

func dirsOf(t *tree.Tree) []string {
	d := []string{""}
	for _, e := range t.Entries {
		if e.Type == tree.Dir {
			d = append(d, e.Path)
		}
	}
	return d
}

func freshName(r *core.Rand, t *tree.Tree, dir string) string {
	for i := 0; i < 20; i++ {
		nm := core.Pick(r, tree.Names)
		if r.P(1, 3) {
			nm += core.Pick(r, []string{"1", "-x", ".n", " 2"})
		}
		p := nm
		if dir != "" {
			p = dir + "/" + nm
		}
		if t.Get(p) == nil {
			return p
		}
	}
	return ""
}

func newEntry(r *core.Rand, p string, typ byte, o editOpt) tree.Entry {
	e := tree.Entry{Path: p, Type: typ, UID: core.Pick(r, o.Owners), GID: core.Pick(r, o.Owners), Mtime: newMtime(r, -1)}
	switch typ {
	case tree.Dir:
		e.Perm = core.Pick(r, []uint32{0755, 0700, 0750})
	case tree.File:
		e.Perm = core.Pick(r, []uint32{0644, 0600, 0755})
		e.Data = r.Bytes(core.Pick(r, []int{0, 1, 5, 100, 4096, 32768, 40000}))
		if len(e.Data) == 0 {
			e.Data = []byte{}
		}
	case tree.Symlink:
		e.Perm = 0777
		e.Target = core.Pick(r, []string{"a", "../b", "/c", "x/y", "."})
	case tree.Fifo:
		e.Perm = 0644
	case tree.Char, tree.Block:
		e.Perm = 0600
		e.Major, e.Minor = core.Pick(r, []uint32{1, 5, 259}), core.Pick(r, []uint32{0, 3, 300})
	}
	return e
}

func mutateOnce(r *core.Rand, t *tree.Tree, o editOpt) string {
	ops := []string{"rewrite-same", "rewrite-other", "touch", "chmod", "chown", "delete", "add", "rename", "swap", "link", "unlink", "renumber", "retarget", "xattr", "touch-dir-mode"}
	op := core.Pick(r, ops)
	switch op {
	case "rewrite-same":
		e := pickOf(r, t, "f")
		if e == nil || len(e.Data) == 0 {
			return ""
		}
		nd := r.Bytes(len(e.Data))
		nm := newMtime(r, e.Mtime)
		p := e.Path
		applyGroup(t, p, func(x *tree.Entry) { x.Data = append([]byte{}, nd...); x.Mtime = nm })
		return "rewrite-same " + p
	case "rewrite-other":
		e := pickOf(r, t, "f")
		if e == nil {
			return ""
		}
		sz := core.Pick(r, []int{0, 1, 7, 300, 32769, 65536})
		if sz == len(e.Data) {
			sz++
		}
		nd := r.Bytes(sz)
		if sz == 0 {
			nd = []byte{}
		}
		nm := e.Mtime
		if r.P(2, 3) {
			nm = newMtime(r, e.Mtime)
		}
		p := e.Path
		applyGroup(t, p, func(x *tree.Entry) { x.Data = append([]byte{}, nd...); x.Mtime = nm })
		return "rewrite-other " + p
	case "touch":
		e := pickOf(r, t, "flpcb")
		if e == nil {
			return ""
		}
		nm := newMtime(r, e.Mtime)
		p := e.Path
		applyGroup(t, p, func(x *tree.Entry) { x.Mtime = nm })
		return "touch " + p
	case "chmod", "touch-dir-mode":
		types := "fdpcb"
		if op == "touch-dir-mode" {
			types = "d"
		}
		e := pickOf(r, t, types)
		if e == nil {
			return ""
		}
		np := e.Perm
		for np == e.Perm {
			if e.Type == tree.Dir {
				np = core.Pick(r, []uint32{0755, 0700, 0750, 0711, 01755, 02755})
			} else {
				np = core.Pick(r, []uint32{0644, 0600, 0755, 0640, 04755, 02750, 0444})
			}
		}
		p := e.Path
		applyGroup(t, p, func(x *tree.Entry) { x.Perm = np })
		return fmt.Sprintf("chmod %s %o", p, np)
	case "chown":
		if len(o.Owners) < 2 {
			return ""
		}
		e := pickOf(r, t, "fdlpcb")
		if e == nil {
			return ""
		}
		u, g := e.UID, e.GID
		for u == e.UID && g == e.GID {
			u, g = core.Pick(r, o.Owners), core.Pick(r, o.Owners)
		}
		p := e.Path
		applyGroup(t, p, func(x *tree.Entry) { x.UID, x.GID = u, g })
		return fmt.Sprintf("chown %s %d:%d", p, u, g)
	case "delete":
		e := pickOf(r, t, "fdlpcb")
		if e == nil {
			return ""
		}
		p := e.Path
		removePath(t, p)
		d := "delete " + p
		if r.P(1, 2) {
			// with it, the siblings whose names merely start with its name
			// (they follow it, or its subtree, in walk order)
			var also []string
			for _, x := range t.Entries {
				if tree.Parent(x.Path) == tree.Parent(p) && x.Path != p && strings.HasPrefix(x.Path, p) {
					also = append(also, x.Path)
				}
			}
			for _, a := range also {
				removePath(t, a)
				d += " +lookalike " + a
			}
		}
		return d
	case "add":
		d := core.Pick(r, dirsOf(t))
		p := freshName(r, t, d)
		if p == "" {
			return ""
		}
		typ := o.Types[r.Intn(len(o.Types))]
		t.Put(newEntry(r, p, typ, o))
		if typ == tree.Dir && r.P(1, 2) {
			t.Put(newEntry(r, p+"/"+core.Pick(r, tree.Names), tree.File, o))
		}
		return fmt.Sprintf("add %c %s", typ, p)
	case "rename":
		e := pickOf(r, t, "fdlpcb")
		if e == nil {
			return ""
		}
		old := e.Path
		np := freshName(r, t, core.Pick(r, dirsOf(t)))
		if np == "" || strings.HasPrefix(np, old+"/") || np == old {
			return ""
		}
		if len(np)+200 > 3000 {
			return ""
		}
		for i := range t.Entries {
			x := &t.Entries[i]
			if x.Path == old {
				x.Path = np
			} else if strings.HasPrefix(x.Path, old+"/") {
				x.Path = np + x.Path[len(old):]
			}
			if x.LinkTo == old {
				x.LinkTo = np
			} else if strings.HasPrefix(x.LinkTo, old+"/") {
				x.LinkTo = np + x.LinkTo[len(old):]
			}
		}
		t.Sort()
		t.Recanon()
		return "rename " + old + " -> " + np
	case "swap":
		e := pickOf(r, t, "fdl")
		if e == nil {
			return ""
		}
		p := e.Path
		var nt byte = tree.File
		for nt = o.Types[r.Intn(len(o.Types))]; nt == e.Type; nt = o.Types[r.Intn(len(o.Types))] {
			if len(o.Types) < 2 {
				return ""
			}
		}
		removePath(t, p)
		t.Put(newEntry(r, p, nt, o))
		if nt == tree.Dir && r.P(1, 2) {
			t.Put(newEntry(r, p+"/"+core.Pick(r, tree.Names), tree.File, o))
		}
		return fmt.Sprintf("swap %s -> %c", p, nt)
	case "link":
		if o.NoLinks {
			return ""
		}
		e := pickOf(r, t, "f")
		if e == nil {
			return ""
		}
		p := freshName(r, t, core.Pick(r, dirsOf(t)))
		if p == "" {
			return ""
		}
		canon := e.Path
		if e.LinkTo != "" {
			canon = e.LinkTo
		}
		ne := t.Get(canon).Clone()
		ne.Path = p
		ne.LinkTo = canon
		t.Put(ne)
		t.Recanon()
		return "link " + p + " = " + canon
	case "unlink":
		// break one member out of its group (becomes a standalone copy)
		var c []int
		for i, e := range t.Entries {
			if e.LinkTo != "" {
				c = append(c, i)
			}
		}
		if len(c) == 0 {
			return ""
		}
		i := core.Pick(r, c)
		p := t.Entries[i].Path
		ne := t.Entries[i].Clone()
		ne.LinkTo = ""
		t.Remove(p)
		fixGroups(t)
		t.Put(ne)
		return "unlink " + p
	case "renumber":
		e := pickOf(r, t, "cb")
		if e == nil {
			return ""
		}
		p := e.Path
		mj, mn := 1+(e.Major+1)%4000, (e.Minor+7)%(1<<20) // Linux: 12-bit major, 20-bit minor
		applyGroup(t, p, func(x *tree.Entry) { x.Major, x.Minor = mj, mn })
		return "renumber " + p
	case "retarget":
		e := pickOf(r, t, "l")
		if e == nil {
			return ""
		}
		if e.Target != "" && r.P(1, 2) {
			// another spelling of the same path (the time stamp stays): to
			// the kernel, and to readlink, it is another target
			e.Target = core.Pick(r, []string{"./" + e.Target, e.Target + "/", e.Target + "/.", "zz/../" + e.Target, strings.Replace(e.Target, "/", "//", 1)})
			if len(e.Target) < 200 {
				return "respell-target " + e.Path
			}
		}
		e.Target = e.Target + "x"
		return "retarget " + e.Path
	case "xattr":
		if !o.Xattrs {
			return ""
		}
		e := pickOf(r, t, "fd")
		if e == nil {
			return ""
		}
		p := e.Path
		v := r.Bytes(4)
		applyGroup(t, p, func(x *tree.Entry) {
			if x.Xattrs == nil {
				x.Xattrs = map[string][]byte{}
			}
			x.Xattrs["user.edit"] = append([]byte{}, v...)
		})
		return "xattr " + p
	}
	return ""
}
