package main

import (
	"time"

	"fmt"
	"golang.org/x/sys/unix"
	"os"
	"path/filepath"
	"sort"
	"strings"
	"sync/atomic"
	"syscall"

	"github.com/tonistiigi/fsutil"
	"github.com/tonistiigi/fsutil/types"
	"verif/internal/core"
	"verif/internal/tree"
	"verif/internal/wire"
)

// C01: sync convergence.

// expectSync computes the destination a successful non-merge transfer must
// produce. Entries whose identity (C02) equals the old destination's entry
// are legitimately left alone and keep the old bytes/xattrs; everything else
// is (re)created from the source view. created lists the directories the
// transfer creates (directory mtime/xattrs are demanded only for those).
func expectSync(src, old *tree.Tree, gotOpt ...*tree.Tree) (*tree.Tree, map[string]bool) {
	exp := src.Clone()
	created := map[string]bool{}
	oi := old.Index()
	// hard-link timing exception (C02): such an entry is either left alone
	// (old inode, old bytes/xattrs) or re-created; the observed inode tells which
	_, either := changedSet(old, src)
	var gi map[string]int
	var got *tree.Tree
	if len(gotOpt) > 0 && gotOpt[0] != nil {
		got = gotOpt[0]
		gi = got.Index()
	}
	for i := range exp.Entries {
		e := &exp.Entries[i]
		j, ok := oi[e.Path]
		if !ok {
			if e.Type == tree.Dir {
				created[e.Path] = true
			}
			continue
		}
		o := &old.Entries[j]
		if e.Type == tree.Dir {
			if o.Type != tree.Dir {
				created[e.Path] = true
			}
			continue
		}
		if identityEqual(o, e) {
			e.Data = o.Data
			e.Xattrs = o.Xattrs
		} else if either[e.Path] && got != nil {
			if k, ok := gi[e.Path]; ok && got.Entries[k].Ino == o.Ino && got.Entries[k].Dev == o.Dev {
				e.Data = o.Data
				e.Xattrs = o.Xattrs
			}
		}
	}
	// members of a link group share the inode of their first member
	ei := exp.Index()
	for i := range exp.Entries {
		e := &exp.Entries[i]
		if e.LinkTo != "" && e.Type != tree.Symlink {
			if j, ok := ei[e.LinkTo]; ok {
				e.Data = exp.Entries[j].Data
				e.Xattrs = exp.Entries[j].Xattrs
			}
		}
	}
	return exp, created
}

// expectMerge computes the overlay of the source over the old destination.
func expectMerge(src, old *tree.Tree) (*tree.Tree, map[string]bool) {
	gid := map[string]string{}
	for _, e := range old.Entries {
		if g := old.GroupOf(e.Path); g != "" {
			gid[e.Path] = "old#" + g
		}
	}
	exp := old.Clone()
	created := map[string]bool{}
	for _, e := range src.Entries {
		o := exp.Get(e.Path)
		if e.Type == tree.Dir && o != nil && o.Type == tree.Dir {
			o.Perm, o.UID, o.GID = e.Perm, e.UID, e.GID
			continue
		}
		if o != nil {
			for _, x := range exp.Entries {
				if x.Path == e.Path || strings.HasPrefix(x.Path, e.Path+"/") {
					delete(gid, x.Path)
				}
			}
			exp.Remove(e.Path)
		}
		ne := e.Clone()
		ne.LinkTo = ""
		exp.Put(ne)
		if e.Type == tree.Dir {
			created[e.Path] = true
		}
		if g := src.GroupOf(e.Path); g != "" {
			gid[e.Path] = "src#" + g
		}
	}
	// recompute LinkTo from group ids
	groups := map[string][]string{}
	for p, g := range gid {
		groups[g] = append(groups[g], p)
	}
	for i := range exp.Entries {
		exp.Entries[i].LinkTo = ""
	}
	idx := exp.Index()
	for _, ms := range groups {
		if len(ms) < 2 {
			continue
		}
		sort.Slice(ms, func(i, j int) bool { return tree.CmpPath(ms[i], ms[j]) < 0 })
		for _, m := range ms[1:] {
			exp.Entries[idx[m]].LinkTo = ms[0]
		}
	}
	return exp, created
}

func syncMask(created map[string]bool) tree.Mask {
	return tree.Mask{Perm: true, Owner: true, Mtime: true, DirMtime: true, Xattrs: true, DirXattrs: true, Links: true, Data: true, Rdev: true, Target: true, DirMetaOnly: created}
}

// collideTree builds a destination in which every top-level source path
// exists with a different type.
func collideTree(r *core.Rand, src *tree.Tree, o editOpt) *tree.Tree {
	d := &tree.Tree{}
	for _, e := range src.Entries {
		if strings.Contains(e.Path, "/") {
			continue
		}
		var nt byte
		for {
			nt = o.Types[r.Intn(len(o.Types))]
			if nt != e.Type {
				break
			}
		}
		d.Put(newEntry(r, e.Path, nt, o))
		if nt == tree.Dir {
			d.Put(newEntry(r, e.Path+"/"+core.Pick(r, tree.Names), core.Pick(r, []byte{tree.File, tree.Dir, tree.Symlink}), o))
			d.Put(newEntry(r, e.Path+"/.tmp.123456", tree.File, o))
		}
	}
	d.Sort()
	return d
}

func addLeftovers(r *core.Rand, t *tree.Tree, o editOpt) {
	for _, d := range dirsOf(t) {
		if r.P(1, 3) {
			p := ".tmp." + fmt.Sprintf("%09d", r.Intn(1e9))
			if d != "" {
				p = d + "/" + p
			}
			t.Put(newEntry(r, p, core.Pick(r, []byte{tree.File, tree.Dir, tree.Symlink}), o))
		}
	}
}

// asUser runs f with effective uid/gid switched (all threads), then restores.
func asUser(uid, gid int, f func()) error {
	if err := syscall.Setgroups([]int{gid}); err != nil {
		return err
	}
	if err := syscall.Setegid(gid); err != nil {
		return err
	}
	if err := syscall.Seteuid(uid); err != nil {
		syscall.Setegid(0)
		return err
	}
	defer func() {
		syscall.Seteuid(0)
		syscall.Setegid(0)
		syscall.Setgroups([]int{0})
	}()
	f()
	return nil
}

func chownTree(root string, uid, gid int) {
	filepath.Walk(root, func(p string, fi os.FileInfo, err error) error {
		if err == nil {
			os.Lchown(p, uid, gid)
		}
		return nil
	})
}

func init() {
	core.Register(&core.Prop{
		ID:    "C01",
		Level: "exploration",
		Rule: "In 1 transfer of 6 the destination argument is an unclean spelling of the same directory (trailing '/', '/.', '/./', '//', 'dest/../dest'). random source trees (adversarial names, sizes around the 32KiB chunk, hard-link groups incl. special files, symlinks, fifos, devices, setuid/setgid/sticky, owners, ns/negative mtimes, xattrs) x prior destinations {empty, unrelated tree, mutated copy, every-type-collides, leftovers with .tmp.* names} x {fresh, dirty, merge} x {on-disk source, synthetic in-memory source} x {root receiver, uid-1234 receiver with read-only files}; real Send+Receive over the instrumented stream; when both return nil an independent snapshot of dest is compared with the expected tree under the statement's mask. " +
			"non-trivial = both calls succeeded and the case has a multi-chunk file, a link group or special file, or an order-sensitive sibling set; distinct by (source, prior dest, config) fingerprint",
		Assumptions: []string{"root on a file system with mknod/xattr support; unprivileged receiver emulated by switching the effective uid/gid of the whole process (capabilities are dropped with it)", "the source is not modified during the transfer", "entries whose identity equals the old destination's are legitimately not re-transferred (C02)"},
		Cases: func(tier string) int {
			if tier == "thorough" {
				return 360000
			}
			return 4000
		},
		Batch:         50,
		MinNontrivial: func(tier string) int { return 200 },
		Run:           c01Run,
	})
}

type c01Case struct {
	Config  string   `json:"config"`
	Source  []string `json:"source"`
	Prior   []string `json:"prior_dest"`
	PriorBy string   `json:"prior_kind"`
}

func c01Run(c *core.Ctx) *core.Result {
	r := &core.Result{}
	if !needRoot(r) {
		return r
	}
	R := c.R
	unpriv := R.P(1, 4)
	synthetic := R.P(1, 3)
	merge := R.P(1, 4)
	o := tree.DefaultOpt()
	o.SpecLinks = true
	o.SymXattrs = !synthetic
	o.Big = R.P(1, 6)
	eo := editOpt{Owners: o.Owners, Types: "fdlpcb", Xattrs: true}
	if unpriv {
		o.Owners = []uint32{1234}
		o.Types = "fdlp"
		o.SymXattrs = false
		o.SecXattrs = false // needs CAP_SETFCAP
		eo = editOpt{Owners: []uint32{1234}, Types: "fdlp", Xattrs: true}
	}
	src := tree.Gen(R, o)
	if unpriv {
		for i := range src.Entries {
			e := &src.Entries[i]
			if e.Type == tree.Dir {
				e.Perm |= 0700
			}
		}
	}
	if unpriv && R.P(1, 2) {
		// targeted: read-only file with xattrs and several hard links (the
		// content writer and the link members touch the same inode)
		ro := tree.Entry{Path: "0ro", Type: tree.File, Perm: core.Pick(R, []uint32{0400, 0444, 04555}), UID: 1234, GID: 1234, Mtime: 1e18,
			Data: R.Bytes(core.Pick(R, []int{1, 4096, 40000, 70000})), Xattrs: map[string][]byte{"user.k1": R.Bytes(6)}}
		if src.Get(ro.Path) == nil {
			src.Put(ro)
			for i := 0; i < R.Range(2, 6); i++ {
				m := ro.Clone()
				m.Path = fmt.Sprintf("0ro.l%d", i)
				m.LinkTo = ro.Path
				if src.Get(m.Path) == nil {
					src.Put(m)
				}
			}
			src.Recanon()
		}
	}
	var prior *tree.Tree
	kinds := []string{"empty", "unrelated", "mutated", "collide", "leftovers", "aborted", "aborted"}
	kind := core.Pick(R, kinds)
	switch kind {
	case "empty":
		prior = &tree.Tree{}
	case "unrelated":
		prior = tree.Gen(R, o)
	case "mutated":
		prior = src.Clone()
		mutate(R, prior, R.Range(1, 6), eo)
	case "collide":
		prior = collideTree(R, src, eo)
	case "leftovers":
		prior = src.Clone()
		mutate(R, prior, R.Range(0, 3), eo)
		addLeftovers(R, prior, eo)
	case "aborted":
		// whatever a real transfer of this source leaves behind when the
		// stream is torn down at a random point (done below, after the
		// source exists)
		prior = &tree.Tree{}
		if R.P(1, 2) {
			prior = src.Clone()
			mutate(R, prior, R.Range(1, 4), eo)
		}
	}
	// a stale socket where the source has an empty regular file of the same
	// mode, owner and time: a walk reports a socket as an empty regular file,
	// the destination must still end up with the file
	if sr := core.NewRand(core.Mix(c.Seed, "C01-stale-socket", c.Index)); !merge && !unpriv && sr.P(1, 10) {
		if src.Get("zsock") == nil && sr.P(1, 2) {
			src.Put(tree.Entry{Path: "zsock", Type: tree.File, Perm: 0755, Mtime: 1_234_567_890_000_000_000, Data: []byte{}})
		}
		for _, e := range src.Entries {
			if e.Type != tree.File || e.LinkTo != "" || src.GroupOf(e.Path) != "" || len(e.Data) != 0 || len(e.Xattrs) != 0 {
				continue
			}
			ok := true
			for a := tree.Parent(e.Path); a != ""; a = tree.Parent(a) {
				if pe := prior.Get(a); pe == nil || pe.Type != tree.Dir {
					ok = false
				}
			}
			if !ok {
				continue
			}
			prior.Remove(e.Path)
			prior.Put(tree.Entry{Path: e.Path, Type: tree.Sock, Perm: e.Perm, UID: e.UID, GID: e.GID, Mtime: e.Mtime})
			r.Count("stale_sockets_at_the_path_of_an_equal_empty_file", 1)
		}
		fixGroups(prior)
	}
	if unpriv {
		for i := range prior.Entries {
			e := &prior.Entries[i]
			if e.Type == tree.Dir {
				e.Perm |= 0700
			}
		}
	}
	cfg := fmt.Sprintf("merge=%v synthetic=%v unpriv=%v prior=%s", merge, synthetic, unpriv, kind)
	r.Sample = c01Case{Config: cfg, Source: trunc(src.Lines(), 40), Prior: trunc(prior.Lines(), 40), PriorBy: kind}
	r.FP = src.Fingerprint() + prior.Fingerprint() + cfg
	r.AddSet("configs", cfg)

	farPath, farSec, farNsec := "", int64(0), int64(0)
	srcDir := filepath.Join(c.Dir, "src")
	dest := filepath.Join(c.Dir, "dest")
	os.Mkdir(srcDir, 0755)
	os.Mkdir(dest, 0755)
	if err := tree.Materialise(dest, prior); err != nil {
		r.Inconclusive = "materialise dest: " + err.Error()
		return r
	}
	var view *tree.Tree
	var fs fsutil.FS
	if synthetic {
		view = src
		sfs := newSynthFSReaders(src, R)
		if zr := core.NewRand(core.Mix(c.Seed, "C01-announced-size", c.Index)); kind != "aborted" && zr.P(1, 6) {
			// a view whose stat sizes are not exact (generated or virtual
			// files report 0, a log grows after the walk): what arrives is
			// what Open yields (not into leftovers of an aborted run of the same
			// view: an empty leftover with the final time equals a lying stat)
			off := map[string]int64{}
			for _, e := range src.Entries {
				if e.Type == tree.File && e.LinkTo == "" && src.GroupOf(e.Path) == "" && len(e.Data) > 0 && prior.Get(e.Path) == nil && zr.P(1, 2) {
					off[e.Path] = -int64(len(e.Data))
					if zr.P(1, 3) {
						off[e.Path] = -int64(1 + zr.Intn(len(e.Data)))
					}
				}
			}
			if len(off) > 0 {
				sfs.SizeOff = off
				r.Count("synthetic_views_announcing_less_than_the_content", 1)
			}
		}
		fs = sfs
	} else {
		// unix sockets in an on-disk source: the view exposes them as empty
		// regular entries (the walk does not carry the socket bit, opening
		// one fails and is answered with no content)
		onDisk := src.Clone()
		for i := range onDisk.Entries {
			if e := &onDisk.Entries[i]; e.Type == tree.Fifo && e.LinkTo == "" && onDisk.GroupOf(e.Path) == "" && R.P(1, 3) {
				e.Type = tree.Sock
				r.Count("sockets_in_the_source", 1)
			}
		}
		if err := tree.Materialise(srcDir, onDisk); err != nil {
			r.Inconclusive = "materialise src: " + err.Error()
			return r
		}
		// a time stamp that an int64 count of nanoseconds cannot hold (before
		// 1677 or after 2262; ext4, xfs, btrfs and tmpfs store them): the wire
		// format has nothing else, see known finding K10. Read and compared as
		// a (sec, nsec) pair, the tree model cannot hold it either.
		if fr := core.NewRand(core.Mix(c.Seed, "C01-far-mtime", c.Index)); fr.P(1, 40) && !merge {
			for _, e := range onDisk.Entries {
				if e.Type == tree.File && e.LinkTo == "" && onDisk.GroupOf(e.Path) == "" {
					sec := core.Pick(fr, []int64{10413792000, 9223372037, -11644473600, 9224000000})
					ts := []unix.Timespec{{Sec: sec, Nsec: 5}, {Sec: sec, Nsec: 5}}
					if unix.UtimesNanoAt(unix.AT_FDCWD, filepath.Join(srcDir, filepath.FromSlash(e.Path)), ts, unix.AT_SYMLINK_NOFOLLOW) == nil {
						farPath = e.Path
						farSec, farNsec, _ = lstatPair(filepath.Join(srcDir, filepath.FromSlash(e.Path)))
						r.Count("sources_with_an_mtime_outside_the_int64_ns_window", 1)
					}
					break
				}
			}
		}
		var err error
		view, err = tree.Snapshot(srcDir, tree.SnapOpt{})
		if err != nil {
			r.Inconclusive = "snapshot src: " + err.Error()
			return r
		}
		for i := range view.Entries {
			if e := &view.Entries[i]; e.Type == tree.Sock {
				e.Type, e.Data, e.Size = tree.File, []byte{}, 0
			}
		}
		fs, err = fsutil.NewFS(srcDir)
		if err != nil {
			r.Inconclusive = "NewFS: " + err.Error()
			return r
		}
	}
	if unpriv {
		os.Chmod(c.Dir, 0755)
		os.Lchown(dest, 1234, 1234)
	}
	var preAbort *tree.Tree
	if kind == "aborted" {
		preAbort, _ = tree.Snapshot(dest, tree.SnapOpt{NoData: true})
		var ap *wire.Pair
		var n atomic.Int64
		at := int64(R.Intn(70))
		acfg := wire.Config{Cap: core.Pick(R, []int{0, 1, 8}), Fault: func(end, op string, idx int64) error {
			if n.Add(1) == at {
				ap.Teardown()
			}
			return nil
		}}
		abort := func() {
			runSync(syncOpt{Cfg: acfg, Src: fs, Dest: dest, Recv: fsutil.ReceiveOpt{}, OnPair: func(p *wire.Pair) { ap = p }})
		}
		if unpriv {
			asUser(1234, 1234, abort)
		} else {
			abort()
		}
		// writer goroutines of the aborted Receive may still be finishing an
		// entry: the leftovers are what is there once they have ended
		leakCheck()
		r.Count("priors_left_by_an_aborted_transfer", 1)
	}
	old, err := tree.Snapshot(dest, tree.SnapOpt{})
	if err != nil {
		r.Inconclusive = "snapshot dest: " + err.Error()
		return r
	}
	ropt := fsutil.ReceiveOpt{Merge: merge}
	if !unpriv && R.P(1, 6) {
		// a receiver-side filter that rewrites ownership and mode (what the
		// repository's own tests do with uid/gid): dest must equal the view as
		// rewritten by the filter
		flt := func(p string, st *types.Stat) bool {
			if st.Uid == 1234 {
				st.Uid = 4242
			}
			st.Gid = st.Gid/2 + 7
			st.Mode &^= 0o002 // (also for symlinks: their permission bits are no difference)
			return true
		}
		ropt.Filter = flt
		fv := &tree.Tree{}
		for i := range view.Entries {
			e := &view.Entries[i]
			st := e.Stat()
			flt(st.Path, st)
			ne := tree.FromStat(st)
			ne.Data, ne.Ino, ne.Nlink, ne.Dev = e.Data, e.Ino, e.Nlink, e.Dev
			fv.Entries = append(fv.Entries, ne)
		}
		view = fv
		cfg += " filter=rewrite"
		r.Count("transfers_with_rewriting_filter", 1)
	}
	var nrec *notifyRec
	if R.P(1, 2) {
		nrec = newNotifyRec()
		ropt.NotifyHashed = nrec.fn
		ropt.ContentHasher = newHasher().fn
	}
	if R.P(1, 4) {
		ropt.ProgressCb = func(int, bool) {}
	}
	caps := []int{0, 1, 2, 8, 32, 64}
	recvDest := dest
	if R.P(1, 8) {
		// the destination is named through a symlink to the directory
		link := filepath.Join(c.Dir, "dest-link")
		if os.Symlink("dest", link) == nil {
			recvDest = link
			r.Count("destinations_named_through_a_symlink", 1)
			cfg += " dest=via-symlink"
		}
	}
	if sr := core.NewRand(core.Mix(c.Seed, "C01-dest-spelling", c.Index)); recvDest == dest && sr.P(1, 6) {
		// the same directory, spelled as a caller might: the spelling of
		// the destination argument is no part of the outcome
		d, b := filepath.Dir(dest), filepath.Base(dest)
		recvDest = core.Pick(sr, []string{dest + "/", dest + "/.", d + "/./" + b, d + "//" + b, dest + "/../" + b, dest + "//"})
		r.Count("destinations_spelled_unclean", 1)
		cfg += " dest=unclean-spelling"
	}
	so := syncOpt{Cfg: wire.Config{Cap: core.Pick(R, caps)}, Src: fs, Dest: recvDest, Recv: ropt}
	if R.P(1, 3) {
		gr := R.Fork()
		so.Cfg.Generic = func() bool { return gr.P(1, 2) }
	}
	var res *syncRes
	if unpriv {
		if err := asUser(1234, 1234, func() { res = runSync(so) }); err != nil {
			r.Inconclusive = "cannot switch uid: " + err.Error()
			return r
		}
	} else {
		res = runSync(so)
	}
	if checkHang(r, res, cfg) {
		return r
	}
	r.Count("transfers", 1)
	if res.SendErr != nil || res.RecvErr != nil {
		// the property only speaks about successful pairs, but a fault-free
		// transfer of a legal tree that fails says the workload is off
		// the property speaks about successful pairs only: a failed transfer
		// is counted (diagnostic), not a violation. Known timing-dependent
		// failure: the destination walker meets a directory that was just
		// replaced by a looping symlink (ELOOP). (An unprivileged receiver's
		// content writer racing with the chmod of another member of the same
		// read-only link group used to be another one: that is C07's subject
		// and was repaired, see known_findings.json.)
		r.Count("transfers_failed_diagnostic", 1)
		r.Inconclusive = fmt.Sprintf("fault-free transfer failed (not covered by the statement): recv=%v", res.RecvErr)
		return r
	}
	got, err := tree.Snapshot(dest, tree.SnapOpt{})
	if err != nil {
		r.Violate("dest-unreadable", "cannot snapshot dest after a successful transfer: %v", err)
		return r
	}
	var exp *tree.Tree
	var created map[string]bool
	if merge {
		exp, created = expectMerge(view, old)
	} else {
		exp, created = expectSync(view, old, got)
	}
	if kind == "aborted" {
		// leftovers of a real aborted run: the statement demands the source's
		// bytes, whatever size and mtime the aborted run stamped on its
		// partial files; strict only for entries the aborted run created or
		// rewrote (inode, mtime or size changed during it)
		vi := view.Index()
		touched := func(p string) bool {
			// did the aborted run create or rewrite this entry?
			o := old.Get(p)
			if o == nil || preAbort == nil {
				return false
			}
			b := preAbort.Get(p)
			return b == nil || b.Ino != o.Ino || b.Mtime != o.Mtime || b.Size != o.Size
		}
		for i := range exp.Entries {
			e := &exp.Entries[i]
			if e.Type != tree.File || !touched(e.Path) {
				continue
			}
			if j, ok := vi[e.Path]; ok {
				e.Data = view.Entries[j].Data
				if l := view.Entries[j].LinkTo; l != "" {
					if k, ok := vi[l]; ok {
						e.Data = view.Entries[k].Data
					}
				}
			}
		}
	}
	if farPath != "" {
		if s, n, err := lstatPair(filepath.Join(dest, filepath.FromSlash(farPath))); err == nil && (s != farSec || n != farNsec) {
			r.ViolateD("mtime-outside-int64-ns", map[string]any{"path": farPath}, "%q has mtime (sec=%d, nsec=%d) = %s in the source and (sec=%d, nsec=%d) = %s in the destination after both calls returned nil", farPath, farSec, farNsec, time.Unix(farSec, farNsec).UTC().Format(time.RFC3339Nano), s, n, time.Unix(s, n).UTC().Format(time.RFC3339Nano))
		}
		// (the int64 model wraps the same way on both sides: that column is
		// decided by the pair comparison above)
		for _, t := range []*tree.Tree{exp, got} {
			if e := t.Get(farPath); e != nil {
				e.Mtime = 0
			}
		}
	}
	diffs := tree.Diff(exp, got, syncMask(created))
	r.Count("entries_compared", int64(len(exp.Entries)))
	if len(diffs) > 0 {
		sig := "sync-diverged"
		r.ViolateD(sig, map[string]any{"diffs": diffs, "config": cfg}, "dest differs from the source view after both calls returned nil (%s):\n%s", cfg, strings.Join(trunc(diffs, 8), "\n"))
	}
	if merge {
		// nothing deleted that the source does not replace
		gi := got.Index()
		for _, oe := range old.Entries {
			if _, ok := gi[oe.Path]; !ok && exp.Get(oe.Path) != nil {
				r.Violate("merge-deleted", "merge mode deleted %q which the source does not replace", oe.Path)
			}
		}
	}
	r.Nontrivial = hasMultiChunk(view) || hasLinks(view) || hasType(view, "pcb") || orderSensitive(view)
	_ = types.Stat{}
	return r
}
