package main

import (
	"encoding/binary"
	"fmt"
	"hash/fnv"
	"os"
	"path/filepath"
	"sort"
	"strings"

	"github.com/tonistiigi/fsutil"
	"github.com/tonistiigi/fsutil/types"
	"verif/internal/core"
	"verif/internal/tree"
	"verif/internal/wire"
)

// C19: metadata-only transfer.

const listingName = ".fsutil-metadata"

func init() {
	core.Register(&core.Prop{
		ID:    "C19",
		Level: "exploration",
		Rule: "Plus sources without entries, or with nothing but an entry of the listing name (1 case of 12): the listing is written anew, empty. Plus nested files named .fsutil-metadata (new, changed, stale) and a stale non-empty directory at the listing's name in merge mode and behind a Filter (failing transfers there are violations). source trees {random, fan-out of 300-1500 entries with long names so the listing spans several 32KiB chunks, synthetic trees with a single stat larger than a chunk} x selectors {none, all, files only, dirs only, random nested subset closed under hard-link sources, by-name} x sources that contain an entry named .fsutil-metadata (file, symlink, empty dir) before and between selected files x prior destinations {empty, mutated copy, one holding a listing file / a symlink / a directory with that name}; real Send + real Receive(MetadataOnly); the listing file is decoded as little-endian length-prefixed records and compared with the STATs on the wire, dest minus the listing is compared with the projection of the source, REQ ids and notifications are checked. " +
			"non-trivial = at least one selected regular file below a non-selected directory, or a multi-chunk listing, or a source entry with the listing name; distinct by (tree, selector, prior) fingerprint",
		Assumptions: []string{"root", "selectors select the link source of every hard link they select", "a directory named .fsutil-metadata in the source is empty, except in the cases that exhibit known finding K7"},
		Cases: func(tier string) int {
			if tier == "thorough" {
				return 100000
			}
			return 1000
		},
		Batch:         25,
		MinNontrivial: func(tier string) int { return 100 },
		Run:           c19Run,
	})
}

func c19Run(c *core.Ctx) *core.Result {
	r := &core.Result{}
	if !needRoot(r) {
		return r
	}
	R := c.R
	o := tree.DefaultOpt()
	o.SpecLinks = true
	o.MaxSize = 70000
	shape := core.Pick(R, []string{"random", "random", "random", "fanout", "bigstat"})
	var src *tree.Tree
	synthetic := R.P(1, 2)
	switch shape {
	case "random":
		src = tree.Gen(R, o)
	case "fanout":
		src = &tree.Tree{}
		n := R.Range(300, 1500)
		long := strings.Repeat("n", R.Range(20, 120))
		src.Put(tree.Entry{Path: "dir", Type: tree.Dir, Perm: 0755, Mtime: 1e18})
		src.Put(tree.Entry{Path: "dir/sub", Type: tree.Dir, Perm: 0700, Mtime: 1e18 + 5})
		for i := 0; i < n; i++ {
			p := fmt.Sprintf("%s%05d", long, i)
			switch i % 4 {
			case 1:
				p = "dir/" + p
			case 2:
				p = "dir/sub/" + p
			}
			src.Entries = append(src.Entries, tree.Entry{Path: p, Type: tree.File, Perm: 0644, Mtime: 1e18 + int64(i), Data: R.Bytes(R.Intn(40))})
		}
		src.Sort()
	case "bigstat":
		synthetic = true
		src = tree.Gen(R, o)
		big := tree.Entry{Path: "0big", Type: tree.File, Perm: 0644, Mtime: 1e18, Data: []byte("x"), Xattrs: map[string][]byte{"user.big": R.Bytes(R.Range(33000, 70000))}}
		if src.Get(big.Path) == nil {
			src.Put(big)
		}
	}
	// a source without entries (or, with the block below, one whose only
	// entry has the listing's name): nothing is recorded, and the listing is
	// still written anew - empty - over whatever an earlier receive left
	if er := core.NewRand(core.Mix(c.Seed, "C19-empty-source", c.Index)); er.P(1, 12) {
		src = &tree.Tree{}
		shape = "empty"
		r.Count("sources_without_entries", 1)
	}
	// names, link targets and xattr keys that are not valid UTF-8 (legal on
	// Linux): every announced entry is recorded, whatever its bytes
	if R.P(1, 4) && shape != "empty" {
		src.Put(tree.Entry{Path: "caf\xe9.txt", Type: tree.File, Perm: 0644, Mtime: 1e18, Data: []byte("latin-1 name")})
		src.Put(tree.Entry{Path: "\xfe-dir", Type: tree.Dir, Perm: 0755, Mtime: 1e18})
		src.Put(tree.Entry{Path: "\xfe-dir/\xff", Type: tree.Symlink, Perm: 0777, Mtime: 1e18, Target: "\xc3\x28/\xff"})
		if synthetic {
			src.Put(tree.Entry{Path: "\xfe-dir/x", Type: tree.File, Perm: 0600, Mtime: 1e18, Data: []byte("x"), Xattrs: map[string][]byte{"user.\xff": []byte("v")}})
		}
		src.Sort()
		r.Count("sources_with_non_utf8_names", 1)
	}
	// an entry with the listing file's name
	listingDependents := false
	withListingEntry := R.P(1, 3)
	if withListingEntry && src.Get(listingName) == nil {
		switch R.Intn(3) {
		case 0:
			src.Put(tree.Entry{Path: listingName, Type: tree.File, Perm: 0644, Mtime: 1e18, Data: []byte("source listing")})
			if R.P(1, 2) {
				// ... with a second name: the link is announced like any
				// other entry and belongs into the listing (it cannot be
				// selected: its source never is)
				src.Put(tree.Entry{Path: "zz.listing-link", Type: tree.File, Perm: 0644, Mtime: 1e18, Data: []byte("source listing"), LinkTo: listingName})
				r.Count("sources_with_a_hard_link_to_the_listing_name", 1)
			}
		case 1:
			src.Put(tree.Entry{Path: listingName, Type: tree.Symlink, Perm: 0777, Target: "a", Mtime: 1e18})
		case 2:
			src.Put(tree.Entry{Path: listingName, Type: tree.Dir, Perm: 0755, Mtime: 1e18})
			if R.P(1, 3) {
				// ... with something below it (known finding K7: the receiver
				// drops the entry before its validators see it, what depends
				// on it is then refused)
				src.Put(tree.Entry{Path: listingName + "/child", Type: tree.File, Perm: 0644, Mtime: 1e18, Data: []byte("below the listing name")})
				listingDependents = true
			}
		}
		src.Sort()
	}
	// an ordinary file that has the listing's name, below the root: only
	// the root-level name is the receiver's own
	nestedListing := ""
	nr := core.NewRand(core.Mix(c.Seed, "C19-nested-listing-name", c.Index))
	if nr.P(1, 4) && shape != "fanout" {
		var dirs []string
		for _, e := range src.Entries {
			if e.Type == tree.Dir && e.Path != listingName && !strings.HasPrefix(e.Path, listingName+"/") && src.Get(e.Path+"/"+listingName) == nil {
				dirs = append(dirs, e.Path)
			}
		}
		if len(dirs) > 0 {
			nestedListing = core.Pick(nr, dirs) + "/" + listingName
			src.Put(tree.Entry{Path: nestedListing, Type: tree.File, Perm: 0644, Mtime: 1e18, Data: []byte("an ordinary file below the root, version 2")})
			src.Sort()
			r.Count("sources_with_a_nested_file_of_the_listing_name", 1)
		}
	}
	// selector
	selKind := core.Pick(R, []string{"none", "all", "files", "dirs", "subset", "subset", "subset", "byname"})
	salt := R.U64()
	pick := func(p string) bool {
		h := fnv.New64a()
		fmt.Fprintf(h, "%d|%s", salt, p)
		return h.Sum64()%3 == 0
	}
	selected := map[string]bool{}
	for _, e := range src.Entries {
		var s bool
		switch selKind {
		case "all":
			s = true
		case "files":
			s = e.Type == tree.File
		case "dirs":
			s = e.Type == tree.Dir
		case "subset":
			s = pick(e.Path)
		case "byname":
			s = strings.Contains(tree.Base(e.Path), "a")
		}
		if bigOnly := shape == "bigstat" && e.Path == "0big"; bigOnly {
			s = false // a 33-70KB xattr cannot be stored on the destination file system
		}
		if s {
			selected[e.Path] = true
		}
	}
	if nestedListing != "" && selKind != "none" && nr.P(2, 3) {
		selected[nestedListing] = true
	}
	// close under hard-link sources
	for _, e := range src.Entries {
		if selected[e.Path] && e.LinkTo != "" && e.Type != tree.Symlink {
			selected[e.LinkTo] = true
		}
	}
	delete(selected, listingName)
	for _, e := range src.Entries {
		if e.LinkTo == listingName && e.Type != tree.Symlink {
			delete(selected, e.Path)
		}
	}
	selFn := func(p string, st *types.Stat) bool { return selected[filepath.ToSlash(p)] }
	if core.NewRand(core.Mix(c.Seed, "C19-selector-edits", c.Index)).P(1, 3) {
		// a selector that edits the stat it is shown (as Filter functions
		// do) for entries it does not select: the listing records what the
		// sender announced, not what a callback made of it
		selFn = func(p string, st *types.Stat) bool {
			sel := selected[filepath.ToSlash(p)]
			if !sel && !st.IsDir() {
				st.Uid, st.Gid, st.ModTime = 4242, 4243, 7
				st.Xattrs = map[string][]byte{"user.selector": []byte("edited")}
			}
			return sel
		}
		r.Count("selectors_editing_unselected_stats", 1)
	}

	// prior destination
	eo := editOpt{Owners: o.Owners, Types: "fdlpcb", Xattrs: true}
	pk := core.Pick(R, []string{"empty", "empty", "projection-mutated", "listing-file", "listing-symlink", "listing-dir"})
	// receive options next to MetadataOnly: merge mode (the destination is not
	// walked, nothing stale is removed) and a Filter that hides the listing
	// name from the disk writer (so a stale entry of that name is not deleted
	// by the transfer itself)
	rmode := []string{"plain", "merge", "filter-listing"}[R.Weighted([]int{6, 1, 1})]
	if rmode == "merge" {
		pk = core.Pick(R, []string{"empty", "listing-file", "listing-symlink", "listing-symlink-inside"})
		if core.NewRand(core.Mix(c.Seed, "C19-merge-listing-dir", c.Index)).P(1, 4) {
			// nothing removes a stale non-empty directory of that name in
			// merge mode: the listing still has to be written
			pk = "listing-dir"
		}
	}
	if nestedListing != "" && rmode == "plain" && nr.P(1, 2) {
		// into a destination an earlier metadata-only receive has filled
		pk = "listing-file"
	}
	prior := &tree.Tree{}
	if pk != "empty" && rmode != "merge" {
		for _, e := range src.Entries {
			keep := selected[e.Path]
			if !keep {
				for s := range selected {
					if strings.HasPrefix(s, e.Path+"/") {
						keep = true
					}
				}
			}
			if keep && e.Path != listingName && !strings.HasPrefix(e.Path, listingName+"/") && shape != "fanout" {
				prior.Entries = append(prior.Entries, e.Clone())
			}
		}
		prior.Sort()
		fixLinksToMissing(prior)
		mutate(R, prior, R.Range(1, 4), eo)
	}
	if nestedListing != "" && pk != "empty" && rmode != "merge" {
		switch nr.Intn(3) {
		case 0:
			// new since the earlier receive
			prior.Remove(nestedListing)
		case 1:
			// changed since
			if e := prior.Get(nestedListing); e != nil && e.Type == tree.File {
				e.Data, e.Mtime = []byte("version 1"), 5
			}
		}
		// a stale one where the source has none (its directory stays)
		for _, e := range prior.Entries {
			if e.Type == tree.Dir && e.Path != listingName && !strings.HasPrefix(e.Path, listingName+"/") && src.Get(e.Path) != nil && src.Get(e.Path).Type == tree.Dir && src.Get(e.Path+"/"+listingName) == nil && prior.Get(e.Path+"/"+listingName) == nil {
				prior.Put(tree.Entry{Path: e.Path + "/" + listingName, Type: tree.File, Perm: 0644, Mtime: 5, Data: []byte("stale nested file of that name")})
				prior.Sort()
				r.Count("priors_with_a_stale_nested_file_of_the_listing_name", 1)
				break
			}
		}
	}
	switch pk {
	case "listing-file":
		prior.Remove(listingName)
		prior.Put(tree.Entry{Path: listingName, Type: tree.File, Perm: 0600, Mtime: 5, Data: []byte("stale listing that is longer than nothing")})
	case "listing-symlink":
		prior.Remove(listingName)
		prior.Put(tree.Entry{Path: listingName, Type: tree.Symlink, Perm: 0777, Target: "../escape-" + fmt.Sprint(c.Index), Mtime: 5})
	case "listing-symlink-inside":
		prior.Put(tree.Entry{Path: listingName, Type: tree.Symlink, Perm: 0777, Target: "zz-foreign", Mtime: 5})
	case "listing-dir":
		prior.Remove(listingName)
		prior.Put(tree.Entry{Path: listingName, Type: tree.Dir, Perm: 0755, Mtime: 5})
		prior.Put(tree.Entry{Path: listingName + "/x", Type: tree.File, Perm: 0644, Mtime: 5, Data: []byte("x")})
	}
	if rmode == "merge" {
		prior.Put(tree.Entry{Path: "zz-foreign", Type: tree.File, Perm: 0640, Mtime: 5, Data: []byte("foreign, must stay")})
		prior.Sort()
	}
	fixGroups(prior)
	dest := filepath.Join(c.Dir, "dest")
	os.Mkdir(dest, 0755)
	if err := tree.Materialise(dest, prior); err != nil {
		r.Inconclusive = "materialise dest: " + err.Error()
		return r
	}
	old, err := tree.Snapshot(dest, tree.SnapOpt{})
	if err != nil {
		r.Inconclusive = err.Error()
		return r
	}
	var fs fsutil.FS
	view := src
	if synthetic {
		fs = newSynthFSReaders(src, R)
	} else {
		sd := filepath.Join(c.Dir, "src")
		os.Mkdir(sd, 0755)
		if err := tree.Materialise(sd, src); err != nil {
			r.Inconclusive = "materialise src: " + err.Error()
			return r
		}
		view, err = tree.Snapshot(sd, tree.SnapOpt{})
		if err != nil {
			r.Inconclusive = err.Error()
			return r
		}
		if fs, err = fsutil.NewFS(sd); err != nil {
			r.Inconclusive = err.Error()
			return r
		}
	}
	desc := fmt.Sprintf("shape=%s selector=%s prior=%s synthetic=%v listingEntry=%v receive=%s", shape, selKind, pk, synthetic, withListingEntry, rmode)
	r.Sample = map[string]any{"config": desc, "source": trunc(src.Lines(), 25), "selected": trunc(sortedKeys(selected), 25)}
	r.FP = src.Fingerprint() + desc + fmt.Sprint(len(selected)) + prior.Fingerprint()
	r.AddSet("configs", fmt.Sprintf("%s/%s/%s/%s", shape, selKind, pk, rmode))
	nrec := newNotifyRec()
	ropt := fsutil.ReceiveOpt{MetadataOnly: selFn, NotifyHashed: nrec.fn, ContentHasher: newHasher().fn}
	switch rmode {
	case "merge":
		ropt.Merge = true
		r.Count("merge_mode_transfers", 1)
	case "filter-listing":
		ropt.Filter = func(p string, st *types.Stat) bool { return filepath.ToSlash(p) != listingName }
		r.Count("transfers_with_filter_hiding_the_listing_name", 1)
	}
	res := runSync(syncOpt{Cfg: wire.Config{Cap: core.Pick(R, []int{0, 1, 8, 64}), KeepStats: true}, Src: fs, Dest: dest, Recv: ropt})
	if checkHang(r, res, desc) {
		return r
	}
	det := map[string]any{"config": desc, "source": src.Lines(), "selected": sortedKeys(selected), "prior": old.Lines()}
	if res.SendErr != nil || res.RecvErr != nil {
		if listingDependents && res.RecvErr != nil && (strings.Contains(res.RecvErr.Error(), "changes out of order") || strings.Contains(res.RecvErr.Error(), "invalid link")) {
			r.ViolateD("listing-name-entry-with-dependents", det, "%s: the source holds a directory named %s with an entry below it; the metadata-only receive fails with %v (the same tree transfers without a selector)", desc, listingName, res.RecvErr)
			return r
		}
		if rmode == "plain" || pk == "listing-dir" || pk == "empty" || pk == "listing-file" {
			// the real sender, a legal tree, no fault: the receive has to
			// write its listing and the selected entries (in merge mode and
			// behind a Filter too: a stale directory, file or nothing at the
			// listing's name is no reason to fail)
			r.ViolateD("transfer-failed", det, "%s: fault-free metadata-only transfer of a legal tree failed: send=%v recv=%v", desc, res.SendErr, res.RecvErr)
			return r
		}
		r.Inconclusive = fmt.Sprintf("fault-free metadata-only transfer failed: send=%v recv=%v", res.SendErr, res.RecvErr)
		r.Count("transfers_failed_diagnostic", 1)
		return r
	}
	r.Count("transfers", 1)
	// --- the listing file
	var sent []*types.Stat
	for _, e := range res.Pair.Log() {
		if e.End == "S" && e.Op == "send" && e.St != nil && e.Err == "" {
			sent = append(sent, e.St)
		}
	}
	raw, err := os.ReadFile(filepath.Join(dest, listingName))
	if err != nil {
		r.ViolateD("listing-missing", det, "%s: listing file cannot be read: %v", desc, err)
		return r
	}
	if fi, err := os.Lstat(filepath.Join(dest, listingName)); err == nil && !fi.Mode().IsRegular() {
		r.ViolateD("listing-not-regular", det, "%s: the listing is not a regular file (%v)", desc, fi.Mode())
	}
	var recs []*types.Stat
	off := 0
	for off < len(raw) {
		if off+4 > len(raw) {
			r.ViolateD("listing-framing", det, "%s: %d trailing bytes in the listing", desc, len(raw)-off)
			break
		}
		n := int(binary.LittleEndian.Uint32(raw[off:]))
		off += 4
		if off+n > len(raw) {
			r.ViolateD("listing-framing", det, "%s: record of %d bytes at offset %d exceeds the listing (%d bytes)", desc, n, off, len(raw))
			break
		}
		var st types.Stat
		if err := st.Unmarshal(raw[off : off+n]); err != nil {
			r.ViolateD("listing-framing", det, "%s: record at offset %d does not decode: %v", desc, off, err)
			break
		}
		recs = append(recs, &st)
		off += n
	}
	var wantRecs []*types.Stat
	for _, st := range sent {
		if st.Path != listingName {
			wantRecs = append(wantRecs, st)
		}
	}
	r.Count("listing_records_checked", int64(len(recs)))
	r.Count("listing_bytes", int64(len(raw)))
	if len(recs) != len(wantRecs) {
		r.ViolateD("listing-records", det, "%s: listing holds %d records, the sender announced %d entries (listing name excepted)", desc, len(recs), len(wantRecs))
	} else {
		for i := range recs {
			if !statFieldsEqual(recs[i], wantRecs[i]) {
				r.ViolateD("listing-records", det, "%s: record %d decodes to %v, announced %v", desc, i, recs[i], wantRecs[i])
				break
			}
		}
	}
	// --- dest minus the listing == projection
	proj := &tree.Tree{}
	need := map[string]bool{}
	for p := range selected {
		need[p] = true
		for a := tree.Parent(p); a != ""; a = tree.Parent(a) {
			need[a] = true
		}
	}
	for _, e := range view.Entries {
		if need[e.Path] && e.Path != listingName {
			proj.Entries = append(proj.Entries, e.Clone())
		}
	}
	proj.Sort()
	fixLinksToMissing(proj)
	got, err := tree.Snapshot(dest, tree.SnapOpt{})
	if err != nil {
		r.Violate("dest-unreadable", "%v", err)
		return r
	}
	got.Remove(listingName)
	oldNoListing := old.Clone()
	var exp *tree.Tree
	var created map[string]bool
	if rmode == "merge" {
		oldNoListing.Remove(listingName)
		exp, created = expectMerge(proj, oldNoListing)
		oldNoListing = &tree.Tree{} // nothing is compared with the destination: every selected file is requested
	} else {
		exp, created = expectSync(proj, oldNoListing, got)
	}
	if diffs := tree.Diff(exp, got, syncMask(created)); len(diffs) > 0 {
		r.ViolateD("projection-diverged", det, "%s: dest (minus the listing) differs from the projection of the source on the selected entries and their ancestors:\n%s", desc, strings.Join(trunc(diffs, 8), "\n"))
	}
	r.Count("entries_compared", int64(len(exp.Entries)))
	// --- requests: only selected regular files, by correct id, and exactly the needed ones
	stats, reqs := statIndex(res.Pair.Log())
	E, either := changedSet(oldNoListing, proj)
	wantReq := map[string]bool{}
	for _, e := range proj.Entries {
		if e.Type == tree.File && e.LinkTo == "" && selected[e.Path] && E[e.Path] && !either[e.Path] {
			wantReq[e.Path] = true
		}
	}
	gotReq := map[string]bool{}
	for _, id := range reqs {
		if int(id) >= len(stats) {
			r.ViolateD("req-unknown-id", det, "%s: REQ for id %d, only %d STATs", desc, id, len(stats))
			continue
		}
		p := stats[id]
		gotReq[p] = true
		e := view.Get(p)
		if e == nil || e.Type != tree.File || !selected[p] {
			r.ViolateD("req-not-selected", det, "%s: content requested for id %d = %q which is not a selected regular file", desc, id, p)
		}
	}
	var miss []string
	for p := range wantReq {
		if !gotReq[p] {
			miss = append(miss, p)
		}
	}
	sort.Strings(miss)
	if len(miss) > 0 {
		r.ViolateD("req-missing", det, "%s: selected files %q were not requested", desc, miss)
	}
	r.Count("requests_checked", int64(len(reqs)))
	// --- each forwarded entry reaches the writer once (notifications)
	seen := map[string]int{}
	for _, n := range nrec.list() {
		if n.Kind != "delete" {
			seen[n.Path]++
		}
		if e := old.Get(".fsutil-metadata"); n.Path == ".fsutil-metadata" && e != nil && e.Type == tree.File {
			// the listing is the receiver's own bookkeeping, written outside
			// the writer: an event for it (the delete of the one an earlier
			// receive left - a regular file -, which exists again afterwards) describes nothing
			// that happened to the transferred tree
			r.ViolateD("listing-file-reported", det, "%s: the change callback was called with %s %q: the listing file is not an entry of the transfer", desc, n.Kind, n.Path)
		}
	}
	for p, n := range seen {
		if n > 1 {
			r.ViolateD("forwarded-twice", det, "%s: entry %q reached the disk writer %d times (one notification per entry expected)", desc, p, n)
		}
		if !need[p] {
			r.ViolateD("unselected-written", det, "%s: entry %q is neither selected nor an ancestor of a selected entry but was written", desc, p)
		}
	}
	r.Count("notifications_checked", int64(len(seen)))
	nested := false
	for p := range selected {
		if a := tree.Parent(p); a != "" && !selected[a] {
			if e := view.Get(p); e != nil && e.Type == tree.File {
				nested = true
			}
		}
	}
	if len(raw) > 2*32768 {
		r.Count("multi_chunk_listings", 1)
	}
	r.Nontrivial = nested || len(raw) > 2*32768 || withListingEntry
	return r
}

// fixLinksToMissing turns link members whose first member is not part of the
// tree into the first member of their (remaining) group.
func fixLinksToMissing(t *tree.Tree) {
	idx := t.Index()
	groups := map[string][]string{}
	for _, e := range t.Entries {
		if e.LinkTo != "" && e.Type != tree.Symlink {
			if _, ok := idx[e.LinkTo]; !ok {
				groups[e.LinkTo] = append(groups[e.LinkTo], e.Path)
			}
		}
	}
	for _, ms := range groups {
		sort.Slice(ms, func(i, j int) bool { return tree.CmpPath(ms[i], ms[j]) < 0 })
		for i, m := range ms {
			e := &t.Entries[idx[m]]
			if i == 0 {
				e.LinkTo = ""
			} else {
				e.LinkTo = ms[0]
			}
		}
	}
}
