package main

import (
	"bytes"
	"fmt"
	"hash/fnv"
	"io"
	"os"
	"path"
	"path/filepath"
	"sort"
	"strings"

	"github.com/tonistiigi/fsutil"
	"github.com/tonistiigi/fsutil/types"
	"verif/internal/core"
	"verif/internal/refs"
	"verif/internal/tree"
	"verif/internal/wire"
)

// C11: a filtered view transfers as a self-contained tree.

func init() {
	core.Register(&core.Prop{
		ID:    "C11",
		Level: "exploration",
		Rule: "Plus (1 case of 40) a filtered view of /proc/sys/kernel (lstat size 0, content not empty) and, in a quarter of the cases, a first attempt over a stream that breaks during the listing before the judged transfer. on-disk trees over a sibling-confusable name universe with hard-link groups (files and special files) spread over directories x filter configurations {include, exclude, include+exclude, follow-paths, nested stacks of 2-3 filters}; the real Send over the filtered view is received by the real Receive into an empty directory; the STAT stream is fed to an independent validator (order, parents, link targets inside the stream), dest is compared with the reference-filtered source with re-canonicalised link groups, and every regular file of the full tree is opened through the view (listed => bytes, hidden => error). " +
			"non-trivial = the view is a proper non-empty subset and contains a link group or hides a member of one; distinct by (tree, filter stack) fingerprint",
		Assumptions: []string{"root", "reference filter as in C10; follow-paths are resolved by fsutil.FollowLinks itself (its correctness is C18's subject)", "K1 triage as in C10"},
		Cases: func(tier string) int {
			if tier == "thorough" {
				return 600000
			}
			return 3000
		},
		Batch:         40,
		MinNontrivial: func(tier string) int { return 100 },
		Run:           c11Run,
	})
}

type filtLevel struct {
	Inc, Exc, Follow []string
	MapDrop          bool
	MapRewrite       bool
}

func c11Drop(salt uint64, p string) bool {
	h := fnv.New64a()
	fmt.Fprintf(h, "%d|%s", salt, p)
	return h.Sum64()%4 == 0
}

// opaqueFS hides the concrete type of the FS it wraps (a caller's own wrapper).
type opaqueFS struct{ fsutil.FS }

// refLevel applies one filter level to a listing (items in order).
func refLevel(items []refs.Item, lv filtLevel, inc []string, incremental bool, drop func(it refs.Item) bool) ([]refs.Item, error) {
	var sel map[string]bool
	var err error
	if incremental {
		sel, err = refs.SelectIncremental(items, inc, lv.Exc)
	} else {
		sel, err = refs.SelectNaive(items, inc, lv.Exc)
	}
	if err != nil {
		return nil, err
	}
	if drop != nil {
		// entries a map function drops are not reported and do not pull in
		// their ancestors
		for _, it := range items {
			if sel[it.Path] && drop(it) {
				delete(sel, it.Path)
			}
		}
	}
	keep := map[string]bool{}
	for _, p := range refs.WithAncestors(items, sel) {
		keep[p] = true
	}
	var out []refs.Item
	for _, it := range items {
		if keep[it.Path] {
			out = append(out, it)
		}
	}
	return out, nil
}

// c11Procfs: a filtered view of a file system whose lstat says size 0 for
// files that have content (procfs): every file the view reports yields its
// bytes through the view, and the transfer stores exactly those.
func c11Procfs(c *core.Ctx, r *core.Result) *core.Result {
	const root = "/proc/sys/kernel"
	names := []string{"ostype", "osrelease", "pid_max", "hostname"}
	want := map[string][]byte{}
	for _, n := range names {
		fi, err := os.Lstat(filepath.Join(root, n))
		b, err2 := os.ReadFile(filepath.Join(root, n))
		if err != nil || err2 != nil || !fi.Mode().IsRegular() || len(b) == 0 {
			continue
		}
		want[n] = b
	}
	if len(want) < 2 {
		r.Inconclusive = "no readable procfs files"
		return r
	}
	var inc []string
	for n := range want {
		inc = append(inc, n)
	}
	sort.Strings(inc)
	base, err := fsutil.NewFS(root)
	if err != nil {
		r.Inconclusive = err.Error()
		return r
	}
	view, err := fsutil.NewFilterFS(base, &fsutil.FilterOpt{IncludePatterns: inc})
	if err != nil {
		r.Inconclusive = err.Error()
		return r
	}
	r.FP = "procfs"
	r.Sample = map[string]any{"view": root, "include": inc}
	for _, n := range inc {
		rc, err := view.Open(n)
		if err != nil {
			r.Violate("open-reported-fails", "procfs view: Open(%q) fails: %v", n, err)
			continue
		}
		b, _ := io.ReadAll(rc)
		rc.Close()
		if string(b) != string(want[n]) {
			r.Violate("open-bytes", "procfs view: Open(%q) yields %q, the file holds %q", n, b, want[n])
		}
	}
	dest := filepath.Join(c.Dir, "dest")
	os.Mkdir(dest, 0755)
	res := runSync(syncOpt{Cfg: wire.Config{Cap: 8}, Src: view, Dest: dest})
	if checkHang(r, res, "procfs view") {
		return r
	}
	if res.SendErr != nil || res.RecvErr != nil {
		r.Violate("filtered-transfer-failed", "transfer of a filtered procfs view failed: send=%v recv=%v", res.SendErr, res.RecvErr)
		return r
	}
	for _, n := range inc {
		b, err := os.ReadFile(filepath.Join(dest, n))
		if err != nil || string(b) != string(want[n]) {
			r.Violate("dest-diverged", "filtered view of %s (files whose lstat size is 0): %q arrived as %q (%v), the view yields %q", root, n, b, err, want[n])
		}
	}
	ents, _ := os.ReadDir(dest)
	if len(ents) != len(inc) {
		r.Violate("dest-diverged", "filtered view of %s: %d entries arrived, the view has %d", root, len(ents), len(inc))
	}
	r.Count("views_of_a_file_system_reporting_size_0_for_files_with_content", 1)
	r.Nontrivial = true
	return r
}

func c11Run(c *core.Ctx) *core.Result {
	r := &core.Result{}
	if !needRoot(r) {
		return r
	}
	R := c.R
	if c.Index%40 == 17 {
		return c11Procfs(c, r)
	}
	o := tree.GenOpt{MaxEntries: 22, MaxDepth: 3, MaxFanout: 5, Names: refs.FilterNames, Types: "fdlpc", Owners: []uint32{0, 1234}, MaxSize: 40000, Links: true, SpecLinks: true, Xattrs: true}
	t := tree.Gen(R, o)
	src := filepath.Join(c.Dir, "src")
	os.Mkdir(src, 0755)
	if err := tree.Materialise(src, t); err != nil {
		r.Inconclusive = "materialise: " + err.Error()
		return r
	}
	snap, err := tree.Snapshot(src, tree.SnapOpt{})
	if err != nil {
		r.Inconclusive = err.Error()
		return r
	}
	base, err := fsutil.NewFS(src)
	if err != nil {
		r.Inconclusive = err.Error()
		return r
	}
	mapDropped := map[string]bool{}
	mapRewrite := false
	nlevels := R.Weighted([]int{6, 3, 1}) + 1
	var levels []filtLevel
	var view fsutil.FS = base
	itemsN := refs.Items(snap) // naive
	itemsI := refs.Items(snap) // incremental (for K1 triage)
	invalid := false
	for l := 0; l < nlevels; l++ {
		lv := filtLevel{}
		var curPaths []string
		for _, it := range itemsN {
			curPaths = append(curPaths, it.Path)
		}
		switch R.Intn(5) {
		case 0:
			lv.Inc = refs.GenPatterns(R, 3, true, curPaths...)
		case 1:
			lv.Exc = refs.GenPatterns(R, 3, true, curPaths...)
		case 2, 3:
			lv.Inc = refs.GenPatterns(R, 3, true, curPaths...)
			lv.Exc = refs.GenPatterns(R, 3, true, curPaths...)
		case 4:
			// follow paths (alone or with excludes)
			n := R.Range(1, 3)
			for i := 0; i < n && len(curPaths) > 0; i++ {
				lv.Follow = append(lv.Follow, core.Pick(R, curPaths))
			}
			if R.P(1, 3) {
				lv.Exc = refs.GenPatterns(R, 2, true, curPaths...)
			}
			if R.P(1, 2) {
				// next to an include list of the caller: the resolved targets
				// are appended to it, the order of the caller's patterns stays
				lv.Inc = refs.GenPatterns(R, 3, true, curPaths...)
				r.Count("follow_paths_next_to_include_patterns", 1)
			}
		}
		opt := &fsutil.FilterOpt{IncludePatterns: lv.Inc, ExcludePatterns: lv.Exc, FollowPaths: lv.Follow}
		var mapSalt uint64
		if R.P(1, 4) {
			// a map function that drops some non-directories (it still stats them)
			mapSalt = R.U64() | 1
			lv.MapDrop = true
			opt.Map = func(p string, st *types.Stat) fsutil.MapResult {
				if !st.IsDir() && c11Drop(mapSalt, p) {
					return fsutil.MapResultExclude
				}
				return fsutil.MapResultKeep
			}
		}
		if core.NewRand(core.Mix(c.Seed, "C11-map-rewrite", c.Index*8+l)).P(1, 4) {
			// a map function that rewrites owner and time stamp of every
			// entry it is shown (what a build-context sender does): the
			// filtered view carries the rewritten stats, also for directories
			// that are only reported because a descendant is selected
			lv.MapRewrite = true
			mapRewrite = true
			inner := opt.Map
			opt.Map = func(p string, st *types.Stat) fsutil.MapResult {
				st.Uid, st.Gid, st.ModTime = 4242, 4243, 1e18+7
				if inner != nil {
					return inner(p, st)
				}
				return fsutil.MapResultKeep
			}
			r.Count("levels_with_rewriting_map", 1)
		}
		inc := lv.Inc
		if lv.Follow != nil {
			tg, err := fsutil.FollowLinks(view, lv.Follow)
			if err != nil {
				r.Inconclusive = "FollowLinks: " + err.Error()
				return r
			}
			inc = append(append([]string{}, lv.Inc...), tg...)
			if len(inc) == 0 || tg == nil {
				// (tg == nil: a follow path reaches the root, everything is
				// needed whatever the caller's own include list says)
				inc = nil
			}
		}
		nv, err := fsutil.NewFilterFS(view, opt)
		var dropFn func(it refs.Item) bool
		if mapSalt != 0 {
			dropFn = func(it refs.Item) bool {
				if !it.IsDir && c11Drop(mapSalt, it.Path) {
					mapDropped[it.Path] = true
					return true
				}
				return false
			}
		}
		nn, e1 := refLevel(itemsN, lv, inc, false, dropFn)
		if e1 != nil {
			if err == nil {
				r.Violate("filter-badpattern", "patterns %q/%q are invalid (%v) but NewFilterFS accepted them", lv.Inc, lv.Exc, e1)
			}
			invalid = true
			break
		}
		if err != nil {
			r.Violate("filter-error", "NewFilterFS failed for valid patterns %q/%q: %v", lv.Inc, lv.Exc, err)
			return r
		}
		ni, _ := refLevel(itemsI, lv, inc, true, dropFn)
		itemsN, itemsI = nn, ni
		view = nv
		levels = append(levels, lv)
	}
	if invalid {
		r.Count("invalid_pattern_lists", 1)
		r.FP = fmt.Sprintf("invalid %v", levels)
		return r
	}
	// the filter stack may sit below something that is not a filter: a
	// SubDirFS (build-context shape) or a caller's own wrapper
	wrap := core.Pick(R, []string{"none", "none", "subdir", "opaque"})
	pfx := ""
	switch wrap {
	case "subdir":
		sfs, err := fsutil.SubDirFS([]fsutil.Dir{{FS: view, Stat: &types.Stat{Path: "sub", Mode: uint32(os.ModeDir | 0755), ModTime: 77}}})
		if err != nil {
			r.Inconclusive = err.Error()
			return r
		}
		view = sfs
		pfx = "sub/"
	case "opaque":
		view = opaqueFS{view}
	}
	r.AddSet("wrappers", wrap)
	sample := map[string]any{"tree": trunc(snap.Lines(), 30), "filters": levels, "wrapper": wrap}
	r.Sample = sample
	r.FP = snap.Fingerprint() + fmt.Sprintf("%v", levels)
	pathsOf := func(items []refs.Item) []string {
		var ps []string
		if pfx != "" {
			ps = append(ps, "sub")
		}
		for _, it := range items {
			ps = append(ps, pfx+it.Path)
		}
		return ps
	}
	naivePaths, incrPaths := pathsOf(itemsN), pathsOf(itemsI)
	k1 := !eqStrings(naivePaths, incrPaths)

	// --- expected view with re-canonicalised link groups
	mkView := func(paths []string) *tree.Tree {
		v := &tree.Tree{}
		for _, p := range paths {
			if e := snap.Get(strings.TrimPrefix(p, pfx)); e != nil && p != "sub" || (pfx == "" && e != nil) {
				v.Entries = append(v.Entries, e.Clone())
			}
		}
		regroup(v)
		if mapRewrite {
			for i := range v.Entries {
				v.Entries[i].UID, v.Entries[i].GID, v.Entries[i].Mtime = 4242, 4243, 1e18+7
			}
		}
		if pfx != "" {
			v = &tree.Tree{Entries: prefixed(v.Entries, "sub", tree.Entry{Path: "sub", Type: tree.Dir, Perm: 0755, Mtime: 77})}
			for i := range v.Entries {
				// SubDirFS re-roots absolute symlink targets below the sub-root
				if e := &v.Entries[i]; e.Type == tree.Symlink && strings.HasPrefix(e.Target, "/") {
					e.Target = path.Join("/sub", e.Target)
				}
			}
		}
		return v
	}
	expView := mkView(naivePaths)

	// --- a first attempt that breaks: the same process sent the unfiltered
	// tree a moment ago over a stream that failed during the listing. What
	// that walk learnt about link groups must not reach the next one.
	if br := core.NewRand(core.Mix(c.Seed, "C11-broken-first-attempt", c.Index)); br.P(1, 4) {
		k := int64(br.Range(1, 14))
		bd := filepath.Join(c.Dir, "dest-broken")
		os.Mkdir(bd, 0755)
		bres := runSync(syncOpt{Cfg: wire.Config{Cap: 8, Fault: func(end, op string, idx int64) error {
			if end == "S" && op == "send" && idx >= k {
				return errInjected
			}
			return nil
		}}, Src: base, Dest: bd, TeardownWhenStuck: true})
		if bres.SendErr != nil {
			r.Count("transfers_after_a_broken_first_attempt", 1)
		}
		os.RemoveAll(bd)
	}
	// --- transfer
	dest := filepath.Join(c.Dir, "dest")
	os.Mkdir(dest, 0755)
	res := runSync(syncOpt{Cfg: wire.Config{Cap: core.Pick(R, []int{0, 8, 64}), KeepStats: true}, Src: view, Dest: dest})
	if checkHang(r, res, fmt.Sprint(levels)) {
		return r
	}
	r.Count("transfers", 1)
	var sent []*types.Stat
	for _, e := range res.Pair.Log() {
		if e.End == "S" && e.Op == "send" && e.St != nil && e.Err == "" {
			sent = append(sent, e.St)
		}
	}
	var sentPaths []string
	for _, st := range sent {
		sentPaths = append(sentPaths, st.Path)
	}
	det := map[string]any{"tree": snap.Lines(), "filters": levels, "stat_stream": sentPaths}
	// stream validity (independent validator + link rule)
	if k, why := hostileSpec(sent); k >= 0 {
		r.ViolateD("stream-invalid", det, "the sender emitted an invalid stream for filter stack %v: STAT %d (%q) breaks the %s rule", levels, k, sent[k].Path, why)
	}
	r.Count("stats_validated", int64(len(sent)))
	// listing == reference
	matchesNaive := eqStrings(sentPaths, naivePaths)
	if !matchesNaive {
		if k1 && eqStrings(sentPaths, incrPaths) {
			r.Count("k1_cases", 1)
			r.ViolateD("K1-patternmatcher-parent-memo", det, "filtered view differs from the naive reference but equals incremental matching (moby/patternmatcher parent memo)\nwant %q\ngot  %q", naivePaths, sentPaths)
			expView = mkView(incrPaths)
		} else {
			r.ViolateD("view-mismatch", det, "STAT stream of the filtered view differs from the reference\nwant %q\ngot  %q", naivePaths, sentPaths)
			return r
		}
	}
	if res.SendErr != nil || res.RecvErr != nil {
		r.ViolateD("filtered-transfer-failed", det, "transfer of a filtered view failed: send=%v recv=%v (filters %v)", res.SendErr, res.RecvErr, levels)
		return r
	}
	got, err := tree.Snapshot(dest, tree.SnapOpt{})
	if err != nil {
		r.Violate("dest-unreadable", "%v", err)
		return r
	}
	if k1 && !matchesNaive {
		// entries on which the two matcher entry points disagree are served
		// by Walk but hidden by Open (or vice versa): their bytes are not
		// demanded in a case already reported as K1
		diff := map[string]bool{}
		for _, p := range incrPaths {
			diff[p] = true
		}
		for _, p := range naivePaths {
			if diff[p] {
				delete(diff, p)
			} else {
				diff[p] = true
			}
		}
		for i := range expView.Entries {
			e := &expView.Entries[i]
			if diff[e.Path] || (e.LinkTo != "" && diff[e.LinkTo]) {
				if g := got.Get(e.Path); g != nil {
					e.Data = g.Data
				}
			}
		}
	}
	created := map[string]bool{}
	for _, e := range expView.Entries {
		if e.Type == tree.Dir {
			created[e.Path] = true
		}
	}
	if diffs := tree.Diff(expView, got, syncMask(created)); len(diffs) > 0 {
		r.ViolateD("filtered-dest-diverged", det, "dest differs from the reference-filtered source (filters %v):\n%s", levels, strings.Join(trunc(diffs, 8), "\n"))
	}
	r.Count("entries_compared", int64(len(expView.Entries)))
	// --- the filter configuration changes between two transfers into the same
	// destination (here: dropped altogether): which member of a link group
	// stands for it changes with it, and the destination has to follow
	if pfx == "" && !k1 && len(r.Viols) == 0 && core.NewRand(core.Mix(c.Seed, "C11-second-transfer", c.Index)).P(1, 3) {
		res2 := runSync(syncOpt{Cfg: wire.Config{Cap: 8}, Src: base, Dest: dest})
		if !checkHang(r, res2, "second transfer, unfiltered") {
			r.Count("second_transfers_with_another_filter", 1)
			if res2.SendErr != nil || res2.RecvErr != nil {
				r.ViolateD("second-transfer-failed", det, "unfiltered transfer into the result of the filtered one failed: send=%v recv=%v", res2.SendErr, res2.RecvErr)
			} else if got2, err := tree.Snapshot(dest, tree.SnapOpt{}); err == nil {
				exp2, created2 := expectSync(snap, got, got2)
				if diffs := tree.Diff(exp2, got2, syncMask(created2)); len(diffs) > 0 {
					r.ViolateD("second-transfer-diverged", det, "after an unfiltered transfer into the result of the filtered one (filters %v) dest differs from the source:\n%s", levels, strings.Join(trunc(diffs, 8), "\n"))
				}
			}
		}
	}
	// --- open through the view
	listed := map[string]bool{}
	for _, p := range sentPaths {
		listed[p] = true
	}
	naiveSet := map[string]bool{}
	for _, p := range naivePaths {
		naiveSet[p] = true
	}
	for _, e := range snap.Entries {
		if e.Type != tree.File {
			continue
		}
		rc, err := view.Open(pfx + e.Path)
		var data []byte
		if err == nil {
			data, _ = io.ReadAll(rc)
			rc.Close()
		}
		r.Count("opens_checked", 1)
		switch {
		case listed[pfx+e.Path] && err != nil:
			if k1 && !naiveSet[pfx+e.Path] {
				r.ViolateD("K1-patternmatcher-parent-memo", det, "walk reports %q but Open hides it (walk and open use different matcher entry points; patternmatcher parent memo)", e.Path)
			} else {
				r.ViolateD("open-hidden-listed", det, "%q is reported by the filtered walk but cannot be opened through the same view: %v", e.Path, err)
			}
		case listed[pfx+e.Path] && !bytes.Equal(data, e.Data):
			r.ViolateD("open-wrong-bytes", det, "%q opened through the view yields %d bytes, the file has %d", e.Path, len(data), len(e.Data))
		case !listed[pfx+e.Path] && err != nil && !mapDropped[e.Path] && !(k1 && naiveSet[pfx+e.Path]) && pfx == "":
			// hidden and refused under its clean name: other spellings of the
			// same path must be refused as well
			parent := tree.Parent(e.Path)
			for _, alt := range []string{"./" + e.Path, "/" + e.Path, "x/../" + e.Path, joinRel(parent, "./"+tree.Base(e.Path)), e.Path + "/."} {
				rc, err := view.Open(alt)
				r.Count("unclean_opens_of_hidden_files", 1)
				if err == nil {
					data, _ := io.ReadAll(rc)
					rc.Close()
					if bytes.Equal(data, e.Data) {
						r.ViolateD("open-serves-hidden-unclean", det, "%q is hidden by the filter and refused under that name, but Open(%q) serves its bytes", e.Path, alt)
						break
					}
				}
			}
		case !listed[pfx+e.Path] && err == nil:
			if mapDropped[e.Path] {
				// dropped by a map function, not by include/exclude patterns:
				// C11's quantifier does not cover map functions, Open only
				// consults the patterns; counted, not demanded
				r.Count("map_dropped_files_still_openable_diagnostic", 1)
			} else if k1 && naiveSet[pfx+e.Path] {
				r.ViolateD("K1-patternmatcher-parent-memo", det, "walk hides %q but Open serves it (patternmatcher parent memo)", e.Path)
			} else {
				r.ViolateD("open-serves-hidden", det, "%q is hidden by the filter but can be opened through the view", e.Path)
			}
		}
	}
	// non-trivial?
	hiddenMember := false
	for _, e := range snap.Entries {
		if g := snap.GroupOf(e.Path); g != "" && !listed[pfx+e.Path] {
			hiddenMember = true
		}
	}
	r.Nontrivial = len(sentPaths) > 0 && len(sentPaths) < len(snap.Entries) && (hasLinks(expView) || hiddenMember)
	if hiddenMember {
		r.Count("views_hiding_a_link_member", 1)
	}
	if len(levels) > 1 {
		r.Count("nested_stacks", 1)
	}
	return r
}
