package main

import (
	"context"
	"crypto/sha256"
	"encoding/hex"
	"fmt"
	"os"
	"path/filepath"
	"runtime"
	"sync/atomic"
	"sort"
	"strings"
	"time"

	"github.com/tonistiigi/fsutil"
	"github.com/tonistiigi/fsutil/types"
	"verif/internal/core"
	"verif/internal/tree"
	"verif/internal/wire"
)

// C08: outcome is schedule independent; SendMsg/RecvMsg are never concurrent
// on one endpoint; no data races (the binary is built with -race and a race
// report ends the child process, which the runner reports as a violation).

func init() {
	core.Register(&core.Prop{
		ID:    "C08",
		Level: "exploration",
		Rule: "The sender's progress callback keeps unsynchronised state, dwells, and counts overlapping entries and totals that go backwards (calls into the caller's code are serialised like the stream calls). Every third case runs in merge mode with 1200-entry directories in the old destination where the source has files; one failing session per case (burst of requests, then a duplicate) is judged by the overlap detector and by 'no stream call of Send in flight at, or started after, its return'; a fault-free transfer that fails is a violation. each case fixes a source of 100-400 multi-chunk files (plus link groups, directories, small files) and a prior destination (mutated copy) and runs the real Send+Receive under S schedules drawn from stream capacity {0,1,2,8,64} x seeded per-operation delays/yields inside stream calls (the endpoint dwells inside SendMsg/RecvMsg so a missing lock becomes an observable overlap), source reads, hasher and notify callbacks x GOMAXPROCS {1,2,4,16}; the binary is built with the Go race detector (halt_on_error). Outcomes (dest snapshot, REQ set, notification set with digests) of all schedules of a case must be equal up to the hard-link exception; the overlap detector of the harness stream must stay silent. After the schedule cases the quick workloads of other transfer checks (quick: C04 fault plans, C19 metadata-only; thorough: also C01 C02 C05 C06 C07 C11 C13 C16 C17) are repeated inside the race-instrumented binary; there only race reports count (observed race_sweep_cases_<id>). " +
			"non-trivial = schedule run with >=50 content requests; distinct by interleaving fingerprint (hash of the merged order of (endpoint, op, packet type, id) events)",
		Assumptions: []string{"root", "schedules the Go runtime does not produce in the run are not covered; the race detector only sees executed paths", "built with -race: a race report terminates the child process and is reported with its log"},
		Cases: func(tier string) int {
			if tier == "thorough" {
				return 80 * 30
			}
			return 6 * 12
		},
		Batch:         6,
		Par:           8,
		CaseTimeout:   300 * 1e9,
		MinNontrivial: func(tier string) int { return 20 },
		Env:           []string{"GORACE=halt_on_error=1 history_size=3"},
		// the fault, cancellation and option paths of the other transfer
		// checks run under the race detector too; only race reports count
		RaceSweep: func(tier string) []string {
			if tier == "thorough" {
				return []string{"C04", "C19", "C01", "C02", "C05", "C06", "C07", "C11", "C13", "C16", "C17"}
			}
			return []string{"C04", "C19"}
		},
		Run: c08Run,
	})
}

type c08Outcome struct {
	dest  *tree.Tree
	reqs  map[string]bool
	notes map[string]bool
	fp    string
	nreq  int
}

// c08Case derives the fixed (source, prior) of a case from the case number.
func c08Case(seed uint64, caseNo int) (*tree.Tree, *tree.Tree) {
	R := core.NewRand(core.Mix(seed, "C08-case", caseNo))
	n := R.Range(100, 400)
	t := &tree.Tree{}
	for _, d := range []string{"a", "a/b", "a-b", "z"} {
		t.Entries = append(t.Entries, tree.Entry{Path: d, Type: tree.Dir, Perm: 0755, Mtime: 1e18})
	}
	dirs := []string{"", "a", "a/b", "a-b", "z"}
	// the first entry of the stream (id 0, the value proto3 leaves off the
	// wire) is a regular file that gets requested among many others
	t.Entries = append(t.Entries, tree.Entry{Path: "!first", Type: tree.File, Perm: 0644, Mtime: 1e18, Data: R.Bytes(40000)})
	for i := 0; i < n; i++ {
		d := core.Pick(R, dirs)
		p := fmt.Sprintf("f%04d", i)
		if d != "" {
			p = d + "/" + p
		}
		sz := core.Pick(R, []int{33000, 40000, 65536, 70000, 100000})
		if R.P(1, 5) {
			sz = R.Intn(2000)
		}
		t.Entries = append(t.Entries, tree.Entry{Path: p, Type: tree.File, Perm: 0644, Mtime: 1e18 + int64(i), Data: R.Bytes(sz)})
		if R.P(1, 15) {
			e := t.Entries[len(t.Entries)-1].Clone()
			e.Path = p + ".lnk"
			e.LinkTo = p
			t.Entries = append(t.Entries, e)
		}
	}
	t.Sort()
	t.Recanon()
	prior := t.Clone()
	// most files differ (content requests), some are unchanged, some stale
	for i := range prior.Entries {
		e := &prior.Entries[i]
		if e.Type == tree.File && e.LinkTo == "" && prior.GroupOf(e.Path) == "" && R.P(7, 8) {
			e.Mtime += 1000
			if len(e.Data) > 10 {
				e.Data = e.Data[:10]
			}
		}
	}
	mutate(R, prior, 6, editOpt{Types: "fdl"})
	if caseNo%3 == 2 {
		// (merge-mode cases) a large directory where the source has a file:
		// taking it away takes the receiver a while
		n := 0
		for _, e := range t.Entries {
			if e.Type == tree.File && e.LinkTo == "" && t.GroupOf(e.Path) == "" && len(e.Data) > 30000 && strings.HasPrefix(e.Path, "z/") {
				prior.Remove(e.Path)
				prior.Entries = append(prior.Entries, tree.Entry{Path: e.Path, Type: tree.Dir, Perm: 0755, Mtime: 5})
				for k := 0; k < 1200; k++ {
					prior.Entries = append(prior.Entries, tree.Entry{Path: fmt.Sprintf("%s/old%04d", e.Path, k), Type: tree.File, Perm: 0644, Mtime: 5, Data: []byte("old")})
				}
				if n++; n == 8 {
					break
				}
			}
		}
	}
	prior.Put(tree.Entry{Path: "stale", Type: tree.Dir, Perm: 0755, Mtime: 5})
	prior.Put(tree.Entry{Path: "stale/x", Type: tree.File, Perm: 0644, Mtime: 5, Data: []byte("x")})
	prior.Sort()
	return t, prior
}

func c08Run(c *core.Ctx) *core.Result {
	r := &core.Result{}
	if !needRoot(r) {
		return r
	}
	perCase := 12
	if c.Thorough() {
		perCase = 30
	}
	caseNo := c.Index / perCase
	sched := c.Index % perCase
	src, prior := c08Case(c.Seed, caseNo)
	R := c.R
	capn := []int{0, 1, 2, 8, 64}[sched%5]
	procs := []int{1, 2, 4, 16}[(sched/5+sched)%4]
	delayStream := []int{0, 5, 50}[sched%3]
	delayRead := []int{0, 20}[(sched/3)%2]
	delayCb := []int{0, 30}[(sched/6)%2]
	desc := fmt.Sprintf("case %d schedule %d: cap=%d GOMAXPROCS=%d delays(stream=%dus read=%dus callbacks=%dus)", caseNo, sched, capn, procs, delayStream, delayRead, delayCb)
	r.Sample = map[string]any{"schedule": desc, "files": len(src.Entries)}
	// the sender's progress callback is the caller's code: it keeps plain
	// state (the race detector watches it), counts entries that overlap and
	// totals that go backwards, and dwells like the other callbacks
	var progOverlap, progBackwards atomic.Int64
	run := func(schedNo int, capn, procs, dStream, dRead, dCb int, rr *core.Rand) (*c08Outcome, *syncRes, string) {
		var progIn atomic.Int64
		progCalls, progLast := 0, 0
		g5 := rr.Fork()
		progress := func(n int, last bool) {
			if progIn.Add(1) > 1 {
				progOverlap.Add(1)
			}
			progCalls++
			if n < progLast {
				progBackwards.Add(1)
			}
			progLast = n
			if dCb > 0 {
				jitter(g5, dCb)
			} else if progCalls%3 == 0 {
				runtime.Gosched()
			}
			progIn.Add(-1)
		}
		dest := filepath.Join(c.Dir, fmt.Sprintf("dest%d", schedNo))
		os.RemoveAll(dest)
		os.Mkdir(dest, 0755)
		if err := tree.Materialise(dest, prior); err != nil {
			return nil, nil, "materialise: " + err.Error()
		}
		old := runtime.GOMAXPROCS(procs)
		defer runtime.GOMAXPROCS(old)
		sf := newSynthFS(src)
		sf.ChunkMax = []int{0, 4096, 32768}[schedNo%3]
		g1, g2, g3 := rr.Fork(), rr.Fork(), rr.Fork()
		if dRead > 0 {
			sf.Hook = func(op, p string) {
				if op == "read" {
					jitter(g1, dRead)
				}
			}
		}
		nrec := newNotifyRec()
		hs := newHasher()
		if dCb > 0 {
			nrec.Hook = func() { jitter(g2, dCb) }
			hs.Hook = func() { jitter(g2, dCb) }
		}
		cfg := wire.Config{Cap: capn}
		// dwell inside every stream call (phase 0 runs while the in-flight
		// counter of the endpoint is raised)
		// ... and, in half of the schedules, after the hand-over: the call
		// returns late, the peer may already have answered (a transport whose
		// send completes after delivery)
		dPost := []int{0, 300, 0, 3000}[schedNo%4]
		g4 := rr.Fork()
		cfg.Hook = func(end, op string, idx int64, phase int) {
			if phase == 0 {
				jitter(g3, dStream+1)
			} else if dPost > 0 && op == "send" {
				jitter(g4, dPost)
			}
		}
		if schedNo%4 == 3 {
			// every eighth request returns so late that the whole answer can
			// have arrived before the requester goes on
			nreq := 0
			cfg.PostSend = func(end string, pk *types.Packet) {
				if end == "R" && pk.Type == types.PACKET_REQ {
					nreq++
					if nreq%8 == 1 {
						time.Sleep(30 * time.Millisecond)
					}
				}
			}
		}
		res := runSync(syncOpt{Cfg: cfg, Src: sf, Dest: dest, Timeout: 240 * 1e9, Progress: progress,
			// (every third case in merge mode: each entry is an addition that
			// is built next to what the destination holds and renamed over it)
			Recv: fsutil.ReceiveOpt{NotifyHashed: nrec.fn, ContentHasher: hs.fn, Merge: caseNo%3 == 2}})
		if res.Deadlock || res.TimedOut {
			return nil, res, ""
		}
		if res.SendErr != nil || res.RecvErr != nil {
			return nil, res, fmt.Sprintf("transfer failed: send=%v recv=%v", res.SendErr, res.RecvErr)
		}
		out := &c08Outcome{reqs: map[string]bool{}, notes: map[string]bool{}}
		stats, reqs := statIndex(res.Pair.Log())
		for _, id := range reqs {
			if int(id) < len(stats) {
				out.reqs[stats[id]] = true
			} else {
				out.reqs[fmt.Sprintf("<bad id %d>", id)] = true
			}
		}
		out.nreq = len(reqs)
		for _, n := range nrec.list() {
			out.notes[n.Kind+" "+n.Path+" "+n.Digest] = true
		}
		d, err := tree.Snapshot(dest, tree.SnapOpt{})
		if err != nil {
			return nil, res, "snapshot: " + err.Error()
		}
		out.dest = d
		h := sha256.New()
		for _, e := range res.Pair.Log() {
			if e.Op == "sendq" {
				continue
			}
			fmt.Fprintf(h, "%s%s%d.%d;", e.End, e.Op[:1], e.Type, e.ID)
		}
		out.fp = hex.EncodeToString(h.Sum(nil)[:8])
		os.RemoveAll(dest)
		return out, res, ""
	}
	// the reference outcome of the case: schedule "0" parameters, always the same
	refR := core.NewRand(core.Mix(c.Seed, "C08-ref", caseNo))
	ref, res0, problem := run(1000, 8, 4, 0, 0, 0, refR)
	if res0 != nil && checkHang(r, res0, desc+" (reference schedule)") {
		return r
	}
	if strings.HasPrefix(problem, "transfer failed") {
		// no fault is injected anywhere: the transfer of a legal tree into a
		// legal prior destination has one outcome, and it is not an error
		// (the other schedules of this case complete)
		r.ViolateD("schedule-dependent-failure", map[string]any{"schedule": desc}, "%s (reference schedule): fault-free %s", desc, problem)
		return r
	}
	if problem != "" || ref == nil {
		r.Inconclusive = "reference schedule: " + problem
		return r
	}
	out, res, problem := run(sched, capn, procs, delayStream, delayRead, delayCb, R)
	if res != nil && checkHang(r, res, desc) {
		return r
	}
	if strings.HasPrefix(problem, "transfer failed") {
		// the reference schedule transferred the same source into the same
		// prior destination without an error
		r.ViolateD("schedule-dependent-failure", map[string]any{"schedule": desc}, "%s: %s, while the same transfer succeeds under the reference schedule", desc, problem)
		return r
	}
	if problem != "" || out == nil {
		r.Inconclusive = desc + ": " + problem
		return r
	}
	if progOverlap.Load() > 0 || progBackwards.Load() > 0 {
		r.ViolateD("progress-callback-not-serialised", map[string]any{"schedule": desc}, "%s: the sender's progress callback was entered %d times while another call of it was running, and saw its total go backwards %d times", desc, progOverlap.Load(), progBackwards.Load())
		return r
	}
	r.Count("schedule_runs", 2)
	r.Count("schedule_runs_with_a_monitored_progress_callback", 2)
	if caseNo%3 == 2 {
		r.Count("schedule_runs_in_merge_mode", 2)
	}
	if sched%4 == 2 {
		// the same case with a peer that makes the session fail while many
		// files are in flight (all ids requested in one burst, then one of
		// them again): once Send has returned the stream is the caller's, a
		// stream call of a worker that is still in flight, or starts later,
		// overlaps whatever the caller does with it next
		sf := newSynthFS(src)
		sf.ChunkMax = 4096
		rr := newRefReceiver("burst", "duplicate", R.Fork())
		gf := R.Fork()
		fres := runSync(syncOpt{Cfg: wire.Config{Cap: capn, Hook: func(end, op string, idx int64, phase int) {
			if phase == 0 {
				jitter(gf, delayStream+1)
			}
		}}, Src: sf, TeardownWhenStuck: true, Timeout: 240 * 1e9,
			RecvFn: func(ctx context.Context, s fsutil.Stream) error { return rr.run(ctx, s) }})
		if fres.Deadlock || fres.TimedOut {
			r.Count("failing_sessions_not_judged", 1)
		} else {
			r.Count("failing_sessions_with_files_in_flight", 1)
			if fres.SendErr == nil {
				r.Count("failing_sessions_where_send_succeeded", 1)
			}
			if n, late := fres.Pair.S.InFlightAtReturn(), fres.Pair.S.LateOps(); n > 0 || len(late) > 0 {
				r.ViolateD("sender-stream-in-use-after-return", map[string]any{"schedule": desc, "late_operations": late, "send_err": fmt.Sprint(fres.SendErr)}, "%s, duplicate request while files are in flight: when Send returned (%v) %d stream call(s) of its workers were still in flight on its endpoint and %d more were started afterwards; the caller's next use of the stream overlaps them", desc, fres.SendErr, n, len(late))
			}
			if ov := fres.Pair.Overlaps(); len(ov) > 0 {
				r.ViolateD("stream-overlap", trunc(ov, 3), "%s (failing session): %d overlapping stream calls on one endpoint observed, first: %s", desc, len(ov), strings.SplitN(ov[0], "\n", 2)[0])
			}
		}
	}
	r.AddSet("interleavings", ref.fp)
	r.AddSet("interleavings", out.fp)
	r.AddSet("schedule_parameters", fmt.Sprintf("cap%d/p%d/%d/%d/%d", capn, procs, delayStream, delayRead, delayCb))
	r.Count("content_requests_observed", int64(out.nreq))
	r.FP = out.fp
	r.Nontrivial = out.nreq >= 50
	for _, rs := range []*syncRes{res0, res} {
		if ov := rs.Pair.Overlaps(); len(ov) > 0 {
			r.ViolateD("stream-overlap", trunc(ov, 3), "%s: %d overlapping stream calls on one endpoint observed, first: %s", desc, len(ov), strings.SplitN(ov[0], "\n", 2)[0])
		}
	}
	// compare the outcome with the reference schedule's
	priorSnapLike := prior
	_, either := changedSet(priorSnapLike, src)
	created := map[string]bool{}
	for _, e := range src.Entries {
		if e.Type == tree.Dir {
			if o := prior.Get(e.Path); o == nil || o.Type != tree.Dir {
				created[e.Path] = true
			}
		}
	}
	m := syncMask(created)
	diffs := tree.Diff(ref.dest, out.dest, m)
	var realDiffs []string
	for _, d := range diffs {
		skip := false
		for p := range either {
			if strings.Contains(d, " "+p+" ") {
				skip = true
			}
		}
		if !skip {
			realDiffs = append(realDiffs, d)
		}
	}
	if len(realDiffs) > 0 {
		r.ViolateD("schedule-dependent-dest", map[string]any{"schedule": desc, "diffs": realDiffs}, "%s: final destination differs from the one produced under the reference schedule:\n%s", desc, strings.Join(trunc(realDiffs, 6), "\n"))
	}
	setDiff := func(a, b map[string]bool, pathOf func(string) string) []string {
		var d []string
		for k := range a {
			if !b[k] && !either[pathOf(k)] {
				d = append(d, "only in reference: "+k)
			}
		}
		for k := range b {
			if !a[k] && !either[pathOf(k)] {
				d = append(d, "only in this schedule: "+k)
			}
		}
		sort.Strings(d)
		return d
	}
	if d := setDiff(ref.reqs, out.reqs, func(s string) string { return s }); len(d) > 0 {
		r.ViolateD("schedule-dependent-requests", d, "%s: set of content requests differs from the reference schedule: %s", desc, strings.Join(trunc(d, 5), "; "))
	}
	if d := setDiff(ref.notes, out.notes, func(s string) string {
		f := strings.SplitN(s, " ", 2)
		if len(f) < 2 {
			return s
		}
		i := strings.LastIndex(f[1], " ")
		if i < 0 {
			return f[1]
		}
		return f[1][:i]
	}); len(d) > 0 {
		r.ViolateD("schedule-dependent-notifications", d, "%s: set of change notifications (with digests) differs from the reference schedule: %s", desc, strings.Join(trunc(d, 5), "; "))
	}
	r.Count("outcomes_compared", 1)
	_ = types.Stat{}
	return r
}
