package main

import (
	"context"
	"errors"
	"fmt"
	"io"
	gofs "io/fs"
	"os"
	"path/filepath"
	"strings"
	"sync"
	"sync/atomic"
	"time"

	"github.com/tonistiigi/fsutil"
	"github.com/tonistiigi/fsutil/types"
	"github.com/tonistiigi/fsutil/util"
	"verif/internal/core"
	"verif/internal/tree"
	"verif/internal/wire"
)

// C04: faults - both ends terminate once the stream is torn down, success is
// never reported for a partial tree, nothing leaks, a later clean transfer
// converges.

type faultPlan struct {
	Tree  int    `json:"tree"`
	Class string `json:"class"` // ssend srecv rsend rrecv cancelS cancelR walk read hasher notify sigkill vanish rootfail earlyfin fanout
	Mode  string `json:"mode,omitempty"`
	K     int    `json:"k"`
	J     int    `json:"j,omitempty"`
	// KeepCtx: tearing the stream down does not cancel the contexts the two
	// calls were given (they are independent of the transport and of each
	// other, and nobody cancels them)
	KeepCtx bool `json:"keepctx,omitempty"`
}

func mkPlan(t int, class, mode string, k, j int) faultPlan {
	return faultPlan{Tree: t, Class: class, Mode: mode, K: k, J: j}
}

func (f faultPlan) String() string {
	s := fmt.Sprintf("tree%d %s/%s k=%d j=%d", f.Tree, f.Class, f.Mode, f.K, f.J)
	if f.KeepCtx {
		s += " keepctx"
	}
	return s
}

func c04Plans(tier string) []faultPlan {
	trees, fan := 1, 60
	if tier == "thorough" {
		trees, fan = 40, 2000
	}
	var out []faultPlan
	for t := 0; t < trees; t++ {
		first := len(out)
		for k := 0; k < 28; k++ {
			for _, m := range []string{"once", "sticky"} {
				out = append(out, mkPlan(t, "ssend", m, k, 0))
			}
			for _, m := range []string{"once", "sticky", "eof"} {
				out = append(out, mkPlan(t, "rrecv", m, k, 0))
			}
		}
		for k := 0; k < 8; k++ {
			for _, m := range []string{"once", "sticky", "eof"} {
				out = append(out, mkPlan(t, "srecv", m, k, 0))
			}
			for _, m := range []string{"once", "sticky"} {
				out = append(out, mkPlan(t, "rsend", m, k, 0))
			}
		}
		for k := 0; k < 64; k++ {
			out = append(out, mkPlan(t, "cancelS", "", k, 0), mkPlan(t, "cancelR", "", k, 0))
		}
		for k := 0; k < 14; k++ {
			out = append(out, mkPlan(t, "walk", "", k, 0), mkPlan(t, "hasher", "", k, 0), mkPlan(t, "notify", "", k, 0))
		}
		for k := 0; k < 6; k++ {
			for j := 0; j < 5; j++ {
				out = append(out, mkPlan(t, "read", "", k, j))
			}
		}
		// every plan again over a transport whose teardown leaves the two
		// contexts alone
		for _, pl := range out[first:] {
			pl.KeepCtx = true
			out = append(out, pl)
		}
		for k := 0; k < 26; k++ {
			out = append(out, mkPlan(t, "sigkill", "", k, 0))
		}
	}
	// a destination that is already in sync: no content request is ever sent,
	// so after a cancellation the next packet either end reads is a STAT or
	// FIN (tree numbers >= 1000: same tree, prior = copy of the source)
	for t := 0; t < trees; t++ {
		first := len(out)
		for k := 0; k < 32; k++ {
			out = append(out, mkPlan(1000+t, "cancelS", "", k, 0), mkPlan(1000+t, "cancelR", "", k, 0))
		}
		for k := 0; k < 14; k++ {
			out = append(out, mkPlan(1000+t, "walk", "", k, 0))
		}
		for _, pl := range out[first:] {
			pl.KeepCtx = true
			out = append(out, pl)
		}
	}
	// an entry that vanishes between the directory listing and its lstat
	// (bare directory FS and the same below a filter FS), into the ordinary
	// prior destination and into one that is in sync
	for t := 0; t < trees; t++ {
		for k := 0; k < 14; k++ {
			for _, m := range []string{"bare", "filter"} {
				out = append(out, mkPlan(t, "vanish", m, k, 0), mkPlan(1000+t, "vanish", m, k, 0))
			}
		}
	}
	// the source root itself cannot be read when the walk starts: it was
	// removed after the FS object was made, or the (unprivileged) sender may
	// not list it. Prior destination in sync, so that "an empty tree" shows.
	for t := 0; t < trees; t++ {
		out = append(out, mkPlan(1000+t, "rootfail", "gone", 0, 0), mkPlan(1000+t, "rootfail", "perm", 0, 0), mkPlan(t, "rootfail", "gone", 1, 0), mkPlan(t, "rootfail", "perm", 1, 0))
	}
	// a sender that says FIN although nobody asked it to, after k entries of
	// its listing, and then goes away: the receiver's stream just ends
	for t := 0; t < trees; t++ {
		for k := 0; k < 10; k++ {
			pl := mkPlan(t, "earlyfin", "", k, 0)
			out = append(out, pl)
			pl.KeepCtx = true
			out = append(out, pl)
		}
	}
	for i := 0; i < fan; i++ {
		pl := mkPlan(i, "fanout", []string{"rsend-sticky", "cancelR", "cancelS", "srecv-sticky", "ssend-sticky", "rrecv-eof", "notify-backlog", "hasher-backlog", "cancelR-backlog", "teardown-backlog"}[i%10], 0, (i/10)%2)
		// every second block of twenty: the contexts outlive the transport
		pl.KeepCtx = (i/20)%2 == 1
		out = append(out, pl)
	}
	// an entry that is listed but whose lazy stat fails with something else
	// than "vanished" (EIO): the walk has to fail, not go on without it
	for t := 0; t < trees; t++ {
		for k := 0; k < 14; k++ {
			for _, tt := range []int{t, 1000 + t} {
				pl := mkPlan(tt, "walk", "stat", k, 0)
				out = append(out, pl)
				pl.KeepCtx = true
				out = append(out, pl)
			}
		}
	}
	// the receiver alone is cancelled in the tail of a transfer: the listing
	// has ended, every content request is out and every writer waits for its
	// bytes (source reads are held back); the stream and the sender stay
	// healthy and the bytes are served afterwards
	ntail := 12
	if tier == "thorough" {
		ntail = 400
	}
	for i := 0; i < ntail; i++ {
		pl := mkPlan(i, "fanout", "cancelR-tail", 0, i%2)
		pl.KeepCtx = (i/2)%2 == 1
		out = append(out, pl)
	}
	return out
}

// c04Tree is the small tree whose every operation index is enumerated.
func c04Tree(seed uint64, idx int) (*tree.Tree, *tree.Tree) {
	if idx >= 1000 {
		t, _ := c04Tree(seed, idx-1000)
		return t, t.Clone()
	}
	R := core.NewRand(core.Mix(seed, "C04-tree", idx))
	t := &tree.Tree{}
	put := func(e tree.Entry) {
		if e.Mtime == 0 {
			e.Mtime = 1e18 + int64(len(t.Entries))
		}
		t.Entries = append(t.Entries, e)
	}
	put(tree.Entry{Path: "a", Type: tree.Dir, Perm: 0755})
	put(tree.Entry{Path: "a/big", Type: tree.File, Perm: 0644, Data: R.Bytes(70000)})
	put(tree.Entry{Path: "a/empty", Type: tree.File, Perm: 0600, Data: []byte{}})
	put(tree.Entry{Path: "a/sub", Type: tree.Dir, Perm: 0700})
	put(tree.Entry{Path: "a/sub/two", Type: tree.File, Perm: 0644, Data: R.Bytes(40000)})
	put(tree.Entry{Path: "a-b", Type: tree.File, Perm: 0755, Data: R.Bytes(5)})
	put(tree.Entry{Path: "fifo", Type: tree.Fifo, Perm: 0644})
	put(tree.Entry{Path: "hl", Type: tree.File, Perm: 0755, Data: nil, LinkTo: "a-b"})
	put(tree.Entry{Path: "lnk", Type: tree.Symlink, Perm: 0777, Target: "a/big"})
	put(tree.Entry{Path: "one", Type: tree.File, Perm: 0644, Data: R.Bytes(32768)})
	put(tree.Entry{Path: "z", Type: tree.Dir, Perm: 0755})
	put(tree.Entry{Path: "z/f", Type: tree.File, Perm: 0644, Data: R.Bytes(R.Range(1, 300))})
	hl := t.Get("hl")
	ab := t.Get("a-b")
	hl.Data, hl.Mtime = ab.Data, ab.Mtime
	if idx > 0 {
		mutate(R, t, R.Range(1, 4), editOpt{Types: "fdl"})
	}
	t.Sort()
	// the prior destination differs in most entries so that the transfer has
	// content requests, replacements, notifications and deletions to do
	prior := t.Clone()
	if e := prior.Get("a/big"); e != nil && e.Type == tree.File {
		e.Data = R.Bytes(len(e.Data))
		e.Mtime += 7
	}
	// the link group is out of date too, so that the file and its link are
	// re-created by the transfer (an abort can then hit between the two)
	if e := prior.Get("a-b"); e != nil && e.Type == tree.File {
		nd := R.Bytes(9)
		applyGroup(prior, "a-b", func(x *tree.Entry) { x.Data = append([]byte{}, nd...); x.Mtime += 3 })
	}
	prior.Remove("a/empty")
	if e := prior.Get("a/sub/two"); e != nil && e.Type == tree.File {
		e.Data = R.Bytes(100)
	}
	if prior.Get("one") != nil {
		prior.Remove("one")
		prior.Put(tree.Entry{Path: "one", Type: tree.Dir, Perm: 0755, Mtime: 5})
		prior.Put(tree.Entry{Path: "one/inner", Type: tree.File, Perm: 0644, Mtime: 5, Data: []byte("inner")})
	}
	if prior.Get("fifo") != nil {
		prior.Remove("fifo")
		prior.Put(tree.Entry{Path: "fifo", Type: tree.File, Perm: 0644, Mtime: 5, Data: []byte("not a fifo")})
	}
	if e := prior.Get("lnk"); e != nil && e.Type == tree.Symlink {
		e.Target = "elsewhere"
	}
	if e := prior.Get("z"); e != nil {
		e.Perm = 0700
	}
	fixGroups(prior)
	prior.Put(tree.Entry{Path: "stale", Type: tree.Dir, Perm: 0755, Mtime: 5})
	prior.Put(tree.Entry{Path: "stale/x", Type: tree.File, Perm: 0644, Mtime: 5, Data: []byte("x")})
	prior.Sort()
	return t, prior
}

func init() {
	core.Register(&core.Prop{
		ID:    "C04",
		Level: "fault_enumeration",
		Rule: "Added fault class earlyfin (a scripted peer sends k entries of the listing, a FIN nobody asked for, and goes away) and the oracle that nothing of Send is in flight on, or started on, its endpoint once it has returned. for a fixed 12-entry tree (and, in the thorough tier, 11 mutated variants) EVERY operation index k of every fault class is enumerated: error (once / sticky) or EOF at the k-th SendMsg/RecvMsg of either endpoint, cancellation of either context at global stream operation k, walk error at entry k, entry k listed but its lazy Info() failing with EIO, entry k removed from the disk at the moment the walk reports it (its lstat fails; the source view of that run is the directory without it), the source root itself unreadable when the walk starts (removed after the FS object was made; not listable for a uid-1234 sender), read error after j in {0,1,mid-chunk,chunk boundary,last byte} bytes of file k, hasher error at call k, notify error at call k, SIGKILL of a receiver process (real pipes, util.NewProtoStream) after k packets; the receiver's context alone cancelled in the tail of a transfer (listing ended, all 1-3 content requests out, source reads held back until then); plus sampled faults on a 300-file fan-out whose DATA packets are gated so that >132 requests are pending when the fault hits. Real Send and Receive run with separate contexts; termination is decided by the quiescence detector (teardown by the harness is allowed once, quiescence after it is a violation), leaks by goroutine sampling, stream operations started on an endpoint after its call has returned (the stream belongs to the caller again), false success by the C01 oracle and the packet log, recovery by a follow-up clean transfer. " +
			"non-trivial = the addressed operation was reached (fault fired); distinct by fault plan; plans whose operation index exceeds the run are reported as not fired",
		Assumptions:   []string{"root", "Open failures map to empty content by design and are not injected", "kernel-level disk faults on the receiving side are out of scope", "teardown = both directions fail and both contexts are cancelled (what a transport does when the connection breaks)"},
		Cases:         func(tier string) int { return len(c04Plans(tier)) },
		Batch:         20,
		CaseTimeout:   150 * time.Second,
		MinNontrivial: func(tier string) int { return 150 },
		Run:           c04Run,
	})
}

type c04Obs struct {
	fired atomic.Bool
}

func c04Run(c *core.Ctx) *core.Result {
	r := &core.Result{}
	if !needRoot(r) {
		return r
	}
	plans := c04Plans(c.Tier)
	plan := plans[c.Index]
	r.Sample = plan
	r.FP = plan.String()
	r.AddSet("fault_classes", plan.Class+"/"+plan.Mode)
	if plan.Class == "fanout" {
		return c04Fanout(c, r, plan)
	}
	src, prior := c04Tree(c.Seed, plan.Tree)
	dest := filepath.Join(c.Dir, "dest")
	os.Mkdir(dest, 0755)
	if err := tree.Materialise(dest, prior); err != nil {
		r.Inconclusive = "materialise: " + err.Error()
		return r
	}
	if plan.Class == "sigkill" {
		return c04Sigkill(c, r, plan, src, dest)
	}
	if plan.Class == "vanish" {
		return c04Vanish(c, r, plan, src, dest)
	}
	if plan.Class == "rootfail" {
		return c04RootFail(c, r, plan, src, dest)
	}
	if plan.Class == "earlyfin" {
		return c04EarlyFin(c, r, plan, src, dest)
	}
	obs := &c04Obs{}
	sf := newSynthFS(src)
	nrec := newNotifyRec()
	hs := newHasher()
	cfg := wire.Config{Cap: []int{0, 1, 8}[plan.K%3], TeardownKeepsContexts: plan.KeepCtx, StreamIgnoresContexts: plan.KeepCtx}
	var pair *wire.Pair
	var ops atomic.Int64
	sticky := atomic.Bool{}
	match := func(end, op string) bool {
		switch plan.Class {
		case "ssend":
			return end == "S" && op == "send"
		case "srecv":
			return end == "S" && op == "recv"
		case "rsend":
			return end == "R" && op == "send"
		case "rrecv":
			return end == "R" && op == "recv"
		}
		return false
	}
	cfg.Fault = func(end, op string, idx int64) error {
		n := ops.Add(1) - 1
		switch plan.Class {
		case "cancelS", "cancelR":
			if int(n) == plan.K {
				obs.fired.Store(true)
				if plan.Class == "cancelS" {
					pair.S.Cancel()
				} else {
					pair.R.Cancel()
				}
			}
			return nil
		}
		if !match(end, op) {
			return nil
		}
		if int(idx) == plan.K || (plan.Mode == "sticky" && sticky.Load()) {
			obs.fired.Store(true)
			sticky.Store(true)
			if plan.Mode == "eof" {
				return io.EOF
			}
			return errInjected
		}
		return nil
	}
	switch plan.Class {
	case "walk":
		if plan.Mode == "stat" {
			sf.InfoErrAt = plan.K
		} else {
			sf.WalkErrAt = plan.K
		}
		if plan.K < len(src.Entries) {
			obs.fired.Store(true)
		}
	case "read":
		var files []string
		for _, e := range src.Entries {
			if e.Type == tree.File && e.LinkTo == "" {
				files = append(files, e.Path)
			}
		}
		if plan.K < len(files) {
			e := src.Get(files[plan.K])
			n := len(e.Data)
			off := []int{0, 1, n / 2, 32768, n - 1}[plan.J]
			if off < 0 {
				off = 0
			}
			if off <= n {
				sf.ReadErr = map[string]int{e.Path: off}
			}
		}
	case "hasher":
		hs.ErrAt = int64(plan.K)
	case "notify":
		nrec.ErrAt = plan.K
	}
	var srcFS fsutil.FS = sf
	if plan.Class != "walk" && plan.Class != "read" && plan.K%2 == 0 {
		srcFS = c04DiskSrc(dest, src)
	}
	// source-side faults (and every second other plan) run over a transport
	// that shows the receiver a plain end of stream when the sender gives up
	eofOnErr := plan.Class == "walk" || plan.Class == "read" || plan.K%2 == 1
	res := runSync(syncOpt{Cfg: cfg, Src: srcFS, Dest: dest, TeardownWhenStuck: true, Timeout: 90 * time.Second, EOFOnSendError: eofOnErr,
		OnPair: func(p *wire.Pair) { pair = p },
		Recv:   fsutil.ReceiveOpt{NotifyHashed: nrec.fn, ContentHasher: hs.fn}})
	// did the source-side / callback faults fire?
	switch plan.Class {
	case "read":
		for p := range sf.ReadErr {
			sf.mu.Lock()
			if sf.opened[p] > 0 {
				obs.fired.Store(true)
			}
			sf.mu.Unlock()
		}
	case "hasher":
		hs.mu.Lock()
		if hs.calls > hs.ErrAt {
			obs.fired.Store(true)
		}
		hs.mu.Unlock()
	case "notify":
		for _, n := range nrec.list() {
			if n.Kind == "error-injected" {
				obs.fired.Store(true)
			}
		}
	}
	c04Judge(c, r, plan, res, src, nil, dest, obs.fired.Load())
	return r
}

// vanishFS removes the k-th entry of the walk from the disk at the moment the
// directory FS reports it: the entry was listed, its lazy lstat fails.
type vanishFS struct {
	fsutil.FS
	root    string
	k       int
	removed string
}

func (v *vanishFS) Walk(ctx context.Context, target string, fn gofs.WalkDirFunc) error {
	n := 0
	return v.FS.Walk(ctx, target, func(p string, d gofs.DirEntry, err error) error {
		if n == v.k && v.removed == "" {
			if os.RemoveAll(filepath.Join(v.root, p)) == nil {
				v.removed = p
			}
		}
		n++
		return fn(p, d, err)
	})
}

// c04RootFail: the walk of the source fails at the root itself.
func c04RootFail(c *core.Ctx, r *core.Result, plan faultPlan, src *tree.Tree, dest string) *core.Result {
	sd := filepath.Join(c.Dir, "src-rootfail")
	if os.Mkdir(sd, 0755) != nil || tree.Materialise(sd, src) != nil {
		r.Inconclusive = "materialise source"
		return r
	}
	base, err := fsutil.NewFS(sd)
	if err != nil {
		r.Inconclusive = "NewFS: " + err.Error()
		return r
	}
	var srcFS fsutil.FS = base
	if plan.K%2 == 1 {
		if srcFS, err = fsutil.NewFilterFS(base, &fsutil.FilterOpt{}); err != nil {
			r.Inconclusive = "NewFilterFS: " + err.Error()
			return r
		}
	}
	so := syncOpt{Cfg: wire.Config{Cap: 8}, Src: srcFS, Dest: dest, TeardownWhenStuck: true, Timeout: 90 * time.Second}
	var res *syncRes
	switch plan.Mode {
	case "gone":
		if err := os.RemoveAll(sd); err != nil {
			r.Inconclusive = "remove source: " + err.Error()
			return r
		}
		res = runSync(so)
	case "perm":
		// searchable, not listable; both ends run as uid 1234
		os.Lchown(sd, 0, 0)
		os.Chmod(sd, 0711)
		os.Chmod(c.Dir, 0755)
		chownTree(dest, 1234, 1234)
		if err := asUser(1234, 1234, func() { res = runSync(so) }); err != nil {
			r.Inconclusive = "cannot switch uid: " + err.Error()
			return r
		}
		chownTree(dest, 0, 0)
	}
	r.Count("walks_failing_at_the_source_root", 1)
	c04Judge(c, r, plan, res, src, nil, dest, true)
	return r
}

// c04EarlyFin: the peer sends the first k entries of its listing, then a FIN
// the receiver never asked for, and its call ends (with an error of its own,
// which the transport shows the receiver as a plain end of stream).
func c04EarlyFin(c *core.Ctx, r *core.Result, plan faultPlan, src *tree.Tree, dest string) *core.Result {
	sts, err := walkStats(newSynthFS(src), "")
	if err != nil {
		r.Inconclusive = "listing: " + err.Error()
		return r
	}
	k := plan.K
	if k > len(sts) {
		k = len(sts)
	}
	so := syncOpt{Cfg: wire.Config{Cap: []int{0, 1, 8}[plan.K%3], TeardownKeepsContexts: plan.KeepCtx, StreamIgnoresContexts: plan.KeepCtx}, Dest: dest, TeardownWhenStuck: true, Timeout: 90 * time.Second, EOFOnSendError: true,
		SendFn: func(ctx context.Context, s fsutil.Stream) error {
			for _, st := range sts[:k] {
				if err := s.SendMsg(&types.Packet{Type: types.PACKET_STAT, Stat: st}); err != nil {
					return err
				}
			}
			if err := s.SendMsg(&types.Packet{Type: types.PACKET_FIN}); err != nil {
				return err
			}
			return errInjected
		}}
	res := runSync(so)
	r.Count("unrequested_fin_then_end_of_stream", 1)
	c04Judge(c, r, plan, res, src, nil, dest, true)
	return r
}

func c04Vanish(c *core.Ctx, r *core.Result, plan faultPlan, src *tree.Tree, dest string) *core.Result {
	sd := filepath.Join(c.Dir, "src-vanish")
	if os.Mkdir(sd, 0755) != nil || tree.Materialise(sd, src) != nil {
		r.Inconclusive = "materialise source"
		return r
	}
	base, err := fsutil.NewFS(sd)
	if err != nil {
		r.Inconclusive = "NewFS: " + err.Error()
		return r
	}
	vf := &vanishFS{FS: base, root: sd, k: plan.K}
	var srcFS fsutil.FS = vf
	if plan.Mode == "filter" {
		if srcFS, err = fsutil.NewFilterFS(vf, &fsutil.FilterOpt{}); err != nil {
			r.Inconclusive = "NewFilterFS: " + err.Error()
			return r
		}
	}
	res := runSync(syncOpt{Cfg: wire.Config{Cap: []int{0, 1, 8}[plan.K%3]}, Src: srcFS, Dest: dest, TeardownWhenStuck: true, Timeout: 90 * time.Second})
	// the source view of this run: what is on the disk once the entry is gone
	view, err := tree.Snapshot(sd, tree.SnapOpt{})
	if err != nil {
		r.Inconclusive = "snapshot source: " + err.Error()
		return r
	}
	if vf.removed != "" {
		r.Count("entries_vanished_mid_walk", 1)
		if e := src.Get(vf.removed); e != nil {
			r.AddSet("vanished_entry_types", string(e.Type))
		}
	}
	c04Judge(c, r, plan, res, src, view, dest, vf.removed != "")
	return r
}

// c04Judge applies the oracles (a)-(e) to one fault run. view is the source
// view of the faulted run when it is not src itself.
func c04Judge(c *core.Ctx, r *core.Result, plan faultPlan, res *syncRes, src, view *tree.Tree, dest string, fired bool) {
	if view == nil {
		view = src
	}
	desc := plan.String()
	r.Count("fault_runs", 1)
	if !fired {
		r.Count("fault_not_fired", 1)
	} else {
		r.Count("faults_fired", 1)
		r.Nontrivial = true
	}
	if res.StuckUntilTeardown {
		r.Count("stuck_until_teardown_diagnostic", 1)
		r.AddSet("stuck_until_teardown_classes", plan.Class)
	}
	det := func() map[string]any {
		var tail []string
		lg := res.Pair.Log()
		if len(lg) > 30 {
			lg = lg[len(lg)-30:]
		}
		for _, e := range lg {
			tail = append(tail, e.String())
		}
		return map[string]any{"plan": plan, "send_err": fmt.Sprint(res.SendErr), "recv_err": fmt.Sprint(res.RecvErr), "log_tail": tail, "stuck_until_teardown": res.StuckUntilTeardown}
	}
	// (a) termination after teardown
	if res.Deadlock {
		frames := core.FsutilFrames(res.Dump)
		if len(frames) > 10 {
			frames = frames[:10]
		}
		d := det()
		d["fsutil_goroutines"] = frames
		r.ViolateD("no-return-after-teardown", d, "%s: after the stream was torn down the process is quiescent but a call has not returned (send returned=%v, receive returned=%v at that point)", desc, res.SendDoneAtDeadlock, res.RecvDoneAtDeadlock)
		return
	}
	if res.TimedOut {
		r.Inconclusive = "wall-clock watchdog (" + desc + ")"
		return
	}
	// (b) leaks: the transport is gone once both calls returned
	res.Pair.Teardown()
	defer res.Pair.Release()
	if leak, dump, inconclusive := leakCheck(); leak {
		d := det()
		d["leaked"] = dump
		r.ViolateD("goroutine-leak", d, "%s: both calls returned but %d goroutine(s) started by them are still parked", desc, len(dump))
	} else if inconclusive {
		r.Count("leakcheck_inconclusive", 1)
	}
	// (b') once a call has returned the stream belongs to the caller again:
	// no goroutine the call started may still begin an operation on it
	// (checked after the leak check has seen those goroutines end)
	// Send waits for everything it started (nothing of it may even be in
	// flight when it returns)
	if n, late := res.Pair.S.InFlightAtReturn(), res.Pair.S.LateOps(); res.SendDone && (n > 0 || len(late) > 0) {
		d := det()
		d["late_operations"] = late
		r.ViolateD("sender-stream-in-use-after-return", d, "%s: when Send returned %d stream operation(s) of its goroutines were still in flight on its endpoint and %d more were started afterwards", desc, n, len(late))
	}
	for _, e := range []*wire.End{res.Pair.R} {
		if late := e.LateOps(); len(late) > 0 {
			d := det()
			d["late_operations"] = late
			r.ViolateD("stream-used-after-return", d, "%s: %d stream operation(s) were started on endpoint %s after its call had returned (first: %s)", desc, len(late), e.Name, strings.SplitN(late[0], "\n", 2)[0])
		}
	}
	// (d) Send == nil => receiver's FIN was delivered to the sender
	if res.SendErr == nil {
		r.Count("send_returned_nil", 1)
		finRecv := false
		for _, e := range res.Pair.Log() {
			if e.End == "S" && e.Op == "recv" && e.Err == "" && e.Type == int32(types.PACKET_FIN) {
				finRecv = true
			}
		}
		if !finRecv {
			r.ViolateD("send-false-success", det(), "%s: Send returned nil although it never received the receiver's FIN", desc)
		}
	}
	// (c) Receive == nil => dest equals the source view
	old := &tree.Tree{} // identity retention needs the prior snapshot; compare strictly on bytes/structure instead
	_ = old
	got, err := tree.Snapshot(dest, tree.SnapOpt{})
	if err != nil {
		r.Violate("dest-unreadable", "%s: %v", desc, err)
		return
	}
	if res.RecvErr == nil {
		r.Count("receive_returned_nil", 1)
		created := map[string]bool{}
		exp := view.Clone()
		m := syncMask(created)
		m.Xattrs = false // prior entries with equal identity legitimately keep theirs
		if diffs := tree.Diff(exp, got, m); len(diffs) > 0 {
			r.ViolateD("receive-false-success", det(), "%s: Receive returned nil but dest differs from the source view:\n%s", desc, strings.Join(trunc(diffs, 8), "\n"))
		}
	}
	// (e) a fault-free transfer into the leftovers converges
	c04FollowUp(r, desc, src, dest, got)
}

// c04DiskSrc materialises the source next to dest (once per case) so that the
// follow-up transfer (and the fault classes that do not need a synthetic
// source) run from the real directory FS, stat construction included.
func c04DiskSrc(dest string, src *tree.Tree) fsutil.FS {
	d := filepath.Join(filepath.Dir(dest), "src-disk")
	if _, err := os.Stat(d); err != nil {
		if os.Mkdir(d, 0755) != nil || tree.Materialise(d, src) != nil {
			return newSynthFS(src)
		}
	}
	fs, err := fsutil.NewFS(d)
	if err != nil {
		return newSynthFS(src)
	}
	return fs
}

func c04FollowUp(r *core.Result, desc string, src *tree.Tree, dest string, leftovers *tree.Tree) {
	res2 := runSync(syncOpt{Src: c04DiskSrc(dest, src), Dest: dest, Cfg: wire.Config{Cap: 8}})
	if checkHang(r, res2, desc+" (follow-up clean transfer)") {
		return
	}
	if res2.SendErr != nil || res2.RecvErr != nil {
		r.ViolateD("followup-failed", map[string]any{"leftovers": leftovers.Lines()}, "%s: a fault-free transfer into the leftovers failed: send=%v recv=%v", desc, res2.SendErr, res2.RecvErr)
		return
	}
	got2, err := tree.Snapshot(dest, tree.SnapOpt{})
	if err != nil {
		r.Violate("dest-unreadable", "%v", err)
		return
	}
	exp, created := expectSync(src, leftovers, got2)
	// a file left behind by the aborted run with the right size and mtime but
	// incomplete bytes would be kept by the metadata differ: it must not exist
	if diffs := tree.Diff(exp, got2, syncMask(created)); len(diffs) > 0 {
		r.ViolateD("followup-diverged", map[string]any{"leftovers": leftovers.Lines()}, "%s: a fault-free transfer into the leftovers does not converge:\n%s", desc, strings.Join(trunc(diffs, 8), "\n"))
	}
	// bytes must equal the source regardless of identity retention
	si := src.Index()
	for _, e := range got2.Entries {
		if e.Type != tree.File {
			continue
		}
		if j, ok := si[e.Path]; ok {
			want := src.Entries[j].Data
			if src.Entries[j].LinkTo != "" {
				want = src.Get(src.Entries[j].LinkTo).Data
			}
			if string(want) != string(e.Data) {
				r.ViolateD("followup-stale-bytes", map[string]any{"leftovers": leftovers.Lines()}, "%s: after the follow-up transfer %q still holds bytes of the aborted run (%d bytes, source has %d)", desc, e.Path, len(e.Data), len(want))
			}
		}
	}
	r.Count("followup_transfers_checked", 1)
}

// leakCheck waits until no goroutine with an fsutil frame is left; if such
// goroutines stay parked while the process is quiescent they are leaked.
func leakCheck() (leak bool, dump []string, inconclusive bool) {
	for i := 0; i < 200; i++ {
		var alive []core.GInfo
		for _, g := range core.Goroutines() {
			if strings.Contains(g.Stack, "github.com/tonistiigi/fsutil.") || strings.Contains(g.Stack, "github.com/tonistiigi/fsutil/") {
				if strings.Contains(g.Stack, "core.Goroutines") {
					continue
				}
				alive = append(alive, g)
			}
		}
		if len(alive) == 0 {
			return false, nil, false
		}
		if i >= 3 {
			if ok, _ := core.Quiescent(3, 30*time.Millisecond, nil); ok {
				for _, g := range alive {
					dump = append(dump, g.Stack)
				}
				return true, dump, false
			}
		}
		time.Sleep(15 * time.Millisecond)
	}
	return false, nil, true
}

// ---------------------------------------------------------------------------
// SIGKILL of the receiving process after k packets (real pipes)

// finSpy notes whether the wrapped stream delivered a FIN packet.
type finSpy struct {
	fsutil.Stream
	fin atomic.Bool
}

func (f *finSpy) RecvMsg(m interface{}) error {
	err := f.Stream.RecvMsg(m)
	if p, ok := m.(*types.Packet); ok && err == nil && p.Type == types.PACKET_FIN {
		f.fin.Store(true)
	}
	return err
}

type countingWriter struct {
	w    io.Writer
	n    int
	k    int
	kill func()
	mu   sync.Mutex
	hit  bool
}

func (cw *countingWriter) Write(b []byte) (int, error) {
	cw.mu.Lock()
	n := cw.n
	cw.n++
	if n == cw.k {
		cw.hit = true
		cw.mu.Unlock()
		cw.kill()
		time.Sleep(5 * time.Millisecond)
	} else {
		cw.mu.Unlock()
	}
	return cw.w.Write(b)
}

func c04Sigkill(c *core.Ctx, r *core.Result, plan faultPlan, src *tree.Tree, dest string) *core.Result {
	desc := plan.String()
	exe, err := os.Executable()
	if err != nil {
		r.Inconclusive = err.Error()
		return r
	}
	rp, err := startRecvProc(exe, recvProcOpt{Dest: dest, Notify: true})
	if err != nil {
		r.Inconclusive = "start receiver: " + err.Error()
		return r
	}
	cw := &countingWriter{w: rp.in, k: plan.K, kill: rp.Kill}
	ctx, cancel := context.WithCancel(context.Background())
	defer cancel()
	s := &finSpy{Stream: util.NewProtoStream(ctx, rp.out, cw)}
	done := make(chan error, 1)
	go func() { done <- fsutil.Send(ctx, s, newSynthFS(src), nil) }()
	var sendErr error
	select {
	case sendErr = <-done:
	case <-time.After(60 * time.Second):
		// a transport would report the broken connection; closing our ends is the teardown
		rp.in.Close()
		rp.out.Close()
		cancel()
		select {
		case sendErr = <-done:
			r.Count("stuck_until_teardown_diagnostic", 1)
		case <-time.After(20 * time.Second):
			r.Inconclusive = "sender did not return after the receiver was killed and the pipes were closed (wall clock; goroutines blocked in pipe I/O cannot be judged structurally)"
			rp.Wait(time.Second)
			return r
		}
	}
	rp.in.Close()
	res, crashed, _, _ := rp.Wait(20 * time.Second)
	rp.out.Close()
	r.Count("fault_runs", 1)
	cw.mu.Lock()
	fired := cw.hit
	cw.mu.Unlock()
	if fired {
		r.Count("faults_fired", 1)
		r.Count("receivers_killed", 1)
		r.Nontrivial = true
		// the kill may come after the receiver has sent its FIN (small trees:
		// the k-th packet is the sender's FIN echo): success is then earned
		if sendErr == nil && s.fin.Load() {
			r.Count("receiver_killed_after_its_fin_send_nil_is_legitimate", 1)
		}
		if sendErr == nil && !s.fin.Load() {
			r.Violate("send-false-success", "%s: the receiving process was killed after %d packets, the sender never received FIN, but Send returned nil", desc, plan.K)
		}
	} else {
		r.Count("fault_not_fired", 1)
		if !crashed && res.OK && sendErr != nil {
			r.Violate("send-failed", "%s: unfaulted transfer over pipes failed: %v", desc, sendErr)
		}
	}
	if leak, dump, _ := leakCheck(); leak {
		r.ViolateD("goroutine-leak", dump, "%s: Send returned but goroutines started by it are still parked", desc)
	}
	left, err := tree.Snapshot(dest, tree.SnapOpt{})
	if err != nil {
		r.Violate("dest-unreadable", "%v", err)
		return r
	}
	if !fired && res.OK {
		m := syncMask(map[string]bool{})
		m.Xattrs = false
		if diffs := tree.Diff(src, left, m); len(diffs) > 0 {
			r.Violate("receive-false-success", "%s: receiver process reported success but dest differs:\n%s", desc, strings.Join(trunc(diffs, 6), "\n"))
		}
	}
	c04FollowUp(r, desc, src, dest, left)
	return r
}

// ---------------------------------------------------------------------------
// large fan-out: >132 requests pending when the fault hits

// c04Backlog: a receiver-side fault (callback error, cancellation, teardown)
// hits while the receiver is fully back-pressured: its first user callback is
// slow, so the diff stops consuming and the announced entries pile up in
// every internal queue until the receive loop itself blocks.
func c04Backlog(c *core.Ctx, r *core.Result, plan faultPlan) *core.Result {
	R := c.R
	src := &tree.Tree{}
	n := R.Range(600, 900)
	for i := 0; i < n; i++ {
		if i%3 == 0 {
			src.Entries = append(src.Entries, tree.Entry{Path: fmt.Sprintf("e%05d", i), Type: tree.Dir, Perm: 0755, Mtime: 1e18})
		} else {
			src.Entries = append(src.Entries, tree.Entry{Path: fmt.Sprintf("e%05d", i), Type: tree.File, Perm: 0644, Mtime: 1e18, Data: R.Bytes(R.Intn(50))})
		}
	}
	src.Sort()
	dest := filepath.Join(c.Dir, "dest")
	os.Mkdir(dest, 0755)
	var pair *wire.Pair
	fired := atomic.Bool{}
	var once sync.Once
	// the slow callback: wait (wall clock shapes the workload only) until the
	// stream shows no progress any more, then inject the fault
	stall := func() {
		last, same := int64(-1), 0
		for i := 0; i < 400 && same < 8; i++ {
			time.Sleep(10 * time.Millisecond)
			if q := pair.Seq(); q == last {
				same++
			} else {
				last, same = q, 0
			}
		}
	}
	nrec := newNotifyRec()
	hs := newHasher()
	var inject func() error
	switch plan.Mode {
	case "notify-backlog", "hasher-backlog":
		inject = func() error { return errInjected }
	case "cancelR-backlog":
		inject = func() error { pair.R.Cancel(); return nil }
	case "teardown-backlog":
		inject = func() error { pair.Teardown(); return nil }
	}
	var cbErr error
	hook := func() {
		once.Do(func() {
			stall()
			fired.Store(true)
			cbErr = inject()
		})
	}
	if plan.Mode == "hasher-backlog" {
		hs.Hook = hook
		hs.ErrAt = 0
	} else {
		nrec.Hook = hook
		if plan.Mode == "notify-backlog" {
			nrec.ErrAt = 0
		}
	}
	_ = cbErr
	cfg := wire.Config{Cap: []int{0, 8, 64}[plan.Tree%3], TeardownKeepsContexts: plan.KeepCtx, StreamIgnoresContexts: plan.KeepCtx}
	res := runSync(syncOpt{Cfg: cfg, Src: newSynthFS(src), Dest: dest, TeardownWhenStuck: true, Timeout: 90 * time.Second,
		OnPair: func(p *wire.Pair) { pair = p },
		Recv:   fsutil.ReceiveOpt{NotifyHashed: nrec.fn, ContentHasher: hs.fn}})
	// how far was the receiver back-pressured?
	nstat := 0
	for _, e := range res.Pair.Log() {
		if e.End == "R" && e.Op == "recv" && e.Type == int32(types.PACKET_STAT) && e.Err == "" {
			nstat++
		}
	}
	r.AddSet("backlog_stats_received_when_fault_hit", fmt.Sprintf("%s:%d", plan.Mode, nstat))
	if nstat >= 259 && fired.Load() {
		r.Count("backlog_runs_with_full_receiver_queues", 1)
	}
	c04Judge(c, r, plan, res, src, nil, dest, fired.Load())
	return r
}

func c04Fanout(c *core.Ctx, r *core.Result, plan faultPlan) *core.Result {
	if strings.HasSuffix(plan.Mode, "-backlog") {
		return c04Backlog(c, r, plan)
	}
	R := c.R
	src := fanoutTree(R, R.Range(200, 320))
	tail := plan.Mode == "cancelR-tail"
	if tail {
		src = &tree.Tree{}
		for i, n := range []int{R.Range(1, 5), core.Pick(R, []int{40000, 100000, 320000}), R.Range(0, 70000)}[:R.Range(1, 3)] {
			src.Put(tree.Entry{Path: fmt.Sprintf("f%d", i), Type: tree.File, Perm: 0644, Mtime: 1600000000_000000000 + int64(i), Data: R.Bytes(n)})
		}
		src.Sort()
	}
	dest := filepath.Join(c.Dir, "dest")
	os.Mkdir(dest, 0755)
	var pair *wire.Pair
	var reqs atomic.Int64
	gateOpen := make(chan struct{})
	var once sync.Once
	open := func() { once.Do(func() { close(gateOpen) }) }
	fired := atomic.Bool{}
	cfg := wire.Config{Cap: []int{0, 2, 64}[plan.Tree%3], TeardownKeepsContexts: plan.KeepCtx, StreamIgnoresContexts: plan.KeepCtx}
	// the sender can hold 128 queued + 4 in its workers; the fault hits when
	// the receiver has issued more requests than that
	threshold := int64(133 + R.Intn(cfg.Cap+1))
	if tail {
		threshold = int64(len(src.Entries))
	}
	keepBlocked := plan.J == 1
	brokenR := atomic.Bool{}
	brokenS := atomic.Bool{}
	action := func() {
		fired.Store(true)
		switch plan.Mode {
		case "cancelR":
			pair.R.Cancel()
		case "cancelR-tail":
			// (reach, not verdict: give the listing's end and the writers
			// time to get where they wait)
			time.Sleep(time.Duration(20+30*plan.J) * time.Millisecond)
			pair.R.Cancel()
		case "cancelS":
			pair.S.Cancel()
		case "rsend-sticky":
			brokenR.Store(true)
			pair.R.Cancel()
		case "srecv-sticky", "ssend-sticky":
			brokenS.Store(true)
			pair.S.Cancel()
		case "rrecv-eof":
			pair.S.CloseSend()
		}
		if keepBlocked {
			// slow source: the reads stay blocked a little longer than the fault
			time.Sleep(20 * time.Millisecond)
		}
		open()
	}
	// source reads block (a slow disk) so that the four workers stall without
	// holding the stream: STATs keep flowing and requests pile up
	sfs := newSynthFS(src)
	sfs.Hook = func(op, p string) {
		if op == "read" {
			<-gateOpen
		}
	}
	cfg.Gate = func(end string, p *types.Packet) {
		if end == "R" && p.Type == types.PACKET_REQ {
			if reqs.Add(1) == threshold {
				go action()
			}
		}
	}
	cfg.Fault = func(end, op string, idx int64) error {
		if end == "R" && brokenR.Load() {
			return errInjected
		}
		if end == "S" && brokenS.Load() {
			return errInjected
		}
		return nil
	}
	res := runSync(syncOpt{Cfg: cfg, Src: sfs, Dest: dest, TeardownWhenStuck: true, Timeout: 90 * time.Second,
		OnPair: func(p *wire.Pair) { pair = p }})
	open()
	r.AddSet("fanout_requests_issued_before_end", fmt.Sprintf("%s:%d/%d cap%d", plan.Mode, reqs.Load(), threshold, cfg.Cap))
	if reqs.Load() > 132 && fired.Load() {
		r.Count("fanout_runs_with_more_than_132_pending", 1)
	}
	if c.Replay && res.StuckUntilTeardown && !fired.Load() {
		fmt.Fprintln(os.Stderr, "STUCK-NOT-FIRED")
		for _, g := range strings.Split(res.StuckDump, "\n\n") {
			ls := strings.Split(g, "\n")
			fmt.Fprintln(os.Stderr, ls[0])
			for i := 1; i < len(ls) && i < 12; i += 2 {
				fmt.Fprintln(os.Stderr, "   ", ls[i])
			}
		}
	}
	c04Judge(c, r, plan, res, src, nil, dest, fired.Load())
	return r
}

func downCh(p *wire.Pair) <-chan struct{} { return p.Down() }

var _ = errors.New
