package main

import (
	"context"
	"fmt"
	"golang.org/x/sys/unix"
	"os"
	"path/filepath"
	"sort"
	"strings"

	"github.com/tonistiigi/fsutil"
	"github.com/tonistiigi/fsutil/types"
	"verif/internal/core"
	"verif/internal/tree"
	"verif/internal/wire"
)

// C07: the receiver speaks the documented protocol to any conforming sender.

func init() {
	core.Register(&core.Prop{
		ID:    "C07",
		Level: "exploration",
		Rule: "Plus (1 session of 6) an old destination that holds two names of one inode where the source has two separate files with equal size, time stamp, mode and owner. an independent reference sender announces synthetic STAT sequences (all entry types, link groups, empty and multi-chunk files) to the real Receive over prior destinations {empty, mutated copy, unrelated}, with DATA chunkings {1B, 7B, 4KiB, 32KiB-1, 32KiB, 32KiB+1, 1MiB, mixed}, id interleavings {sequential, round-robin, random, reverse}, DATA racing the remaining STATs or not, stream capacity {0,1,8,64}; every REQ is checked online (announced, regular, non-link, once), the REQ set is compared with the identity model, dest bytes are read at the instant FIN arrives, the final dest is compared with the model; a fraction of sessions closes the stream before FIN and demands an error; a fifth of the sessions run the receiver as an ordinary user, a quarter with a Filter that rejects entries, 1 in 20 announces 350-900 files before the first answer (thorough tier: a few sessions with more than 65536 entries). " +
			"non-trivial = session with at least one requested multi-chunk file or >=3 interleaved ids; distinct by (tree, prior, chunking, interleaving, race, capacity) fingerprint",
		Assumptions: []string{"root", "the reference sender is conforming by construction (STATs ascending, ids = STAT positions, one terminator per id, FIN echoed)"},
		Cases: func(tier string) int {
			if tier == "thorough" {
				return 60000
			}
			return 1000
		},
		Batch:         25,
		CaseTimeout:   400 * 1e9,
		MinNontrivial: func(tier string) int { return 100 },
		Run:           c07Run,
	})
}

func c07Run(c *core.Ctx) *core.Result {
	r := &core.Result{}
	if !needRoot(r) {
		return r
	}
	R := c.R
	o := tree.DefaultOpt()
	o.SpecLinks = true
	o.Big = R.P(1, 5)
	eo := editOpt{Owners: o.Owners, Types: "fdlpcb", Xattrs: true}
	// a fifth of the sessions run the receiver as an ordinary user (effective
	// uid/gid of the process switched for the session): trees it can own
	unpriv := R.P(1, 5)
	if unpriv {
		o.Owners = []uint32{1234}
		o.Types = "fdlp"
		o.SpecLinks = false
		o.SecXattrs = false
		eo = editOpt{Owners: []uint32{1234}, Types: "fdlp", Xattrs: true}
	}
	src := tree.Gen(R, o)
	fanout := !unpriv && R.P(1, 20)
	huge := false
	if fanout {
		// scale: several hundred files to request (more than the writer and
		// the queues between the receive loop and the writer hold together),
		// with the whole listing announced before the first answer
		src = fanoutTree(R, R.Range(350, 900))
		r.Count("fanout_sessions", 1)
		if c.Thorough() && R.P(1, 200) {
			// more entries than 16 bits can number (tiny files; thorough
			// tier only: such a session takes a minute or two)
			n := 65600 + R.Intn(1500)
			src = &tree.Tree{}
			src.Entries = append(src.Entries, tree.Entry{Path: "d", Type: tree.Dir, Perm: 0755, Mtime: 1e18})
			for i := 0; i < n; i++ {
				p := fmt.Sprintf("f%06d", i)
				if i%2 == 0 {
					p = "d/" + p
				}
				src.Entries = append(src.Entries, tree.Entry{Path: p, Type: tree.File, Perm: 0644, Mtime: 1e18 + int64(i), Data: []byte(fmt.Sprintf("%x", i))[:1+i%3]})
			}
			src.Sort()
			huge = true
			r.Count("sessions_with_more_than_65536_entries", 1)
		}
	}
	if unpriv {
		for i := range src.Entries {
			if e := &src.Entries[i]; e.Type == tree.Dir {
				e.Perm |= 0700
			}
		}
		if R.P(1, 2) && src.Get("0ro") == nil {
			// a read-only file with content and further names: its writer has
			// to make it writable while the links stamp the mode on the inode
			ro := tree.Entry{Path: "0ro", Type: tree.File, Perm: core.Pick(R, []uint32{0400, 0444, 04555}), UID: 1234, GID: 1234, Mtime: 1e18,
				Data: R.Bytes(core.Pick(R, []int{1, 4096, 40000}))}
			src.Put(ro)
			for i, n := 0, R.Range(0, 5); i < n; i++ {
				m := ro.Clone()
				m.Path = fmt.Sprintf("0ro.l%d", i)
				m.LinkTo = ro.Path
				if src.Get(m.Path) == nil {
					src.Put(m)
				}
			}
			src.Sort()
			src.Recanon()
		}
	}
	var prior *tree.Tree
	pk := core.Pick(R, []string{"empty", "mutated", "mutated", "unrelated"})
	switch pk {
	case "empty":
		prior = &tree.Tree{}
	case "mutated":
		prior = src.Clone()
		mutate(R, prior, R.Range(1, 5), eo)
	case "unrelated":
		prior = tree.Gen(R, o)
	}
	// the old destination holds two names of one inode where the source has
	// two separate files that look alike in everything a stat shows (size,
	// time stamp, mode, owner): the later name needs its own content
	if lr := core.NewRand(core.Mix(c.Seed, "C07-linked-lookalikes", c.Index)); !unpriv && lr.P(1, 6) {
		var fs []int
		for i := range src.Entries {
			if e := &src.Entries[i]; e.Type == tree.File && e.LinkTo == "" && src.GroupOf(e.Path) == "" && len(e.Data) > 0 && len(e.Xattrs) == 0 {
				fs = append(fs, i)
			}
		}
		if len(fs) >= 2 {
			k := lr.Intn(len(fs) - 1)
			a, b := &src.Entries[fs[k]], &src.Entries[fs[k+1]]
			if tree.CmpPath(a.Path, b.Path) < 0 && prior.Get(a.Path) != nil && prior.Get(a.Path).Type == tree.File && prior.GroupOf(a.Path) == "" {
				nd := lr.Bytes(len(a.Data))
				if string(nd) != string(a.Data) {
					b.Data, b.Mtime, b.Perm, b.UID, b.GID = nd, a.Mtime, a.Perm, a.UID, a.GID
					pa := a.Clone()
					prior.Remove(a.Path)
					prior.Remove(b.Path)
					pb := pa.Clone()
					pb.Path, pb.LinkTo = b.Path, a.Path
					// the parents of both names have to be there
					ok := true
					for _, q := range []string{tree.Parent(a.Path), tree.Parent(b.Path)} {
						if q != "" && (prior.Get(q) == nil || prior.Get(q).Type != tree.Dir) {
							ok = false
						}
					}
					if ok {
						prior.Entries = append(prior.Entries, pa, pb)
						prior.Sort()
						fixGroups(prior)
						pk += "+linked-lookalikes"
						r.Count("sessions_with_linked_lookalikes_in_the_old_destination", 1)
					}
				}
			}
		}
	}
	if unpriv && src.Get("0ro") != nil && R.P(1, 2) {
		// the read-only group exists already, out of date: its first name is
		// re-created and filled while the other names are replaced one by one
		prior = src.Clone()
		applyGroup(prior, "0ro", func(x *tree.Entry) { x.Mtime += 9; x.Data = []byte("old") })
		fixGroups(prior)
		pk = "stale-readonly-group"
	}
	// a populated directory of the old destination that the source replaces
	// by a symlink which cannot be walked through (a loop, a directory the
	// receiver may not enter) or which leads out of the destination: more
	// entries than the destination walker can be ahead of the writer, so the
	// walker still visits names of the directory when it is gone
	if R2 := core.NewRand(core.Mix(c.Seed, "C07-replaced-dir", c.Index)); !fanout && src.Get("zr") == nil && R2.P(1, 25) {
		own := uint32(0)
		if unpriv {
			own = 1234
		}
		tg := core.Pick(R2, []string{"zr", "zr", "../dest/zr/x", "/", "/root"})
		src.Put(tree.Entry{Path: "zr", Type: tree.Symlink, Perm: 0777, UID: own, GID: own, Mtime: 1e18 + 5, Target: tg})
		prior.Remove("zr")
		prior.Put(tree.Entry{Path: "zr", Type: tree.Dir, Perm: 0755, UID: own, GID: own, Mtime: 1e18})
		for i, n := 0, R2.Range(140, 400); i < n; i++ {
			e := tree.Entry{Path: fmt.Sprintf("zr/c%04d", i), Type: tree.Dir, Perm: 0755, UID: own, GID: own, Mtime: 1e18}
			if R2.P(1, 2) {
				e.Type, e.Perm, e.Data = tree.File, 0644, []byte("old")
			}
			prior.Entries = append(prior.Entries, e)
		}
		prior.Sort()
		pk += "+replaced-dir->" + tg
		r.Count("sessions_replacing_a_populated_directory_by_a_symlink", 1)
	}
	if unpriv {
		for i := range prior.Entries {
			if e := &prior.Entries[i]; e.Type == tree.Dir {
				e.Perm |= 0700
			}
		}
	}
	dest := filepath.Join(c.Dir, "dest")
	os.Mkdir(dest, 0755)
	if unpriv {
		os.Chmod(c.Dir, 0755)
		os.Lchown(dest, 1234, 1234)
	}
	if err := tree.Materialise(dest, prior); err != nil {
		r.Inconclusive = "materialise: " + err.Error()
		return r
	}
	// a hard link that the destination file system refuses: the first name
	// lies on another file system (a mount point inside the destination).
	// Whether the receive fails is not judged; a request for the link's id is
	// (the receiver never requests links)
	crossMount := false
	if mr := core.NewRand(core.Mix(c.Seed, "C07-cross-mount-link", c.Index)); !unpriv && !fanout && src.Get("zm") == nil && src.Get("zz-link") == nil && mr.P(1, 30) {
		md := filepath.Join(dest, "zm")
		os.RemoveAll(md)
		if os.Mkdir(md, 0755) == nil && unix.Mount("tmpfs", md, "tmpfs", 0, "size=1m") == nil {
			defer unix.Unmount(md, unix.MNT_DETACH)
			fe := tree.Entry{Path: "zm/a", Type: tree.File, Perm: 0644, Mtime: 1e18 + 11, Data: []byte("first name on another file system")}
			src.Put(tree.Entry{Path: "zm", Type: tree.Dir, Perm: 0755, Mtime: 1e18 + 10})
			src.Put(fe)
			le := fe.Clone()
			le.Path, le.LinkTo = "zz-link", "zm/a"
			src.Put(le)
			src.Sort()
			// the first name is there already and equal: it is not rewritten
			os.WriteFile(filepath.Join(md, "a"), fe.Data, 0644)
			tree.ApplyMeta(filepath.Join(md, "a"), &fe)
			os.Chmod(md, 0755)
			crossMount = true
			r.Count("sessions_with_a_link_across_file_systems", 1)
		}
	}
	old, err := tree.Snapshot(dest, tree.SnapOpt{})
	if err != nil {
		r.Inconclusive = err.Error()
		return r
	}
	rs := newRefSender(src, R.Fork())
	rs.Chunk = core.Pick(R, []string{"1", "7", "4k", "32k-1", "32k", "32k+1", "1m", "mixed", "mixed"})
	if fanout && (rs.Chunk == "1" || rs.Chunk == "7") {
		rs.Chunk = "mixed" // (byte-sized chunks of hundreds of files are not affordable)
	}
	if rs.Chunk == "1" || rs.Chunk == "7" {
		// keep 1-byte chunkings affordable
		for i := range src.Entries {
			if len(src.Entries[i].Data) > 3000 {
				src.Entries[i].Data = src.Entries[i].Data[:3000]
			}
		}
		src.Recanon()
		for i := range src.Entries {
			e := &src.Entries[i]
			if e.LinkTo != "" {
				if cn := src.Get(e.LinkTo); cn != nil {
					e.Data = cn.Data
				}
			}
		}
		rs = newRefSender(src, R.Fork())
		rs.Chunk = core.Pick(R, []string{"1", "7"})
	}
	if R.P(1, 8) {
		// new files whose announced size is not the number of bytes that
		// follow: what is stored is what was sent
		off := map[string]int64{}
		for _, e := range src.Entries {
			if e.Type == tree.File && e.LinkTo == "" && src.GroupOf(e.Path) == "" && len(e.Data) > 0 && old.Get(e.Path) == nil && R.P(1, 2) {
				off[e.Path] = int64(core.Pick(R, []int{1, 5, 4096, 40000, -1, -len(e.Data)}))
			}
		}
		if len(off) > 0 {
			rs.announceOtherSizes(off)
			r.Count("sessions_with_announced_size_differing_from_content", 1)
		}
	}
	rs.Inter = core.Pick(R, []string{"sequential", "roundrobin", "random", "reverse"})
	rs.Race = R.P(1, 2) && !fanout
	if huge {
		// one file at a time: interleaving tens of thousands of ids would
		// keep that many destination files open at once (the descriptor
		// limit of the process, not the receiver, would decide the outcome)
		rs.Inter = "sequential"
	}
	rs.Dest = dest
	rs.CloseEarly = R.P(1, 12)
	capn := core.Pick(R, []int{0, 1, 8, 64})
	desc := fmt.Sprintf("prior=%s chunk=%s inter=%s race=%v cap=%d closeEarly=%v", pk, rs.Chunk, rs.Inter, rs.Race, capn, rs.CloseEarly)
	r.Sample = map[string]any{"config": desc, "source": trunc(src.Lines(), 30), "prior": trunc(prior.Lines(), 20)}
	r.FP = src.Fingerprint() + prior.Fingerprint() + desc
	cfg := wire.Config{Cap: capn}
	if R.P(1, 3) {
		gr := R.Fork()
		cfg.Generic = func() bool { return gr.P(1, 2) }
	}
	if R.P(1, 3) {
		gr := R.Fork()
		cfg.Hook = func(end, op string, idx int64, phase int) { jitter(gr, 20) }
	}
	nrec := newNotifyRec()
	ropt := fsutil.ReceiveOpt{}
	// a receiver-side Filter that rejects some entries: the writer ignores
	// them (not written, not requested, a stale entry of that name not
	// deleted) while every announced STAT still counts for the ids
	eff := src
	if R.P(1, 4) {
		var set map[string]bool
		set, eff = c07RejectSet(R, src, old)
		if len(set) > 0 {
			ropt.Filter = func(p string, st *types.Stat) bool { return !set[filepath.ToSlash(p)] }
			r.Count("sessions_with_rejecting_filter", 1)
			r.Count("entries_rejected_by_filter", int64(len(set)))
			desc += fmt.Sprintf(" rejected=%q", sortedKeys(set))
		}
	}
	if R.P(1, 2) {
		ropt.NotifyHashed = nrec.fn
		ropt.ContentHasher = newHasher().fn
	}
	so := syncOpt{Cfg: cfg, Dest: dest, Recv: ropt,
		SendFn: func(ctx context.Context, s fsutil.Stream) error { return rs.run(ctx, s) }}
	var res *syncRes
	if unpriv {
		desc += " unprivileged-receiver"
		r.Count("sessions_with_unprivileged_receiver", 1)
		if err := asUser(1234, 1234, func() { res = runSync(so) }); err != nil {
			r.Inconclusive = "cannot switch uid: " + err.Error()
			return r
		}
	} else {
		res = runSync(so)
	}
	if checkHang(r, res, desc) {
		return r
	}
	r.Count("sessions", 1)
	r.AddSet("configs", fmt.Sprintf("%s/%s/%v", rs.Chunk, rs.Inter, rs.Race))
	rs.mu.Lock()
	defer rs.mu.Unlock()
	det := func() map[string]any {
		var tail []string
		lg := res.Pair.Log()
		if len(lg) > 40 {
			lg = lg[len(lg)-40:]
		}
		for _, e := range lg {
			tail = append(tail, e.String())
		}
		return map[string]any{"config": desc, "log_tail": tail, "source": src.Lines(), "prior": old.Lines()}
	}
	for _, v := range rs.viol {
		r.ViolateD("protocol", det(), "%s: %s", desc, v)
	}
	r.Count("requests_checked", int64(len(rs.reqs)))
	if rs.CloseEarly {
		r.Count("early_close_sessions", 1)
		// closing before FIN: end of stream before completion must be an error,
		// unless nothing at all had to be done... the receiver still has to send FIN first
		if res.RecvErr == nil && !rs.fin {
			r.ViolateD("eof-as-success", det(), "%s: the stream ended before the receiver sent FIN but Receive returned nil", desc)
		}
		r.Nontrivial = true
		return r
	}
	if crossMount && (res.SendErr != nil || res.RecvErr != nil) {
		// link(2) across file systems cannot succeed: the failure is not the
		// receiver's; what it requested before has been judged above
		r.Count("cross_mount_link_sessions_failed_not_judged", 1)
		r.Nontrivial = true
		return r
	}
	if res.SendErr != nil || res.RecvErr != nil {
		r.ViolateD("receive-failed", det(), "%s: session with a conforming sender failed: send=%v recv=%v", desc, res.SendErr, res.RecvErr)
		return r
	}
	if !rs.fin {
		r.ViolateD("protocol", det(), "%s: Receive returned nil without ever sending FIN", desc)
	}
	// ordering on the receiver-side event log: a REQ only after its STAT was
	// received; FIN only after the end marker and every terminator were received
	{
		nstat := 0
		endRecv := false
		termRecv := map[uint32]bool{}
		reqd := map[uint32]bool{}
		for _, e := range res.Pair.Log() {
			if e.End != "R" {
				continue
			}
			switch {
			case e.Op == "recv" && e.Err == "" && e.Type == int32(types.PACKET_STAT):
				if e.Stat {
					nstat++
				} else {
					endRecv = true
				}
			case e.Op == "recv" && e.Err == "" && e.Type == int32(types.PACKET_DATA) && e.Len == 0:
				termRecv[e.ID] = true
			case e.Op == "sendq" && e.Type == int32(types.PACKET_REQ):
				reqd[e.ID] = true
				if int(e.ID) >= nstat {
					r.ViolateD("req-before-stat", det(), "%s: REQ for id %d issued when only %d STATs had been received", desc, e.ID, nstat)
				}
			case e.Op == "sendq" && e.Type == int32(types.PACKET_FIN):
				if !endRecv {
					r.ViolateD("fin-too-early", det(), "%s: FIN issued before the end-of-stats marker was received", desc)
				}
				for id := range reqd {
					if !termRecv[id] {
						r.ViolateD("fin-too-early", det(), "%s: FIN issued before the terminator of requested id %d was received", desc, id)
					}
				}
			}
		}
	}
	for _, v := range rs.finState {
		r.ViolateD("fin-too-early", det(), "%s: %s", desc, v)
	}
	// REQ set == needed set
	E, either := changedSet(old, eff)
	want := map[string]bool{}
	for _, e := range eff.Entries {
		if e.Type == tree.File && e.LinkTo == "" && E[e.Path] && !either[e.Path] {
			want[e.Path] = true
		}
	}
	got := map[string]bool{}
	big, multi := false, 0
	for _, id := range rs.reqs {
		p := src.Entries[id].Path
		got[p] = true
		if len(rs.dataOf(id)) > 32768 {
			big = true
		}
		multi++
	}
	var miss, extra []string
	for p := range want {
		if !got[p] {
			miss = append(miss, p)
		}
	}
	for p := range got {
		e := eff.Get(p)
		if !want[p] && !(either[p] && e != nil) {
			extra = append(extra, p)
		}
	}
	sort.Strings(miss)
	sort.Strings(extra)
	if len(miss)+len(extra) > 0 {
		r.ViolateD("req-set", det(), "%s: requested set differs from the needed set: missing %q, needless %q", desc, miss, extra)
	}
	// final state
	nw, err := tree.Snapshot(dest, tree.SnapOpt{})
	if err != nil {
		r.Violate("dest-unreadable", "%v", err)
		return r
	}
	exp, created := expectSync(eff, old, nw)
	if diffs := tree.Diff(exp, nw, syncMask(created)); len(diffs) > 0 {
		r.ViolateD("dest-diverged", det(), "%s: dest differs from the announced tree:\n%s", desc, strings.Join(trunc(diffs, 8), "\n"))
	}
	r.Count("entries_compared", int64(len(exp.Entries)))
	r.Nontrivial = big || multi >= 3
	return r
}

// c07RejectSet picks paths a receiver-side Filter rejects and returns them
// with the view the destination must then equal: a rejected path keeps what
// the old destination has there (or stays absent). Only paths are picked
// whose rejection has a defined outcome: non-directories outside every
// hard-link group, in both trees, whose ancestors are directories of the
// source (so no ancestor is deleted or replaced).
func c07RejectSet(R *core.Rand, src, old *tree.Tree) (map[string]bool, *tree.Tree) {
	set := map[string]bool{}
	eff := src.Clone()
	plain := func(t *tree.Tree, p string) (exists, ok bool) {
		e := t.Get(p)
		if e == nil {
			return false, true
		}
		return true, e.Type != tree.Dir && e.LinkTo == "" && t.GroupOf(p) == ""
	}
	dirsOK := func(p string) bool {
		for a := tree.Parent(p); a != ""; a = tree.Parent(a) {
			if e := src.Get(a); e == nil || e.Type != tree.Dir {
				return false
			}
		}
		return true
	}
	var cands []string
	seen := map[string]bool{}
	for _, t := range []*tree.Tree{src, old} {
		for _, e := range t.Entries {
			if seen[e.Path] {
				continue
			}
			seen[e.Path] = true
			inS, okS := plain(src, e.Path)
			inO, okO := plain(old, e.Path)
			if okS && okO && (inS || inO) && dirsOK(e.Path) {
				cands = append(cands, e.Path)
			}
		}
	}
	sort.Strings(cands)
	for _, p := range cands {
		if !R.P(1, 3) {
			continue
		}
		set[p] = true
		eff.Remove(p)
		if oe := old.Get(p); oe != nil {
			eff.Put(oe.Clone())
		}
	}
	eff.Sort()
	return set, eff
}
