// Command vrun runs the runtime monitors for fsutil, one sub-command per
// property (see /verif/DESIGN.md).
package main

import "verif/internal/core"

func main() { core.Main() }
