package main

import (
	"bytes"
	"fmt"
	"hash/fnv"
	"os"
	"path"
	"path/filepath"
	"strings"
	"time"

	cfs "github.com/containerd/continuity/fs"
	"golang.org/x/sys/unix"
	"verif/internal/core"
	"verif/internal/refs"
	"verif/internal/tree"
)

// C14: Copy never writes outside the destination root nor reads outside the
// source root. Every case runs inside a throw-away chroot jail (BatchInit)
// whose root holds sentinel files, directories, a fifo and a device node next
// to the case directories, so whatever the code under test does stays inside
// the jail and is visible in a before/after snapshot of the jail root.

const c14Marker = "SENTINEL!"

// names shared by the source tree, the destination tree and the sentinel
// trees, so that a re-rooted sentinel path ("/outside/a" read below the
// destination root) frequently exists as well.
var c14Names = []string{"a", "b", "d", "l", "outside", "sib"}

func c14Sentinels(base, label string) error {
	mk := func(rel string, perm os.FileMode) error {
		p := filepath.Join(base, rel)
		if err := os.WriteFile(p, []byte(c14Marker+label+"/"+rel+"!"+strings.Repeat("x", len(rel))), 0600); err != nil {
			return err
		}
		return os.Chmod(p, perm)
	}
	for _, d := range []string{"", "d", "d/d", "sib", "outside"} {
		if err := os.MkdirAll(filepath.Join(base, d), 0755); err != nil {
			return err
		}
	}
	for _, f := range []struct {
		p string
		m os.FileMode
	}{{"a", 0644}, {"b", 0444}, {"d/a", 0600}, {"d/b", 0644}, {"d/d/a", 0644}, {"sib/a", 0644}, {"outside/a", 0644}} {
		if err := mk(f.p, f.m); err != nil {
			return err
		}
	}
	if err := os.Symlink("a", filepath.Join(base, "l")); err != nil {
		return err
	}
	if err := os.Symlink("../a", filepath.Join(base, "d/l")); err != nil {
		return err
	}
	if err := unix.Mknod(filepath.Join(base, "p"), unix.S_IFIFO|0640, 0); err != nil {
		return err
	}
	// a device node: only its metadata is watched (tmpfs may be nodev)
	if err := unix.Mknod(filepath.Join(base, "null"), unix.S_IFCHR|0666, int(unix.Mkdev(1, 3))); err != nil {
		return err
	}
	os.Chmod(filepath.Join(base, "d/d"), 0750)
	os.Lchown(filepath.Join(base, "d/a"), 77, 88)
	return nil
}

func c14BuildJail(dir string) error {
	if err := os.WriteFile(filepath.Join(dir, ".verif-jail"), []byte("jail"), 0644); err != nil {
		return err
	}
	return c14Sentinels(filepath.Join(dir, "outside"), "outside")
}

func init() {
	core.Register(&core.Prop{
		ID:    "C14",
		Level: "exploration",
		Rule: "Plus (1 case of 25) the directed variants deferred-*: directories Copy created for the path or on demand are replaced by an outward symlink by a later wildcard match; a sentinel tree with the same names and old time stamps is compared before and after. each case runs in a chroot jail: /outside (sentinel files with unique marked bytes, dirs, symlinks, fifo, char device) plus /cN/{srcroot,dstroot,sib}. " +
			"Source and destination trees (<=18 entries, depth<=3, names {a,b,d,l,outside,sib} shared with the sentinel trees, ~40% symlinks, hard-linked source files) get symlink targets drawn from: absolute into /outside, /cN/sib, the other root and '/', '../'-chains of exactly and more than the depth needed to leave the root, in-tree, dangling (incl. not-yet-existing names inside sentinel dirs) and loops (self, pairs). " +
			"src and dst arguments are drawn from entry paths, paths continuing through every symlink, sentinel-looking absolute and '../' arguments, nested new names, trailing separators, wildcards (src) and '..'-ending sources; flags are random subsets of {FollowLinks, AllowWildcards, AlwaysReplace, CopyDirContents, Chown, Utime, Mode}. One case in fifteen spells the source 'x/.' for an entry x of any type (three quarters non-directories, with FollowLinks also 'link/.') onto the root or an existing directory, two thirds with always-replace: x behaves exactly like 'x' (lands inside under its own name; violations there are reported as nondir-dot-source). fs.Copy is run once; errors are accepted. " +
			"One case in four additionally runs with IncludePatterns (and a third of those with ExcludePatterns): patterns are derived from the source paths below the copied directory so that they select descendants of a directory but not the directory itself ('<dir>/*', '<dir>/<child>', '<dir>/*/*', '<dir>/**/<leaf>', '**/<leaf>', '*/<child>', '<dir>/**') plus refs.GenPatterns over the same paths; in two thirds of them whole trees are copied onto each other and in three quarters of those the destination gets a symlink to an existing directory outside the root (/outside/d, /outside, /cN/sib[/d[/d]], '../'-chains to the same) at the name of such a source directory (ancestors made real directories). Under patterns (a), (b), the landing of the (always selected) top-level entry and confinement are checked; replacement of nested destination symlinks is not (an unselected entry need not replace anything). " +
			"Checked: (a) jail snapshot minus the inside of dstroot identical in every field incl. inode and ctime; (b) every regular file in dstroot afterwards is either untouched or has the bytes of a source-root file, and none carries a sentinel marker; (c) a destination symlink facing a source entry is replaced by that entry's type or the call fails, and nothing in dstroot outside the landing subtree and its ancestors changes; (d) on success the landing path equals base-name placement on top of an independent chroot-style resolution of both arguments over the tree models. " +
			"non-trivial = an escaping symlink (absolute or leaving its root through '..') was traversed by an argument, lies in the copied source subtree or lies in the destination landing region; distinct by (trees, arguments, flags) fingerprint",
		Assumptions: []string{
			"runs as root (chroot, mknod, chown) on tmpfs; the trees are not modified concurrently",
			"atime is not part of the outside snapshot (the statement is about created/changed/removed entries and copied bytes)",
			"'..' components inside the arguments themselves are cleaned lexically before resolution (path normalisation, not symlink resolution); destination arguments with an inner '..' are only held to (a) and (b)",
			"landing placement for wildcard sources is not modelled here (C15); they are held to (a), (b) and confinement below the resolved destination",
		},
		Cases: func(tier string) int {
			if tier == "thorough" {
				return 150000
			}
			return 3000
		},
		Batch: 150,
		MinNontrivial: func(tier string) int {
			if tier == "thorough" {
				return 15000
			}
			return 1500
		},
		BatchInit: copyJailInit(c14BuildJail),
		Run:       c14Run,
	})
}

type c14gen struct {
	r      *core.Rand
	side   string // "src" | "dst"
	cn     string // case directory name (cN)
	t      *tree.Tree
	budget int
}

func (g *c14gen) meta(e *tree.Entry) {
	r := g.r
	e.UID = core.Pick(r, []uint32{0, 0, 1234})
	e.GID = core.Pick(r, []uint32{0, 1234})
	e.Mtime = int64(1_200_000_000+r.Intn(300_000_000))*1_000_000_000 + int64(r.Intn(1_000_000_000))
	switch e.Type {
	case tree.Dir:
		e.Perm = core.Pick(r, []uint32{0755, 0700, 0711, 01777})
	case tree.Symlink:
		e.Perm = 0777
	default:
		e.Perm = core.Pick(r, []uint32{0644, 0600, 0755, 0444, 04755})
	}
	if (e.Type == tree.File || e.Type == tree.Dir) && r.P(1, 6) {
		e.Xattrs = map[string][]byte{"user.k" + g.side: r.Bytes(4)}
	}
	if e.Type == tree.Symlink && g.side == "src" && r.P(1, 4) {
		// only root can: an xattr on the link itself (must not reach the target)
		e.Xattrs = map[string][]byte{"trusted.vlink": r.Bytes(4)}
	}
}

func (g *c14gen) target(dir, self string) string {
	r := g.r
	depth := 0
	if dir != "" {
		depth = strings.Count(dir, "/") + 1
	}
	up := strings.Repeat("../", depth) // reaches the root of this tree
	other := "dstroot"
	if g.side == "dst" {
		other = "srcroot"
	}
	nm := func() string { return core.Pick(r, c14Names) }
	switch r.Weighted([]int{5, 6, 4, 2, 2}) {
	case 0: // absolute, leaving the root
		return core.Pick(r, []string{
			"/outside/a", "/outside/d", "/outside/d/a", "/outside", "/outside/null", "/outside/b", "/outside/l", "/outside/p",
			"/outside/new", "/outside/d/new", "/outside/sib", "/outside/outside/a",
			"/" + g.cn + "/sib/a", "/" + g.cn + "/sib/d", "/" + g.cn + "/sib/new", "/" + g.cn + "/sib",
			"/" + g.cn + "/" + other, "/" + g.cn + "/" + other + "/" + nm(), "/", "/" + g.cn,
		})
	case 1: // '..'-laden, leaving the root
		return core.Pick(r, []string{
			up + "../sib/a", up + "../sib/d", up + "../sib/new", up + "../sib", up + "../sib/d/" + nm(),
			up + "../../outside/a", up + "../../outside/d", up + "../../outside/new", up + "../../outside",
			strings.Repeat("../", 9) + "outside/d", strings.Repeat("../", 9) + "outside/a", strings.Repeat("../", 9) + "outside/d/new",
			up + "../" + other, up + "../" + other + "/" + nm(), up + "..", up + "../..",
			nm() + "/../" + up + "../sib/a", "./" + up + "../sib/./d/",
		})
	case 2: // inside the tree
		return core.Pick(r, []string{nm(), nm() + "/" + nm(), "../" + nm(), ".", "./" + nm(), up + nm(), nm() + "/../" + nm(), "/" + nm(), "/" + nm() + "/" + nm()})
	case 3: // dangling
		return core.Pick(r, []string{"nope", "nope/x", "/nope", "/nope/deeper/x", "../nope", nm() + "/nope"})
	default: // loops
		return core.Pick(r, []string{self, "./" + self, self + "/" + nm(), "../" + filepath.Base(dir) + "/" + self, nm()})
	}
}

func (g *c14gen) dir(prefix string, depth int) {
	r := g.r
	k := r.Range(1, 3)
	if depth == 0 {
		k = r.Range(2, 5)
	}
	names := append([]string(nil), c14Names...)
	core.Shuffle(r, names)
	for _, nm := range names[:k] {
		if g.budget <= 0 {
			return
		}
		g.budget--
		p := relJoin(prefix, nm)
		w := []int{4, 5, 6, 1}
		if depth >= 2 {
			w[1] = 0
		}
		e := tree.Entry{Path: p, Type: []byte{tree.File, tree.Dir, tree.Symlink, tree.Fifo}[r.Weighted(w)]}
		g.meta(&e)
		switch e.Type {
		case tree.File:
			e.Data = []byte(fmt.Sprintf("%s:%s:%x", g.side, p, r.Bytes(r.Range(1, 24))))
			if r.P(1, 10) {
				e.Data = []byte{}
			}
		case tree.Symlink:
			e.Target = g.target(prefix, nm)
		}
		g.t.Entries = append(g.t.Entries, e)
		if e.Type == tree.Dir {
			g.dir(p, depth+1)
		}
	}
}

func c14Tree(r *core.Rand, side, cn string) *tree.Tree {
	g := &c14gen{r: r, side: side, cn: cn, t: &tree.Tree{}, budget: r.Range(3, 18)}
	g.dir("", 0)
	g.t.Sort()
	if side == "src" && r.P(1, 3) {
		// one hard link group among the source files
		var files, dirs []string
		dirs = append(dirs, "")
		for _, e := range g.t.Entries {
			if e.Type == tree.File {
				files = append(files, e.Path)
			}
			if e.Type == tree.Dir {
				dirs = append(dirs, e.Path)
			}
		}
		if len(files) > 0 {
			f := g.t.Get(core.Pick(r, files)).Clone()
			p := relJoin(core.Pick(r, dirs), core.Pick(r, c14Names))
			if g.t.Get(p) == nil {
				f.LinkTo = f.Path
				f.Path = p
				g.t.Entries = append(g.t.Entries, f)
				g.t.Sort()
				g.t.Recanon()
			}
		}
	}
	return g.t
}

// c14Arg draws a path argument for one side.
func c14Arg(r *core.Rand, t *tree.Tree, side string) string {
	var links, dirs, all []string
	for _, e := range t.Entries {
		all = append(all, e.Path)
		switch e.Type {
		case tree.Symlink:
			links = append(links, e.Path)
		case tree.Dir:
			dirs = append(dirs, e.Path)
		}
	}
	nm := func() string { return core.Pick(r, c14Names) }
	pick := func(xs []string, def string) string {
		if len(xs) == 0 {
			return def
		}
		return core.Pick(r, xs)
	}
	var a string
	w := []int{4, 5, 6, 2, 2, 3, 1, 0, 0}
	if side == "src" {
		w[7], w[8] = 3, 1
	}
	switch r.Weighted(w) {
	case 0:
		a = pick(all, "a")
	case 1:
		a = pick(links, pick(all, "l"))
	case 2: // continue through a symlink
		a = pick(links, pick(dirs, "l")) + "/" + core.Pick(r, []string{nm(), nm(), "new", nm() + "/" + nm(), "a"})
	case 3: // new names
		a = core.Pick(r, []string{"new", "n1/n2", pick(dirs, "d") + "/new", pick(dirs, "d") + "/n1/n2"})
	case 4:
		a = core.Pick(r, []string{"/", ".", "", "/."})
	case 5: // sentinel-looking arguments
		a = core.Pick(r, []string{"/outside/a", "/outside/d", "/outside/new", "../../outside/a", "../sib/a", "../sib/new", "../../../../outside/d/new", "/outside", "../sib", "..//../outside/./d"})
	case 6: // '..' inside the argument after a symlink or directory
		a = pick(links, pick(dirs, "d")) + "/../" + nm()
	case 7: // wildcards (source only)
		a = core.Pick(r, []string{"*", "?", "[a-l]*", pick(dirs, "d") + "/*", pick(links, "l") + "/*", "*/a", "l*", "o*/*"})
	case 8: // sources ending in '..'
		a = core.Pick(r, []string{"..", pick(dirs, "d") + "/..", pick(links, "l") + "/..", "../.."})
	}
	if r.P(1, 4) && !strings.HasPrefix(a, "/") && !strings.HasPrefix(a, ".") && a != "" {
		a = "/" + a
	}
	if side == "dst" && r.P(1, 5) && a != "" && !strings.HasSuffix(a, "/") {
		a += "/"
	}
	return a
}

func hasInnerDotDot(arg string) bool {
	seen := false
	for _, c := range strings.Split(arg, "/") {
		switch c {
		case "", ".":
		case "..":
			if seen {
				return true
			}
		default:
			seen = true
		}
	}
	return false
}

// c14Deferred: what Copy does by path at the very end of the call (stamping
// the directories it created for the path or on demand) after a later
// wildcard match has replaced one of those directories by a symlink that
// leads out of the destination root, where directories of the same names
// exist. Nothing outside the root may change.
func c14Deferred(c *core.Ctx, r *core.Result) *core.Result {
	R := core.NewRand(core.Mix(c.Seed, "C14-deferred", c.Index))
	srcRoot, dstRoot, out := c.Dir+"/srcroot", c.Dir+"/dstroot", c.Dir+"/elsewhere"
	for _, d := range []string{srcRoot, dstRoot} {
		if err := os.Mkdir(d, 0755); err != nil {
			r.Inconclusive = err.Error()
			return r
		}
	}
	if err := c14Sentinels(out, strings.Trim(c.Dir, "/")+"/elsewhere"); err != nil {
		r.Inconclusive = "sentinels: " + err.Error()
		return r
	}
	old := time.Unix(1_000_000_000, 0)
	filepath.Walk(out, func(p string, fi os.FileInfo, err error) error {
		if err == nil && fi.Mode()&os.ModeSymlink == 0 {
			os.Chtimes(p, old, old)
		}
		return nil
	})
	variant := core.Pick(R, []string{"on-demand-parents", "created-path"})
	st := &tree.Tree{}
	dir := func(p string) {
		st.Entries = append(st.Entries, tree.Entry{Path: p, Type: tree.Dir, Perm: 0755, Mtime: 1_111_111_111_000_000_000})
	}
	var srcArg, dstArg string
	fl := cpFlags{Wild: true, Always: true}
	switch variant {
	case "on-demand-parents":
		// matches p/a (a directory, d/d/file selected below it) and q/a (a
		// symlink to the outside tree, which has d and d/d too)
		for _, p := range []string{"p", "p/a", "p/a/d", "p/a/d/d", "q"} {
			dir(p)
		}
		st.Entries = append(st.Entries,
			tree.Entry{Path: "p/a/d/d/file", Type: tree.File, Perm: 0644, Mtime: 1e18, Data: []byte("selected")},
			tree.Entry{Path: "p/a/d/other", Type: tree.File, Perm: 0644, Mtime: 1e18, Data: []byte("not selected")},
			tree.Entry{Path: "q/a", Type: tree.Symlink, Perm: 0777, Mtime: 1e18, Target: out})
		srcArg, dstArg = "*/a", "/"
		fl.Include = []string{"d/d/file"}
	case "created-path":
		// s/0 -> / makes the destination of the second match the root
		// itself, where s/a (a symlink to the outside tree) replaces the
		// directory a that was created for the path a/d/b
		dir("s")
		st.Entries = append(st.Entries,
			tree.Entry{Path: "s/0", Type: tree.Symlink, Perm: 0777, Mtime: 1e18, Target: "/"},
			tree.Entry{Path: "s/a", Type: tree.Symlink, Perm: 0777, Mtime: 1e18, Target: out})
		srcArg, dstArg = "s/*", "a/d/b"
		fl.Utime = true
	}
	st.Sort()
	if err := tree.Materialise(srcRoot, st); err != nil {
		r.Inconclusive = "materialise: " + err.Error()
		return r
	}
	before, err := tree.Snapshot(out, tree.SnapOpt{})
	if err != nil {
		r.Inconclusive = err.Error()
		return r
	}
	r.FP = "deferred|" + variant
	r.Sample = map[string]any{"variant": "deferred-" + variant, "source": st.Lines(), "src": srcArg, "dst": dstArg, "flags": fl.String(), "outside": out}
	cerr := runCopy(srcRoot, srcArg, dstRoot, dstArg, fl)
	after, err := tree.Snapshot(out, tree.SnapOpt{})
	if err != nil {
		r.Violate("outside-changed", "deferred-%s: the tree outside the destination root cannot be read after the copy: %v", variant, err)
		return r
	}
	m := tree.Mask{Perm: true, Owner: true, Mtime: true, DirMtime: true, Xattrs: true, DirXattrs: true, Links: true, Data: true, Rdev: true, Target: true}
	if d := tree.Diff(before, after, m); len(d) > 0 {
		r.ViolateD("outside-changed", r.Sample, "src=%q dst=%q [%s] (%s, copy returned %v): entries outside the destination root changed:\n%s", srcArg, dstArg, fl, variant, cerr, strings.Join(trunc(d, 6), "\n"))
	}
	r.Count("copies", 1)
	r.Count("copies_whose_created_directories_are_replaced_by_an_outward_symlink", 1)
	r.Nontrivial = true
	return r
}

func c14Run(c *core.Ctx) *core.Result {
	r := &core.Result{}
	if c.Index%25 == 13 && os.Geteuid() == 0 {
		return c14Deferred(c, r)
	}
	relabel := ""
	defer func() {
		if relabel == "" {
			return
		}
		for i := range r.Viols {
			if r.Viols[i].Sig == "rootpath-lexical-join" {
				continue
			}
			r.Viols[i].Msg = "[" + r.Viols[i].Sig + "] " + r.Viols[i].Msg
			r.Viols[i].Sig = relabel
		}
	}()
	if !needRoot(r) {
		return r
	}
	if !inJail() {
		r.Inconclusive = "not inside the chroot jail"
		return r
	}
	cn := strings.Trim(c.Dir, "/")
	srcRoot, dstRoot := c.Dir+"/srcroot", c.Dir+"/dstroot"
	for _, d := range []string{srcRoot, dstRoot} {
		if err := os.Mkdir(d, 0755); err != nil {
			r.Inconclusive = err.Error()
			return r
		}
	}
	if err := c14Sentinels(c.Dir+"/sib", cn+"/sib"); err != nil {
		r.Inconclusive = "sentinels: " + err.Error()
		return r
	}
	srcT := c14Tree(c.R, "src", cn)
	dstT := c14Tree(c.R, "dst", cn)
	var fl cpFlags
	fl.Follow, fl.Always, fl.CDC = c.R.P(1, 2), c.R.P(1, 2), c.R.P(1, 2)
	fl.Chown, fl.Utime, fl.Mode = c.R.P(1, 6), c.R.P(1, 6), c.R.P(1, 8)
	srcArg := c14Arg(c.R, srcT, "src")
	dstArg := c14Arg(c.R, dstT, "dst")
	if c.R.P(3, 10) {
		// overlay mode: whole trees (or plain directories) onto each other, so
		// that the recursive copy meets the destination's symlinks name by name
		pickDir := func(t *tree.Tree) string {
			var ds []string
			for _, e := range t.Entries {
				if e.Type == tree.Dir {
					ds = append(ds, e.Path)
				}
			}
			if len(ds) == 0 || c.R.P(1, 2) {
				return core.Pick(c.R, []string{"/", ".", "", "/."})
			}
			return core.Pick(c.R, ds)
		}
		srcArg, dstArg = pickDir(srcT), pickDir(dstT)
		if dstArg == "/." {
			dstArg = "/"
		}
		if c.R.P(2, 3) {
			fl.CDC = true
		}
		r.Count("overlay_mode_cases", 1)
	}
	fl.Wild = c.R.P(1, 4) || (strings.ContainsAny(srcArg, "*?[") && c.R.P(5, 6))

	// a fixed share of cases runs with include / exclude patterns
	planted := ""
	if c.R.P(1, 4) {
		srcArg, dstArg, planted = c14Patterns(c.R, r, cn, srcT, dstT, srcArg, dstArg, &fl)
	}
	// a further mode, drawn from a generator of its own: a source spelled
	// "x/." for an entry x of any type (mostly non-directories; with
	// FollowLinks also "link/.") onto the root or an existing directory,
	// mostly with always-replace - x must land inside under its own name,
	// the directory (for dst "/" the destination root itself) is not the target
	xr := core.NewRand(core.Mix(c.Seed, "C14-dot", c.Index))
	if xr.P(1, 15) && len(srcT.Entries) > 0 {
		var non, all, ddirs []string
		for _, e := range srcT.Entries {
			all = append(all, e.Path)
			if e.Type != tree.Dir {
				non = append(non, e.Path)
			}
		}
		for _, e := range dstT.Entries {
			if e.Type == tree.Dir {
				ddirs = append(ddirs, e.Path)
			}
		}
		x := core.Pick(xr, all)
		if len(non) > 0 && xr.P(3, 4) {
			x = core.Pick(xr, non)
		}
		srcArg = x + "/."
		dstArg = core.Pick(xr, []string{"/", "", ".", "/"})
		if len(ddirs) > 0 && xr.P(1, 3) {
			dstArg = core.Pick(xr, ddirs)
		}
		fl.Always = xr.P(2, 3)
		fl.Wild = false
		fl.Include, fl.Exclude, planted = nil, nil, ""
		r.Count("nondir_dot_mode_cases", 1)
	}
	// another directed shape, from a generator of its own: one wildcard copy
	// whose matches are a directory holding the first member of a hard-link
	// group, then a symlink of the same base name that leads to a sentinel
	// directory holding an entry of the member's name (with always-replace it
	// takes the directory's place), then another member of the group: the
	// later member must not be linked to what the first member's path names now
	if lr := core.NewRand(core.Mix(c.Seed, "C14-linkdir", c.Index)); lr.P(1, 25) {
		nm := core.Pick(lr, []string{"a", "b"}) // names the sentinel directories hold
		tg := core.Pick(lr, []string{"/outside/d", "/outside", "/outside/d/d", "/" + cn + "/sib/d", "/" + cn + "/sib", "../../outside/d", "../../../outside", "../sib/d"})
		data := []byte("linked-" + cn)
		srcT = &tree.Tree{}
		for _, e := range []tree.Entry{
			{Path: "a", Type: tree.Dir, Perm: 0755}, {Path: "a/d", Type: tree.Dir, Perm: 0755},
			{Path: "a/d/" + nm, Type: tree.File, Perm: 0640, UID: 5, GID: 6, Data: data},
			{Path: "b", Type: tree.Dir, Perm: 0755}, {Path: "b/d", Type: tree.Symlink, Perm: 0777, Target: tg},
			{Path: "l", Type: tree.Dir, Perm: 0755}, {Path: "l/z", Type: tree.File, Perm: 0640, UID: 5, GID: 6, Data: data, LinkTo: "a/d/" + nm},
		} {
			e.Mtime = 1_300_000_000_000_000_000 + int64(len(srcT.Entries))
			srcT.Entries = append(srcT.Entries, e)
		}
		if lr.P(1, 2) {
			dstT = &tree.Tree{}
		}
		srcArg, dstArg = core.Pick(lr, []string{"*/*", "?/?", "[abl]/*"}), core.Pick(lr, []string{"/", "", "."})
		fl.Wild, fl.Always, fl.CDC, fl.Follow = true, lr.P(4, 5), false, false
		fl.Include, fl.Exclude, planted = nil, nil, ""
		r.Count("link_group_below_replaced_directory_cases", 1)
	}
	usePatterns := len(fl.Include)+len(fl.Exclude) > 0

	// names a copier might derive from the name of the file it writes
	// (temporary, backup or swap files next to it): a destination symlink of
	// such a name is an unrelated entry, not a place to write through
	if dr := core.NewRand(core.Mix(c.Seed, "C14-derived-names", c.Index)); dr.P(1, 6) {
		ddirs := []string{""}
		for _, e := range dstT.Entries {
			if e.Type == tree.Dir {
				ddirs = append(ddirs, e.Path)
			}
		}
		for i := 0; i < 6; i++ {
			nm := fmt.Sprintf(core.Pick(dr, []string{".%s.tmp", "%s.tmp", ".%s.swp", "%s~", ".tmp.%s", ".%s.new", "%s.part", ".%s.tmp"}), core.Pick(dr, []string{"a", "b", "d", "l"}))
			pth := relJoin(core.Pick(dr, ddirs), nm)
			if dstT.Get(pth) == nil {
				dstT.Put(tree.Entry{Path: pth, Type: tree.Symlink, Perm: 0777, Mtime: 1_270_000_000_000_000_000, Target: core.Pick(dr, []string{"/outside/a", "/outside/d/b", "/" + cn + "/sib/a", "/outside/d/not-yet", "../../outside/a"})})
			}
		}
		dstT.Sort()
		r.Count("destinations_with_symlinks_at_derived_names", 1)
	}
	if err := tree.Materialise(srcRoot, srcT); err != nil {
		r.Inconclusive = "materialise src: " + err.Error()
		return r
	}
	if err := tree.Materialise(dstRoot, dstT); err != nil {
		r.Inconclusive = "materialise dst: " + err.Error()
		return r
	}
	// a destination seeded from a link farm: regular files of the destination
	// that are further names of files outside the root (cp -al snapshots).
	// Replacing such a name is fine, writing into the shared inode is not.
	sharedOutside := map[string]bool{}
	if hr := core.NewRand(core.Mix(c.Seed, "C14-shared-inode", c.Index)); hr.P(1, 6) {
		for _, e := range dstT.Entries {
			if e.Type != tree.File || e.LinkTo != "" || dstT.GroupOf(e.Path) != "" || !hr.P(1, 2) {
				continue
			}
			out := core.Pick(hr, []string{"/outside/a", "/outside/d/b", "/outside/sib/a", "/" + cn + "/sib/a", "/" + cn + "/sib/d/b"})
			if sharedOutside[strings.TrimPrefix(out, "/")] {
				continue // one further name per outside file: no link group inside the destination
			}
			dp := filepath.Join(dstRoot, filepath.FromSlash(e.Path))
			if os.Remove(dp) == nil && os.Link(out, dp) == nil {
				sharedOutside[strings.TrimPrefix(out, "/")] = true
				r.Count("destination_files_sharing_an_inode_with_the_outside", 1)
			}
		}
	}

	sample := map[string]any{"src_tree": srcT.Lines(), "dst_tree": dstT.Lines(), "src": srcArg, "dst": dstArg, "flags": fl.String()}
	if usePatterns {
		sample["include"], sample["exclude"] = fl.Include, fl.Exclude
		if planted != "" {
			sample["planted_dst_symlink_at_source_dir"] = planted
		}
	}
	r.Sample = sample
	h := fnv.New64a()
	fmt.Fprintf(h, "%s|%s|%q|%q|%s|%q|%q", srcT.Fingerprint(), dstT.Fingerprint(), srcArg, dstArg, fl, fl.Include, fl.Exclude)
	r.FP = fmt.Sprintf("%x", h.Sum64())

	snap := func() (out, src, dst *tree.Tree, err error) {
		all, err := tree.Snapshot("/", tree.SnapOpt{})
		if err != nil {
			return nil, nil, nil, err
		}
		out = &tree.Tree{}
		dp := cn + "/dstroot"
		for _, e := range all.Entries {
			if !strings.HasPrefix(e.Path, dp+"/") {
				out.Entries = append(out.Entries, e)
			}
		}
		return out, subTree(all, cn+"/srcroot"), subTree(all, dp), nil
	}
	outB, srcB, dstB, err := snap()
	if err != nil {
		r.Inconclusive = "snapshot: " + err.Error()
		return r
	}

	// independent expectations, computed before the call
	S := chrootResolve(srcB, srcArg, fl.Follow)
	R := chrootResolve(dstB, dstArg, true)

	// second reference, only used to name a known class of deviations: what
	// the dependency's RootPath (which joins link targets lexically, so that
	// "link/.." and "link/." inside a target are not resolved component-wise)
	// makes of the same arguments
	lexical := c14LexicalDiverges(srcRoot, srcArg, fl.Follow, S, dstRoot, dstArg, R, dstB)
	if lexical != "" {
		r.Count("cases_dependency_rootpath_diverges_from_chroot_resolution", 1)
	}
	sig := func(s string) string {
		if lexical != "" {
			return "rootpath-lexical-join"
		}
		return s
	}

	// triage only (names one class, never hides another): with include
	// patterns AND always-replace, the removal of an existing target happens
	// before the lazily created parents are validated; if a destination
	// symlink stands where such a parent belongs, the "target" that is removed
	// is an entry of the directory the link leads to. Such removals (and the
	// mtime/ctime/nlink change of the directories they happen in) get their
	// own signature; creations, byte or metadata changes never do.
	var linkDirs []string
	if usePatterns && fl.Always {
		for _, e := range dstB.Entries {
			if e.Type != tree.Symlink {
				continue
			}
			if t, err := filepath.EvalSymlinks(filepath.Join(dstRoot, e.Path)); err == nil {
				if st, err := os.Stat(t); err == nil && st.IsDir() {
					linkDirs = append(linkDirs, strings.TrimPrefix(t, "/"))
				}
			}
		}
	}
	sigOutside := func(def, p string, fields []string) string {
		for _, f := range fields {
			if f != "mtime" && f != "ctime" && f != "nlink" {
				return def
			}
		}
		for _, d := range linkDirs {
			if under(p, d) {
				return "always-replace-removes-below-unvalidated-lazy-parent"
			}
		}
		return def
	}

	// cases that exercise one of two named placement rules report under the
	// rule's name (the original signature is kept in the message)
	{
		patternSrc := fl.Wild && strings.ContainsAny(srcArg, "*?[")
		rDir := R.Err == "" && R.Ambig == "" && ((R.Exists && R.Type == tree.Dir) || (!R.Exists && (strings.HasSuffix(dstArg, "/") || strings.HasSuffix(dstArg, "/."))))
		sOK := S.Err == "" && S.Ambig == "" && S.Exists
		switch {
		case sOK && S.Type != tree.Dir && !fl.Wild && filepath.Base(srcArg) == "." && rDir:
			relabel = "nondir-dot-source"
			r.Count("nondir_dot_source_into_existing_directory", 1)
			if fl.Always {
				r.Count("nondir_dot_source_into_existing_directory_always_replace", 1)
			}
		case sOK && S.Type == tree.Dir && !fl.CDC && !patternSrc && R.Err == "" && R.Ambig == "" && R.Exists && R.Type != tree.Dir:
			r.Count("dir_source_onto_existing_non_directory", 1)
			if fl.Always {
				relabel = "dir-over-nondir-always-replace"
				r.Count("dir_source_onto_existing_non_directory_always_replace", 1)
			}
		}
	}
	cerr := runCopy(srcRoot, srcArg, dstRoot, dstArg, fl)
	// a wildcard is matched in the directory its literal prefix names; a
	// symlink (that stays inside the root) as the last component of that
	// prefix is a path argument like any other: "link/f*" must find what
	// "link/f1" finds. Narrow clause: only the verdict "no matches" is judged.
	if cerr != nil && fl.Wild && strings.Contains(cerr.Error(), "no matches found") && !hasInnerDotDot(srcArg) {
		if i := strings.LastIndex(srcArg, "/"); i > 0 && !strings.ContainsAny(srcArg[:i], "*?[\\") && strings.ContainsAny(srcArg[i+1:], "*?[") && !strings.Contains(srcArg[i+1:], "\\") {
			pre := chrootResolve(srcB, srcArg[:i], true)
			if pre.Err == "" && pre.Ambig == "" && pre.Exists && pre.Type == tree.Dir && pre.Links > 0 {
				var hits []string
				for _, e := range srcB.Entries {
					if tree.Parent(e.Path) == pre.Path {
						if ok, err := path.Match(srcArg[i+1:], tree.Base(e.Path)); err == nil && ok {
							hits = append(hits, e.Path)
						}
					}
				}
				r.Count("wildcards_below_a_symlinked_directory", 1)
				if len(hits) > 0 {
					r.Violate("wildcard-below-symlink-no-match", "src=%q dst=%q [%s]: the copy reports %q, but %q resolves (through %d symlink(s), inside the source root) to the directory %q, which holds the matching entries %q", srcArg, dstArg, fl, cerr.Error(), srcArg[:i], pre.Links, "/"+pre.Path, hits)
				}
			}
		}
	}

	outA, _, dstA, err := snap()
	if err != nil {
		r.Violate("jail-unreadable", "the jail cannot be snapshotted after the copy: %v", err)
		return r
	}
	if cerr != nil {
		r.Count("calls_failed", 1)
		sample["error"] = cerr.Error()
	} else {
		r.Count("calls_succeeded", 1)
	}
	r.AddSet("flag_combinations", fl.String())
	if usePatterns {
		r.Count("pattern_cases", 1)
		if cerr == nil {
			r.Count("pattern_cases_succeeded", 1)
		}
		if planted != "" {
			r.Count("pattern_cases_dst_symlink_planted_at_source_dir", 1)
			if cerr != nil {
				r.Count("pattern_cases_planted_symlink_conflict_reported", 1)
			}
		}
	}

	// (a) nothing outside the inside of dstroot changed
	bi, ai := outB.Index(), outA.Index()
	dpath := cn + "/dstroot"
	for _, e := range outB.Entries {
		j, ok := ai[e.Path]
		if !ok {
			r.Violate(sigOutside("outside-removed", e.Path, nil), "src=%q dst=%q [%s]: entry outside the destination root was removed: /%s", srcArg, dstArg, fl, e.String())
			continue
		}
		g := outA.Entries[j]
		r.Count("outside_entries_compared", 1)
		d := sameAll(&e, &g)
		if sharedOutside[e.Path] {
			// an outside file that had a further name inside dstroot: when
			// the copy replaces that name the inode loses a link (nlink and
			// ctime move, the link-group column with them); its bytes,
			// owner, mode and mtime are not the copy's business
			var keep []string
			for _, f := range d {
				if f != "ctime" && f != "nlink" && f != "linkgroup" && f != "links" {
					keep = append(keep, f)
				}
			}
			d = keep
		}
		if e.Path == dpath {
			// the destination root itself: its identity, type, mode, owner and xattrs
			var keep []string
			for _, f := range d {
				if f != "mtime" && f != "ctime" && f != "nlink" {
					keep = append(keep, f)
				}
			}
			d = keep
		}
		if len(d) > 0 {
			r.Violate(sigOutside("outside-changed", e.Path, d), "src=%q dst=%q [%s]: entry outside the destination root changed (%s):\nbefore /%s ino=%d ctime=%d\nafter  /%s ino=%d ctime=%d", srcArg, dstArg, fl, strings.Join(d, ","), e.String(), e.Ino, e.Ctime, g.String(), g.Ino, g.Ctime)
		}
	}
	for _, e := range outA.Entries {
		if _, ok := bi[e.Path]; !ok {
			r.Violate("outside-created", "src=%q dst=%q [%s]: entry created outside the destination root: /%s", srcArg, dstArg, fl, e.String())
		}
	}

	// (b) bytes of every regular file in dstroot come from the source root
	srcBytes := map[string]bool{}
	for _, e := range srcB.Entries {
		if e.Type == tree.File {
			srcBytes[string(e.Data)] = true
		}
	}
	for _, e := range dstA.Entries {
		if e.Type != tree.File {
			continue
		}
		r.Count("dst_files_traced", 1)
		if b := dstB.Get(e.Path); b != nil && b.Type == tree.File && b.Ino == e.Ino && bytes.Equal(b.Data, e.Data) && len(sharedOutside) > 0 {
			continue // a planted further name of an outside file, untouched
		}
		if bytes.Contains(e.Data, []byte(c14Marker)) {
			r.Violate("sentinel-bytes-copied", "src=%q dst=%q [%s]: %s in the destination holds sentinel bytes %q", srcArg, dstArg, fl, e.Path, e.Data)
			continue
		}
		if b := dstB.Get(e.Path); b != nil && b.Type == tree.File && b.Ino == e.Ino && bytes.Equal(b.Data, e.Data) {
			continue
		}
		r.Count("dst_files_written", 1)
		if !srcBytes[string(e.Data)] {
			r.Violate("foreign-bytes", "src=%q dst=%q [%s]: %s in the destination holds bytes %q that no file of the source root has", srcArg, dstArg, fl, e.Path, e.Data)
		}
	}

	// (d) landing location by independent resolution
	for _, k := range S.Kinds {
		r.AddSet("src_arg_link_kinds", k)
	}
	for _, k := range R.Kinds {
		r.AddSet("dst_arg_link_kinds", k)
	}
	r.Count("src_arg_symlinks_traversed", int64(S.Links))
	r.Count("dst_arg_symlinks_traversed", int64(R.Links))
	isPattern := fl.Wild && strings.ContainsAny(srcArg, "*?[")
	trailing := strings.HasSuffix(dstArg, "/") || strings.HasSuffix(dstArg, "/.")
	region, regionKnown := "", false
	landing, landingKnown := "", false
	switch {
	case hasInnerDotDot(dstArg):
		r.Count("landing_skipped_dst_inner_dotdot", 1)
	case R.Err != "" || R.Ambig != "":
		r.Count("landing_skipped_dst_unresolvable", 1)
		if cerr == nil && R.Err != "" && R.Ambig == "" {
			r.Violate(sig("resolve-mismatch"), "src=%q dst=%q [%s]: the destination argument does not resolve inside its root (%s) but the copy succeeded", srcArg, dstArg, fl, R.Err)
		}
	case isPattern && !((R.Exists && R.Type == tree.Dir) || (!R.Exists && trailing)):
		// several matches onto something that is not a directory: a later
		// match meets what an earlier one left there (possibly a symlink,
		// which is then resolved again inside the root); where that lands is
		// not modelled here, (a) and (b) still apply
		r.Count("landing_skipped_wildcard_onto_non_directory", 1)
	case isPattern && R.Links > 0:
		// the destination argument goes through a symlink and is resolved
		// again for every match: a match that lands on that very link
		// (dst "x/l/" with l -> ".." makes x the directory and x/l the landing
		// of a match called l) replaces it, and the later matches follow the
		// new link - inside the root, but not below the first resolution
		r.Count("landing_skipped_wildcard_dst_through_symlink", 1)
	default:
		region, regionKnown = R.Path, true
	}
	if regionKnown && !isPattern {
		switch {
		case S.Err != "" || S.Ambig != "" || !S.Exists:
			r.Count("landing_skipped_src_unresolvable", 1)
			if cerr == nil && S.Ambig == "" {
				r.Violate(sig("resolve-mismatch"), "src=%q dst=%q [%s]: the source argument resolves to nothing inside its root (%s exists=%v) but the copy succeeded", srcArg, dstArg, fl, S.Err, S.Exists)
			}
		default:
			rExists := R.Exists || trailing
			rIsDir := (R.Exists && R.Type == tree.Dir) || (!R.Exists && trailing)
			sIsDir := S.Type == tree.Dir
			base := filepath.Base(srcArg)
			if fl.Wild {
				// calibrated: with wildcards allowed the argument is cleaned
				// before its base name is taken ("d/x/.." and "d/." name d)
				base = filepath.Base(filepath.Clean(srcArg))
			}
			if base == ".." {
				// "x/.." names a directory (lexically the parent of x), not an
				// entry called ".." below the destination
				base = "."
				r.Count("src_argument_ends_in_dotdot", 1)
			}
			if !sIsDir && base == "." {
				// "x/." names the non-directory x itself
				base = filepath.Base(filepath.Join("/", srcArg))
			}
			// from the statement: a source directory lands inside an existing
			// destination DIRECTORY under its own name (unless directory-contents
			// mode is on), a non-directory copied to an existing directory lands
			// inside it; everything else lands at dst itself - a directory
			// meeting an existing non-directory is the conflict (error, or with
			// always-replace the source wins)
			landing = R.Path
			_ = rExists
			if rIsDir && (!sIsDir || !fl.CDC) {
				if base != "." && base != "/" {
					landing = relJoin(R.Path, base)
				}
			}
			landingKnown = true
		}
	}
	if isPattern {
		r.Count("wildcard_calls", 1)
	}

	srcEntry := func(p string) *tree.Entry {
		if p == "" {
			return &tree.Entry{Type: tree.Dir}
		}
		return srcB.Get(p)
	}
	if landingKnown && cerr == nil {
		region = landing
		r.Count("landing_checked", 1)
		se := srcEntry(S.Path)
		var ae *tree.Entry
		if landing == "" {
			ae = &tree.Entry{Type: tree.Dir}
		} else {
			ae = dstA.Get(landing)
		}
		switch {
		case ae == nil:
			r.Violate(sig("landing"), "src=%q dst=%q [%s]: success, but nothing exists at the expected landing path %q (source resolves to %q, destination to %q)", srcArg, dstArg, fl, landing, S.Path, R.Path)
		case ae.Type != se.Type:
			r.Violate(sig("landing"), "src=%q dst=%q [%s]: landing path %q holds type %c, the source entry %q is %c", srcArg, dstArg, fl, landing, ae.Type, S.Path, se.Type)
		case se.Type == tree.File && !bytes.Equal(se.Data, ae.Data):
			r.Violate(sig("landing"), "src=%q dst=%q [%s]: landing path %q does not hold the bytes of source entry %q", srcArg, dstArg, fl, landing, S.Path)
		case se.Type == tree.Symlink && se.Target != ae.Target:
			r.Violate(sig("landing"), "src=%q dst=%q [%s]: landing path %q -> %q, source link %q -> %q", srcArg, dstArg, fl, landing, ae.Target, S.Path, se.Target)
		}
	}

	// (c) confinement inside dstroot and replacement of destination symlinks
	escIn := func(t *tree.Tree, root string) int {
		n := 0
		for _, e := range t.Entries {
			if e.Type == tree.Symlink && under(e.Path, root) {
				if k, esc := linkKind(tree.Parent(e.Path), e.Target); esc {
					n++
					r.AddSet("escaping_link_kinds_met", k)
				}
			}
		}
		return n
	}
	escDst, escSrc := 0, 0
	if regionKnown {
		escDst = escIn(dstB, region)
		changed := 0
		seen := map[string]bool{}
		check := func(p string) {
			if seen[p] {
				return
			}
			seen[p] = true
			b, a := dstB.Get(p), dstA.Get(p)
			if b != nil && a != nil && len(sameAll(b, a)) == 0 {
				return
			}
			changed++
			if under(p, region) || properAncestor(p, region) {
				return
			}
			desc := func(e *tree.Entry) string {
				if e == nil {
					return "(absent)"
				}
				return fmt.Sprintf("%s ino=%d", e.String(), e.Ino)
			}
			r.Violate(sig("dst-stray-change"), "src=%q dst=%q [%s] err=%v: destination entry %q changed although the copy lands at %q:\nbefore %s\nafter  %s", srcArg, dstArg, fl, cerr, p, region, desc(b), desc(a))
		}
		for _, e := range dstB.Entries {
			check(e.Path)
		}
		for _, e := range dstA.Entries {
			check(e.Path)
		}
		r.Count("dst_entries_changed", int64(changed))
		r.Count("confinement_checked", 1)
	}
	if S.Err == "" && S.Exists {
		escSrc = escIn(srcB, S.Path)
	}
	if landingKnown {
		// destination symlinks that face a source entry
		type pair struct{ s, d string }
		var pairs []pair
		se := srcEntry(S.Path)
		// under include/exclude patterns an unselected source entry need not
		// replace what the destination holds: only the top-level pair (always
		// selected) stays well defined
		if se.Type == tree.Dir && !usePatterns {
			for _, e := range srcB.Entries {
				if properAncestor(S.Path, e.Path) {
					rel := strings.TrimPrefix(strings.TrimPrefix(e.Path, S.Path), "/")
					pairs = append(pairs, pair{e.Path, relJoin(landing, rel)})
				}
			}
		}
		if landing != "" {
			pairs = append(pairs, pair{S.Path, landing})
		}
		for _, pr := range pairs {
			b := dstB.Get(pr.d)
			if b == nil || b.Type != tree.Symlink {
				continue
			}
			r.Count("dst_symlinks_facing_source_entry", 1)
			kind, _ := linkKind(tree.Parent(b.Path), b.Target)
			r.AddSet("faced_dst_link_kinds", kind)
			if cerr != nil {
				r.Count("dst_symlink_call_failed", 1)
				continue
			}
			s := srcEntry(pr.s)
			a := dstA.Get(pr.d)
			switch {
			case a == nil:
				// an ancestor was replaced by a non-directory: not this entry's business
			case a.Type != s.Type || (s.Type == tree.Symlink && a.Target != s.Target):
				r.Violate(sig("dst-symlink-kept"), "src=%q dst=%q [%s]: destination symlink %q -> %q faced source entry %q (%c); afterwards it is %s, neither replaced nor reported", srcArg, dstArg, fl, pr.d, b.Target, pr.s, s.Type, a.String())
			default:
				r.Count("dst_symlinks_replaced", 1)
			}
		}
	}

	esc := S.Escape + R.Escape + escDst + escSrc
	r.Count("escaping_links_in_play", int64(esc))
	if S.Escape+R.Escape > 0 {
		r.Count("cases_argument_through_escaping_link", 1)
	}
	if escDst > 0 {
		r.Count("cases_escaping_link_in_landing_region", 1)
	}
	r.Nontrivial = esc > 0
	return r
}

// c14LexicalDiverges runs continuity's RootPath the way Copy uses it and
// reports where its answer differs from the chroot-style resolution.
func c14LexicalDiverges(srcRoot, srcArg string, follow bool, S rres, dstRoot, dstArg string, R rres, dstB *tree.Tree) string {
	relTo := func(root, p string) string {
		return strings.TrimPrefix(strings.TrimPrefix(p, root), "/")
	}
	cmp := func(what string, strict rres, got string, err error) string {
		if strict.Ambig != "" {
			return ""
		}
		switch {
		case strict.Err != "" && err == nil:
			return fmt.Sprintf("%s: chroot resolution fails with %s, RootPath answers %q", what, strict.Err, got)
		case strict.Err == "" && err == nil && got != strict.Path:
			return fmt.Sprintf("%s: chroot resolution reaches %q, RootPath answers %q", what, strict.Path, got)
		}
		return ""
	}
	// destination: the whole cleaned argument and the directory part as given
	p, err := cfs.RootPath(dstRoot, filepath.Clean(dstArg))
	if d := cmp("dst", R, relTo(dstRoot, p), err); d != "" {
		return d
	}
	ensure := dstArg
	if d, f := filepath.Split(dstArg); f != "" && f != "." {
		ensure = d
	}
	if ensure != "" && !hasInnerDotDot(dstArg) {
		p, err := cfs.RootPath(dstRoot, ensure)
		if d := cmp(fmt.Sprintf("directory part %q of dst", ensure), chrootResolve(dstB, ensure, true), relTo(dstRoot, p), err); d != "" {
			return d
		}
	}
	// source
	sp := filepath.Join("/", srcArg)
	if sp != "/" {
		var got string
		var err error
		if follow {
			got, err = cfs.RootPath(srcRoot, sp)
		} else {
			d, f := filepath.Split(sp)
			got, err = cfs.RootPath(srcRoot, d)
			got = filepath.Join(got, f)
		}
		if d := cmp("src", S, relTo(srcRoot, got), err); d != "" {
			return d
		}
	}
	return ""
}

// c14Patterns turns a case into an include/exclude-pattern case. Patterns are
// derived from the source paths below the copied directory so that they
// select descendants of a directory but not the directory itself (the
// directory is then created lazily, as a parent of a selected entry). In two
// thirds of the cases whole trees are copied onto each other and the
// destination gets a symlink to an existing directory outside the root at the
// name of such a source directory.
func c14Patterns(r *core.Rand, res *core.Result, cn string, srcT, dstT *tree.Tree, srcArg, dstArg string, fl *cpFlags) (string, string, string) {
	rootish := r.P(2, 3)
	if rootish {
		srcArg = core.Pick(r, []string{"/", ".", "", "/."})
		dstArg = core.Pick(r, []string{"/", "", "."})
		fl.Wild = false
	}
	S := chrootResolve(srcT, srcArg, fl.Follow)
	if S.Err != "" || !S.Exists || S.Type != tree.Dir {
		// not a directory source: patterns are never consulted; keep a few anyway
		fl.Include = refs.GenPatterns(r, 2, true, srcT.Paths()...)
		return srcArg, dstArg, ""
	}
	type dirInfo struct {
		rel   string
		kids  []string // base names of direct children
		leafs []string // base names of descendants that are not directories
	}
	var dirs []dirInfo
	var rels []string
	for _, e := range srcT.Entries {
		if !properAncestor(S.Path, e.Path) {
			continue
		}
		rel := strings.TrimPrefix(strings.TrimPrefix(e.Path, S.Path), "/")
		rels = append(rels, rel)
		if e.Type != tree.Dir {
			continue
		}
		di := dirInfo{rel: rel}
		for _, k := range srcT.Entries {
			if tree.Parent(k.Path) == e.Path {
				di.kids = append(di.kids, tree.Base(k.Path))
			}
			if properAncestor(e.Path, k.Path) && k.Type != tree.Dir {
				di.leafs = append(di.leafs, tree.Base(k.Path))
			}
		}
		if len(di.kids) > 0 {
			dirs = append(dirs, di)
		}
	}
	descend := func(d dirInfo) string {
		forms := []string{d.rel + "/*", d.rel + "/" + core.Pick(r, d.kids), d.rel + "/*/*", "*/" + core.Pick(r, d.kids)}
		if len(d.leafs) > 0 {
			forms = append(forms, d.rel+"/**/"+core.Pick(r, d.leafs), "**/"+core.Pick(r, d.leafs), d.rel+"/**")
		}
		return core.Pick(r, forms[:len(forms)])
	}
	planted := ""
	if len(dirs) > 0 {
		d := core.Pick(r, dirs)
		fl.Include = []string{descend(d)}
		if r.P(1, 3) {
			fl.Include = append(fl.Include, descend(core.Pick(r, dirs)))
		}
		if rootish && r.P(3, 4) {
			// plant: the destination holds a symlink at the directory's name
			// that leads to an existing directory outside the root
			fl.Include = []string{core.Pick(r, []string{d.rel + "/*", d.rel + "/" + core.Pick(r, d.kids), d.rel + "/**"})}
			cur := ""
			comps := strings.Split(d.rel, "/")
			for _, c := range comps[:len(comps)-1] {
				cur = relJoin(cur, c)
				if e := dstT.Get(cur); e == nil || e.Type != tree.Dir {
					dstT.Remove(cur)
					dstT.Put(tree.Entry{Path: cur, Type: tree.Dir, Perm: 0755, Mtime: 1_250_000_000_000_000_000})
				}
			}
			up := strings.Repeat("../", len(comps)-1)
			target := core.Pick(r, []string{
				"/outside/d", "/outside", "/outside/d/d", "/outside/sib", "/" + cn + "/sib", "/" + cn + "/sib/d", "/" + cn + "/sib/d/d",
				up + "../sib/d", up + "../sib", up + "../../outside/d", strings.Repeat("../", 9) + "outside/d", up + "../../outside",
			})
			dstT.Remove(d.rel)
			dstT.Put(tree.Entry{Path: d.rel, Type: tree.Symlink, Perm: 0777, Target: target, Mtime: 1_260_000_000_000_000_000})
			dstT.Sort()
			planted = d.rel + " -> " + target
		}
	} else {
		fl.Include = refs.GenPatterns(r, 2, true, rels...)
	}
	if r.P(1, 4) {
		fl.Include = append(fl.Include, refs.GenPatterns(r, 2, true, rels...)...)
	}
	if r.P(1, 3) {
		fl.Exclude = refs.GenPatterns(r, 2, true, rels...)
		if len(dirs) > 0 && r.P(1, 2) {
			d := core.Pick(r, dirs)
			fl.Exclude = append(fl.Exclude, d.rel+"/"+core.Pick(r, d.kids))
		}
	}
	return srcArg, dstArg, planted
}
