package main

import (
	"bytes"
	"context"
	"fmt"
	"os"
	"path/filepath"
	"strings"
	"sync"
	"syscall"

	"github.com/tonistiigi/fsutil"
	"github.com/tonistiigi/fsutil/types"
	"verif/internal/core"
	"verif/internal/tree"
	"verif/internal/wire"
)

// C06: the sender speaks the documented protocol to any conforming receiver.

func init() {
	core.Register(&core.Prop{
		ID:    "C06",
		Level: "exploration",
		Rule: "Plus: no two stream calls of the sender's endpoint overlap (overlap detector of the harness stream, which dwells inside its calls in half of the sessions). Plus the view sizesweep (1 session of 12): every file size from 48 below to 4 above one and two 32 KiB read buffers. source views {on-disk tree, synthetic tree, synthetic fan-out of 150-400 files, SubDirFS, include-filtered view} x request scripts of an independent reference receiver {all in order, reverse, random subset, burst of all ids before any DATA is consumed, request on STAT arrival while the walk is streaming, none} x invalid requests {none, duplicate, never-announced id, non-file id} x stream capacity {0,1,2,8,64} and seeded delays; every packet the real Send emits is checked online by a protocol monitor written from the protocol text. " +
			"non-trivial = at least one multi-chunk or >132-file request script completed, or an invalid request was rejected; distinct by (view, script, schedule) fingerprint",
		Assumptions: []string{"the reference receiver reads continuously (it buffers DATA) like any deployed receiver", "ids are zero-based STAT positions as documented in receive.go"},
		Cases: func(tier string) int {
			if tier == "thorough" {
				return 150000
			}
			return 1500
		},
		Batch:         25,
		MinNontrivial: func(tier string) int { return 100 },
		Run:           c06Run,
	})
}

type progressRec struct {
	mu    sync.Mutex
	vals  []int
	lasts []bool
}

func (p *progressRec) fn(n int, last bool) {
	p.mu.Lock()
	p.vals = append(p.vals, n)
	p.lasts = append(p.lasts, last)
	p.mu.Unlock()
}

func fanoutTree(R *core.Rand, n int) *tree.Tree {
	t := &tree.Tree{}
	t.Entries = append(t.Entries, tree.Entry{Path: "d", Type: tree.Dir, Perm: 0755, Mtime: 1e18})
	for i := 0; i < n; i++ {
		sz := core.Pick(R, []int{0, 1, 10, 100, 1000, 33000, 70000})
		if R.P(2, 3) {
			sz = R.Intn(300)
		}
		d := R.Bytes(sz)
		if sz == 0 {
			d = []byte{}
		}
		p := fmt.Sprintf("f%04d", i)
		if i%3 == 0 {
			p = "d/" + p
		}
		t.Entries = append(t.Entries, tree.Entry{Path: p, Type: tree.File, Perm: 0644, Mtime: 1e18 + int64(i), Data: d})
	}
	t.Sort()
	return t
}

func c06Run(c *core.Ctx) *core.Result {
	r := &core.Result{}
	if !needRoot(r) {
		return r
	}
	R := c.R
	fdLimited := false
	viewKind := core.Pick(R, []string{"disk", "disk", "synthetic", "fanout", "subdir", "filtered"})
	mode := core.Pick(R, []string{"all", "reverse", "subset", "burst", "burst", "onarrival", "onarrival", "none"})
	if R.P(1, 200) {
		// scale: more entries than 16 bits can number
		viewKind = "hugefanout"
		mode = "subset"
	}
	if viewKind != "hugefanout" && core.NewRand(core.Mix(c.Seed, "C06-size-sweep", c.Index)).P(1, 12) {
		// every file size from 48 below to 4 above one and two read buffers
		viewKind = "sizesweep"
	}
	invalid := ""
	if R.P(1, 5) {
		invalid = core.Pick(R, []string{"duplicate", "unknown", "nonfile"})
	}
	capn := core.Pick(R, []int{0, 1, 2, 8, 64})
	o := tree.DefaultOpt()
	o.SpecLinks = true
	o.SymXattrs = true
	var fs fsutil.FS
	openFail := ""        // a file of the view whose Open fails
	var want []tree.Entry // expected view in order (nil = not compared)
	content := map[string][]byte{}
	switch viewKind {
	case "disk", "subdir", "filtered":
		t := tree.Gen(R, o)
		// an entry that carries the name of the receiver's metadata-only
		// listing is, for the sender, an entry like any other
		if R.P(1, 6) && t.Get(".fsutil-metadata") == nil {
			t.Put(tree.Entry{Path: ".fsutil-metadata", Type: core.Pick(R, []byte{tree.File, tree.File, tree.Symlink}), Perm: 0644, Mtime: 1e18, Data: []byte("a listing left by an earlier transfer"), Target: "a"})
			if e := t.Get(".fsutil-metadata"); e.Type == tree.Symlink {
				e.Data, e.Perm = nil, 0777
			} else {
				e.Target = ""
			}
			t.Sort()
			r.Count("views_with_an_entry_named_like_the_listing", 1)
		}
		// unix sockets: the walk announces them as regular entries (the
		// socket bit is not carried), so they are requestable; opening one
		// fails, and the answer is the bare terminator
		for i := range t.Entries {
			if e := &t.Entries[i]; e.Type == tree.Fifo && e.LinkTo == "" && t.GroupOf(e.Path) == "" && R.P(1, 2) {
				e.Type = tree.Sock
				r.Count("sockets_in_the_view", 1)
			}
		}
		src := filepath.Join(c.Dir, "src")
		os.Mkdir(src, 0755)
		if err := tree.Materialise(src, t); err != nil {
			r.Inconclusive = "materialise: " + err.Error()
			return r
		}
		snap, err := tree.Snapshot(src, tree.SnapOpt{})
		if err != nil {
			r.Inconclusive = err.Error()
			return r
		}
		dfs, err := fsutil.NewFS(src)
		if err != nil {
			r.Inconclusive = err.Error()
			return r
		}
		fs = dfs
		want = snap.Entries
		for _, e := range snap.Entries {
			if e.Type == tree.File {
				content[e.Path] = e.Data
			}
			if e.Type == tree.Sock {
				content[e.Path] = []byte{}
			}
		}
		if viewKind == "subdir" {
			sfs, err := fsutil.SubDirFS([]fsutil.Dir{{FS: dfs, Stat: &types.Stat{Path: "sub", Mode: uint32(os.ModeDir | 0755)}}})
			if err != nil {
				r.Inconclusive = err.Error()
				return r
			}
			fs = sfs
			want = prefixed(snap.Entries, "sub", tree.Entry{Path: "sub", Type: tree.Dir, Perm: 0755})
			nc := map[string][]byte{}
			for k, v := range content {
				nc["sub/"+k] = v
			}
			content = nc
		}
		if viewKind == "filtered" {
			var inc []string
			for _, e := range snap.Entries {
				if R.P(1, 3) {
					inc = append(inc, e.Path)
				}
			}
			if len(inc) == 0 {
				inc = []string{"*"}
			}
			ffs, err := fsutil.NewFilterFS(dfs, &fsutil.FilterOpt{IncludePatterns: inc})
			if err != nil {
				r.Inconclusive = err.Error()
				return r
			}
			fs = ffs
			want = nil // the filtered listing itself is C11's subject
		}
	case "synthetic":
		o.SymXattrs = false
		t := tree.Gen(R, o)
		sfs := newSynthFS(t)
		sfs.EOFWithData = R.P(1, 2)
		sfs.ChunkMax = core.Pick(R, []int{0, 0, 1000, 32768})
		if R.P(1, 8) {
			// one announced file cannot be opened when it is requested (EACCES
			// for an unprivileged sender, EIO, ...): its bytes cannot be sent,
			// so the request cannot be answered as if the file were empty
			var cands []string
			for _, e := range t.Entries {
				if e.Type == tree.File && e.LinkTo == "" && t.GroupOf(e.Path) == "" && len(e.Data) > 0 {
					cands = append(cands, e.Path)
				}
			}
			if len(cands) > 0 {
				openFail = core.Pick(R, cands)
				sfs.OpenErr = map[string]bool{openFail: true}
				r.Count("views_with_a_file_that_cannot_be_opened", 1)
			}
		}
		fs = sfs
		want = t.Entries
		for _, e := range t.Entries {
			if e.Type == tree.File {
				content[e.Path] = e.Data
			}
		}
	case "sizesweep":
		t := &tree.Tree{}
		sr := core.NewRand(core.Mix(c.Seed, "C06-size-sweep-data", c.Index))
		for m := 1; m <= 2; m++ {
			for d := -48; d <= 4; d++ {
				t.Entries = append(t.Entries, tree.Entry{Path: fmt.Sprintf("s%d%+03d", m, d), Type: tree.File, Perm: 0644, Mtime: 1e18, Data: sr.Bytes(m*32768 + d)})
			}
		}
		t.Sort()
		fs = newSynthFS(t)
		want = t.Entries
		for _, e := range t.Entries {
			content[e.Path] = e.Data
		}
		r.Count("views_sweeping_file_sizes_around_the_read_buffer", 1)
	case "hugefanout":
		n := 65500 + R.Intn(2500)
		t := &tree.Tree{}
		t.Entries = append(t.Entries, tree.Entry{Path: "d", Type: tree.Dir, Perm: 0755, Mtime: 1e18})
		for i := 0; i < n; i++ {
			p := fmt.Sprintf("f%06d", i)
			if i%2 == 0 {
				p = "d/" + p
			}
			t.Entries = append(t.Entries, tree.Entry{Path: p, Type: tree.File, Perm: 0644, Mtime: 1e18 + int64(i), Data: []byte(fmt.Sprintf("%x", i))[:1+i%3]})
		}
		t.Sort()
		fs = newSynthFS(t)
		want = t.Entries
		for _, e := range t.Entries {
			content[e.Path] = e.Data
		}
		r.Count("views_with_more_than_65536_entries", 1)
	case "fanout":
		t := fanoutTree(R, R.Range(150, 400))
		sf := newSynthFS(t)
		sf.EOFWithData = R.P(1, 2)
		if R.P(1, 2) {
			sf.ChunkMax = core.Pick(R, []int{1000, 5000, 32768})
		}
		fs = sf
		if core.NewRand(core.Mix(c.Seed, "C06-fd-limit", c.Index)).P(1, 3) {
			// the same view from the disk, with room for only a few dozen
			// more open files in the process: a sender holds a file open
			// while it sends it, not longer
			dir := filepath.Join(c.Dir, "src-fanout")
			if os.Mkdir(dir, 0755) == nil && tree.Materialise(dir, t) == nil {
				if dfs, err := fsutil.NewFS(dir); err == nil {
					if snap, err := tree.Snapshot(dir, tree.SnapOpt{}); err == nil {
						fs, t = dfs, snap
						fdLimited = true
						r.Count("fanout_sessions_with_a_descriptor_limit", 1)
					}
				}
			}
		}
		want = t.Entries
		for _, e := range t.Entries {
			content[e.Path] = e.Data
		}
	}
	rr := newRefReceiver(mode, invalid, R.Fork())
	rr.ReqLinks = R.P(1, 2)
	if viewKind == "hugefanout" {
		rr.MaxReq = 600
	}
	// a tenth of the sessions that request after the listing use a receiver
	// with one thread of control (all requests are written before anything
	// else is read); with more requests than the sender's pipeline and the
	// stream buffer hold this exhibits known finding K11
	if qr := core.NewRand(core.Mix(c.Seed, "C06-sequential", c.Index)); mode != "onarrival" && invalid == "" && viewKind != "hugefanout" && qr.P(1, 10) {
		rr.Sequential = true
		r.Count("sessions_with_a_sequential_receiver", 1)
	}
	prog := &progressRec{}
	gr := R.Fork()
	cfg := wire.Config{Cap: capn}
	if R.P(1, 2) {
		cfg.Hook = func(end, op string, idx int64, phase int) { jitter(gr, 20) }
	}
	desc := fmt.Sprintf("view=%s script=%s reqlinks=%v invalid=%q cap=%d sequential=%v", viewKind, mode, rr.ReqLinks, invalid, capn, rr.Sequential)
	r.Sample = map[string]any{"config": desc, "entries": len(want)}
	var oldLimit syscall.Rlimit
	if fdLimited {
		if ents, err := os.ReadDir("/proc/self/fd"); err == nil && syscall.Getrlimit(syscall.RLIMIT_NOFILE, &oldLimit) == nil {
			syscall.Setrlimit(syscall.RLIMIT_NOFILE, &syscall.Rlimit{Cur: uint64(len(ents) + 48), Max: oldLimit.Max})
		} else {
			fdLimited = false
		}
	}
	res := runSync(syncOpt{Cfg: cfg, Src: fs, Progress: prog.fn,
		RecvFn: func(ctx context.Context, s fsutil.Stream) error { return rr.run(ctx, s) }})
	if fdLimited {
		syscall.Setrlimit(syscall.RLIMIT_NOFILE, &oldLimit)
	}
	if rr.Sequential && res.Deadlock {
		rr.mu.Lock()
		nreq := len(rr.reqOrder)
		rr.mu.Unlock()
		if nreq > 132 {
			r.ViolateD("sender-stops-reading-requests", map[string]any{"config": desc, "requests_written": nreq}, "%s: a receiver that writes all its requests before it reads content again deadlocks with the sender after %d requests: the sender's four workers and its queue of 128 are full, its request loop is blocked in queue() and nobody reads the stream any more", desc, nreq)
			return r
		}
	}
	if checkHang(r, res, desc) {
		return r
	}
	r.Count("sessions", 1)
	r.AddSet("configs", fmt.Sprintf("%s/%s/%s", viewKind, mode, invalid))
	// every packet of the sender goes through one serialised SendMsg: the
	// harness stream (which dwells inside its calls in half of the sessions)
	// must never see two calls of the sender's endpoint at once
	var sov []string
	for _, o := range res.Pair.Overlaps() {
		if strings.Contains(strings.SplitN(o, "\n", 2)[0], "endpoint S") {
			sov = append(sov, o)
		}
	}
	if len(sov) > 0 {
		r.ViolateD("sender-stream-overlap", map[string]any{"config": desc, "first": trunc(sov, 2)}, "%s: %d overlapping stream calls on the sender's endpoint, first: %s", desc, len(sov), strings.SplitN(sov[0], "\n", 2)[0])
		return r
	}
	rr.mu.Lock()
	defer rr.mu.Unlock()
	det := func() map[string]any {
		var tail []string
		lg := res.Pair.Log()
		if len(lg) > 40 {
			lg = lg[len(lg)-40:]
		}
		for _, e := range lg {
			tail = append(tail, e.String())
		}
		return map[string]any{"config": desc, "log_tail": tail}
	}
	for _, v := range rr.viol {
		r.ViolateD("protocol", det(), "%s: %s", desc, v)
	}
	r.Count("stats_checked", int64(len(rr.stats)))
	r.Count("requests_issued", int64(len(rr.reqOrder)))
	// STAT sequence == view
	if want != nil && (rr.endSeen || res.SendErr == nil) {
		c09Compare(r, "STAT stream ("+desc+")", want, rr.stats, map[bool]string{true: "sub", false: ""}[viewKind == "subdir"])
	}
	if rr.badReq != nil {
		r.Count("invalid_requests", 1)
		if res.SendErr == nil {
			r.ViolateD("invalid-request-accepted", det(), "%s: request for invalid id %d did not fail the send call", desc, *rr.badReq)
		} else {
			r.Nontrivial = true
		}
	} else {
		openFailRequested := false
		for _, id := range rr.reqOrder {
			if openFail != "" && int(id) < len(rr.stats) && rr.stats[id].Path == openFail {
				openFailRequested = true
			}
		}
		if res.SendErr != nil && openFailRequested {
			// the only honest answer to a request for a file that cannot be read
			r.Count("send_failed_on_unopenable_file_as_it_should", 1)
			r.Nontrivial = true
			return r
		}
		if res.SendErr != nil {
			r.ViolateD("send-failed", det(), "%s: Send failed against a conforming receiver: %v", desc, res.SendErr)
		}
		if !rr.endSeen {
			r.ViolateD("protocol", det(), "%s: no end-of-stats marker", desc)
		}
		if rr.finEcho != 1 {
			r.ViolateD("protocol", det(), "%s: FIN echoed %d times (want 1)", desc, rr.finEcho)
		}
		if !rr.eof && res.SendErr == nil {
			r.ViolateD("protocol", det(), "%s: stream did not end cleanly after the FIN echo (recv err %v)", desc, rr.recvErr)
		}
		big := false
		for _, id := range rr.reqOrder {
			if rr.term[id] != 1 {
				r.ViolateD("protocol", det(), "%s: id %d got %d terminators (want exactly 1)", desc, id, rr.term[id])
			}
			var got []byte
			if b := rr.data[id]; b != nil {
				got = b.Bytes()
			}
			p := rr.stats[id].Path
			if exp, ok := content[p]; ok {
				r.Count("file_contents_checked", 1)
				if !bytes.Equal(exp, got) && p == openFail && len(got) == 0 {
					r.ViolateD("open-error-sent-as-empty", det(), "%s: the file %q of the view could not be opened (%v) when id %d was requested; the request was answered with no payload and the terminator, and Send returned %v: the receiver stores an empty file and both ends succeed", desc, p, errInjected, id, res.SendErr)
				} else if !bytes.Equal(exp, got) {
					r.ViolateD("data-mismatch", det(), "%s: DATA for id %d (%q) concatenates to %d bytes that differ from the file's %d bytes", desc, id, p, len(got), len(exp))
				}
				if len(exp) > 32768 {
					big = true
				}
			}
		}
		for id := range rr.data {
			if !rr.requested[id] {
				r.ViolateD("protocol", det(), "%s: DATA for unrequested id %d", desc, id)
			}
		}
		if len(rr.reqOrder) > 0 && (big || len(rr.reqOrder) > 132) {
			r.Nontrivial = true
		}
		if len(rr.reqOrder) > 132 {
			r.Count("sessions_with_more_than_132_requests", 1)
		}
	}
	// progress callbacks
	prog.mu.Lock()
	nl := 0
	for i, v := range prog.vals {
		if i > 0 && v < prog.vals[i-1] {
			r.ViolateD("progress", det(), "%s: progress went backwards (%d after %d)", desc, v, prog.vals[i-1])
			break
		}
		if prog.lasts[i] {
			nl++
			if i != len(prog.vals)-1 {
				r.ViolateD("progress", det(), "%s: a progress call followed the final one", desc)
			}
		}
	}
	if nl != 1 {
		r.ViolateD("progress", det(), "%s: %d final progress calls (want exactly 1)", desc, nl)
	}
	r.Count("progress_calls", int64(len(prog.vals)))
	prog.mu.Unlock()
	r.FP = desc + fmt.Sprint(len(rr.stats), rr.reqOrder)
	return r
}
