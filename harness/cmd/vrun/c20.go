package main

import (
	"bytes"
	"context"
	"encoding/json"
	"fmt"
	"hash/fnv"
	"os"
	"os/exec"
	"runtime"
	"strconv"
	"strings"
	"syscall"
	"time"

	"github.com/tonistiigi/fsutil/types"
	"github.com/tonistiigi/fsutil/util"
	"verif/internal/codec"
	"verif/internal/core"
)

// C20: wire encoding and framing round-trip and never crash on arbitrary
// bytes. The oracles live in internal/codec (shared with the fuzz targets in
// ../../fuzz); this file schedules them.

// c20Obs limits the number of violations per class and case (one witness per
// class is enough; the counters still see everything).
type c20Obs struct {
	*core.Result
	seen map[string]int
}

func (o *c20Obs) Violate(sig, format string, a ...any) {
	o.seen[sig]++
	o.Result.Count("violations_"+sig, 1)
	if o.seen[sig] > 1 {
		return
	}
	o.Result.Violate(sig, format, a...)
}

const (
	c20MaxAnnounce   = 16 << 20  // announced frame lengths in ordinary arbitrary streams
	c20ProbeAnnounce = 256 << 20 // the in-process probe (one case per run)
	c20ChildAS       = 4 << 30   // RLIMIT_AS of every child
)

func c20Values(c *core.Ctx, o *c20Obs) {
	r := c.R
	h := fnv.New64a()
	n := 120
	var xattrOK, bigOK, nonUTF8 bool
	for i := 0; i < n; i++ {
		opt := codec.GenOpt{NoInvalidUTF8: r.P(4, 5)}
		s := codec.GenStat(r, opt)
		before := o.Counters["roundtrip_vt_generic"] + o.Counters["roundtrip_generic_vt"]
		codec.CheckStatValue(o, s)
		if len(s.Xattrs) > 0 && o.Counters["roundtrip_vt_generic"]+o.Counters["roundtrip_generic_vt"] == before+2 {
			xattrOK = true
		}
		if !codec.StatUTF8(s) {
			nonUTF8 = true
			o.Count("values_with_non_utf8_names", 1)
		}
		m, _ := codec.MutateStat(r, s, opt)
		codec.CheckStatValue(o, m)
		codec.CheckStatNotEqual(o, s, m)
		fmt.Fprintf(h, "%s|", codec.DescribeStat(s))
		if len(s.Xattrs) > 0 {
			o.Count("values_with_xattrs", 1)
		}
		if s.Size < 0 || s.ModTime < 0 {
			o.Count("values_with_negative_ints", 1)
		}
	}
	for i := 0; i < n; i++ {
		opt := codec.GenOpt{NoInvalidUTF8: r.P(4, 5)}
		var p *types.Packet
		switch r.Intn(6) {
		case 0:
			p = codec.ProtocolPacket(r, opt)
		case 1:
			p = codec.PacketOfSize(r, core.Pick(r, []int{8, 127, 128, 129, codec.PoolBuf - 1, codec.PoolBuf, codec.PoolBuf + 1, 16383, 16384, 16385}))
		default:
			p = codec.GenPacket(r, opt)
		}
		before := o.Counters["roundtrip_vt_generic"] + o.Counters["roundtrip_generic_vt"]
		codec.CheckPacketValue(o, p)
		if len(p.Data) > codec.PoolBuf {
			o.Count("values_with_payload_over_32k", 1)
			if o.Counters["roundtrip_vt_generic"]+o.Counters["roundtrip_generic_vt"] == before+2 {
				bigOK = true
			}
		}
		if p.Type < 0 || p.Type > 4 {
			o.Count("values_with_unknown_enum", 1)
		}
		if !codec.StatUTF8(p.Stat) {
			o.Count("values_with_non_utf8_names", 1)
		}
		o.AddSet("packet_types", strconv.Itoa(int(p.Type)))
		m, _ := codec.MutatePacket(r, p, opt)
		codec.CheckPacketValue(o, m)
		codec.CheckPacketNotEqual(o, p, m)
		fmt.Fprintf(h, "%s|", codec.DescribePacket(p))
	}
	o.Nontrivial = xattrOK && bigOK
	o.FP = fmt.Sprintf("values:%x", h.Sum64())
	o.Sample = map[string]any{"family": "values", "stats": 2 * n, "packets": 2 * n, "non_utf8_seen": nonUTF8}
}

func c20Sequence(r *core.Rand) []*types.Packet {
	opt := codec.GenOpt{MaxBig: 150 << 10}
	n := r.Range(1, 24)
	var pkts []*types.Packet
	total := 0
	for i := 0; i < n && total < 1200<<10; i++ {
		var p *types.Packet
		switch r.Weighted([]int{6, 4, 2, 2, 1}) {
		case 0:
			p = codec.ProtocolPacket(r, opt)
		case 1:
			p = codec.GenPacket(r, opt)
		case 2:
			p = &types.Packet{}
		case 3:
			p = codec.PacketOfSize(r, codec.PoolBuf+r.Range(-2, 2))
		default:
			p = &types.Packet{Type: types.PACKET_DATA, ID: uint32(r.Intn(100)), Data: r.Bytes(r.Range(codec.PoolBuf+1, 300<<10))}
		}
		total += p.SizeVT() + 4
		pkts = append(pkts, p)
	}
	if r.P(2, 3) {
		// make sure the interesting neighbours occur: big, then empty, then small (the pooled buffer is reused)
		pkts = append(pkts, codec.PacketOfSize(r, codec.PoolBuf+1+r.Intn(40000)), &types.Packet{}, &types.Packet{Type: types.PACKET_REQ, ID: 7},
			&types.Packet{Type: types.PACKET_STAT, Stat: codec.GenStat(r, codec.GenOpt{MaxBig: 1000})})
	}
	return pkts
}

// c20SweepSizes: every encoded frame size up to 8300 bytes and the
// neighbourhoods of the multiples of 4 KiB up to 128 KiB. A buffer-size
// boundary anywhere in the send or receive path is an exact size, which a
// random length hits with probability ~1/size.
func c20SweepSizes() []int {
	var out []int
	for n := 1; n <= 8300; n++ {
		out = append(out, n)
	}
	for m := 3; m <= 32; m++ {
		for d := -8; d <= 8; d++ {
			out = append(out, m*4096+d)
		}
	}
	return out
}

const c20SweepChunks = 160

// c20SizeSweep sends one slice of the size list through SendMsg (the
// reference reader and both decoders look at the bytes in BuildStream) and
// reads it back through RecvMsg.
func c20SizeSweep(c *core.Ctx, o *c20Obs) {
	k := (c.Index/8)*2 + (c.Index%8 - 3)
	if k < 0 {
		return
	}
	r := core.NewRand(core.Mix(c.Seed, "C20-size-sweep", c.Index))
	all := c20SweepSizes()
	per := (len(all) + c20SweepChunks - 1) / c20SweepChunks
	lo := (k % c20SweepChunks) * per
	if lo >= len(all) {
		return
	}
	hi := lo + per
	if hi > len(all) {
		hi = len(all)
	}
	var pkts []*types.Packet
	for _, n := range all[lo:hi] {
		if p := codec.PacketOfSize(r, n); p.SizeVT() == n {
			pkts = append(pkts, p)
		}
		if n > 40 && n < 8300 {
			// the same size as a STAT with a long path
			st := &types.Stat{Path: "p", Mode: 0644, Uid: 1000, Gid: 1000, Size: 1, ModTime: 1500000000123456789}
			p := &types.Packet{Type: types.PACKET_STAT, Stat: st}
			if d := n - p.SizeVT(); d > 0 {
				st.Path = strings.Repeat("p", 1+d)
				for p.SizeVT() > n && len(st.Path) > 1 {
					st.Path = st.Path[:len(st.Path)-1]
				}
			}
			if p.SizeVT() == n {
				pkts = append(pkts, p)
			}
		}
	}
	if len(pkts) == 0 {
		return
	}
	stream, sent := codec.BuildStream(o, pkts)
	if sent {
		cfgs := codec.RecvCfgs(r, len(stream))
		codec.ReadBack(o, stream, pkts, cfgs[0], r.Fork())
	}
	o.Count("exact_frame_sizes_swept", int64(hi-lo))
	o.Count("packets_of_swept_sizes", int64(len(pkts)))
}

func c20Framing(c *core.Ctx, o *c20Obs) {
	c20SizeSweep(c, o)
	if c.Index%8 == 3 {
		for i := 0; i < 20; i++ {
			codec.CheckResend(o, c.R.Fork())
		}
	}
	if c.Index%8 == 4 {
		dr := core.NewRand(core.Mix(c.Seed, "C20-duplex", c.Index))
		for i := 0; i < 10; i++ {
			codec.CheckDuplex(o, dr)
		}
	}
	if c.Index%64 == 43 {
		// (without a size check the sender allocates the claimed size: in
		// this address-space limited child that is a crash, which counts)
		codec.CheckOversizedSend(o)
	}
	r := c.R
	pkts := c20Sequence(r)
	stream, sent := codec.BuildStream(o, pkts)
	if !sent {
		o.Count("framing_cases_without_sendmsg", 1)
	}
	h := fnv.New64a()
	h.Write(stream)
	nonEmpty := 0
	for _, p := range pkts {
		if p.SizeVT() > 0 {
			nonEmpty++
		}
	}
	okStreams := 0
	cfgs := codec.RecvCfgs(r, len(stream))
	for _, cfg := range cfgs {
		if codec.ReadBack(o, stream, pkts, cfg, r.Fork()) {
			okStreams++
		}
		fmt.Fprintf(h, "%s|", cfg)
	}
	// cuts: every kind of position
	bodies, _, _, _ := codec.ParseFrames(stream)
	var bounds []int
	pos := 0
	for _, b := range bodies {
		bounds = append(bounds, pos)
		pos += 4 + len(b)
	}
	bounds = append(bounds, pos)
	for i := 0; i < 8 && len(stream) > 0; i++ {
		k := r.Intn(len(bounds))
		cut := bounds[k]
		switch r.Intn(5) {
		case 0: // boundary
		case 1: // inside the header
			if k < len(bounds)-1 {
				cut += r.Range(1, 3)
			}
		case 2: // right after the header: the body is missing completely
			if k < len(bounds)-1 {
				cut += 4
			}
		default: // inside the body (or header when the body is empty)
			if k < len(bounds)-1 {
				cut += r.Range(1, bounds[k+1]-bounds[k]-1)
			}
		}
		cfg := core.Pick(r, cfgs)
		if cfg.Mode == codec.FragOne && cut > 100<<10 {
			cfg.Mode = codec.FragRandom
		}
		codec.ReadCut(o, stream, pkts, cut, r.P(1, 3), cfg, r.Fork())
		o.Count("cut_streams", 1)
	}
	o.Nontrivial = okStreams >= 3 && nonEmpty >= 1
	o.FP = fmt.Sprintf("framing:%x", h.Sum64())
	o.Sample = map[string]any{"family": "framing", "packets": len(pkts), "stream_bytes": len(stream), "readers": len(cfgs), "via_sendmsg": sent}
}

func c20Decode(c *core.Ctx, o *c20Obs) {
	r := c.R
	h := fnv.New64a()
	n := 400
	acc, rej := 0, 0
	for i := 0; i < 2*n; i++ {
		packet := i%2 == 1
		in, recipe := codec.ArbitraryInput(r, packet)
		o.AddSet("input_recipes", recipe)
		if codec.CheckUnmarshal(o, packet, in) {
			acc++
		} else {
			rej++
		}
		h.Write(in)
	}
	// map entries whose inner lengths reach beyond the entry (not beyond the
	// message): the allocation must still be bounded by the input
	ns := []int{1, 40}
	if c.Index%32 == 5 {
		ns = append(ns, 1500+r.Intn(1500)) // large enough to pass the (generous) bound
	}
	for _, n := range ns {
		in := codec.OverlapStat(r, n)
		ob := codec.RenameObs{Obs: o, From: codec.SigUnmAlloc, To: "vt-map-entry-overrun"}
		codec.CheckUnmarshal(ob, false, in)
		o.Count("inputs_with_overrunning_map_entries", 1)
	}
	// valid but non-canonical encodings of known values (field order, repeated
	// scalars, explicit defaults, map entries without key or value or with the
	// value first, repeated map keys, an embedded stat split in two): every
	// decoder must produce the value the bytes encode
	for i := 0; i < n/2; i++ {
		gopt := codec.GenOpt{NoUnknown: true, MaxBig: 600, NoInvalidUTF8: i%4 != 0}
		if i%2 == 0 {
			codec.CheckNoncanon(o, r, false, codec.GenStat(r, gopt), nil)
		} else {
			codec.CheckNoncanon(o, r, true, nil, codec.GenPacket(r, gopt))
		}
	}
	o.Nontrivial = acc > 0 && rej > 0
	o.FP = fmt.Sprintf("decode:%x", h.Sum64())
	o.Sample = map[string]any{"family": "decode", "inputs": 2 * n, "accepted": acc, "rejected": rej}
}

type c20ProbeOut struct {
	Err      string `json:"err"`
	Alloc    uint64 `json:"alloc"`
	Supplied int    `json:"supplied"`
}

// c20HugeProbe runs RecvMsg on "<announce as 4 bytes> 01 02 03" in a child
// whose address space is limited, so that an implementation which allocates
// the announced length cannot hurt the machine.
func c20HugeProbe(o *c20Obs, announce uint32) {
	exe, err := os.Executable()
	if err != nil {
		o.Count("hugeframe_probe_not_run", 1)
		return
	}
	ctx, cancel := context.WithTimeout(context.Background(), 90*time.Second)
	defer cancel()
	cmd := exec.CommandContext(ctx, exe, "c20-hugeframe", strconv.FormatUint(uint64(announce), 10), strconv.FormatUint(3<<30, 10))
	var stdout, stderr bytes.Buffer
	cmd.Stdout, cmd.Stderr = &stdout, &stderr
	cmd.Env = append(os.Environ(), "GOMAXPROCS=1", "GOTRACEBACK=single")
	runErr := cmd.Run()
	if ctx.Err() != nil {
		o.Count("hugeframe_probe_not_run", 1)
		return
	}
	stream := fmt.Sprintf("%08x010203", announce)
	if runErr != nil {
		msg := stderr.String()
		if strings.Contains(msg, "c20-hugeframe: setup") {
			o.Count("hugeframe_probe_not_run", 1)
			return
		}
		if len(msg) > 600 {
			msg = msg[:600]
		}
		o.Count("hugeframe_probe_process_died", 1)
		o.Count("violations_"+codec.SigRecvAlloc, 1)
		// not subject to the one-witness-per-class limit: this is the strongest witness
		o.Result.Violate(codec.SigRecvAlloc, "RecvMsg on the 7-byte stream %s (a header announcing %d bytes, then 3 bytes, then EOF) killed a process limited to 3 GiB of address space (%v): the announced length is allocated before anything is read\n%s", stream, announce, runErr, msg)
		return
	}
	var out c20ProbeOut
	if json.Unmarshal(stdout.Bytes(), &out) != nil {
		o.Count("hugeframe_probe_not_run", 1)
		return
	}
	o.Count("hugeframe_probe_returned", 1)
	if out.Err == "" {
		o.Violate(codec.SigEOF, "RecvMsg returned a packet from the 7-byte stream %s", stream)
	}
	if b := codec.RecvBound(out.Supplied); out.Alloc > b {
		o.Violate(codec.SigRecvAlloc, "RecvMsg on the 7-byte stream %s (a header announcing %d bytes, then 3 bytes, then EOF) allocated %d bytes (bound %d); it returned %q", stream, announce, out.Alloc, b, out.Err)
	}
}

func c20HugeFrameMain(args []string) int {
	if len(args) < 2 {
		return 2
	}
	ann, _ := strconv.ParseUint(args[0], 10, 32)
	lim, _ := strconv.ParseUint(args[1], 10, 64)
	rl := syscall.Rlimit{Cur: lim, Max: lim}
	if err := syscall.Setrlimit(syscall.RLIMIT_AS, &rl); err != nil {
		fmt.Fprintln(os.Stderr, "c20-hugeframe: setup:", err)
		return 3
	}
	stream := append(codec.Header(nil, uint32(ann)), 1, 2, 3)
	rd := bytes.NewReader(stream)
	s := util.NewProtoStream(context.Background(), rd, os.Stderr)
	var p types.Packet
	var err error
	alloc := codec.AllocBytes(func() { err = s.RecvMsg(&p) })
	out := c20ProbeOut{Alloc: alloc, Supplied: len(stream) - rd.Len()}
	if err != nil {
		out.Err = err.Error()
	}
	b, _ := json.Marshal(out)
	fmt.Println(string(b))
	return 0
}

func c20Streams(c *core.Ctx, o *c20Obs) {
	r := c.R
	h := fnv.New64a()
	n := 150
	for i := 0; i < n; i++ {
		stream, recipe := codec.ArbitraryStream(r, c20MaxAnnounce)
		for _, k := range strings.Split(recipe, ",") {
			o.AddSet("stream_recipes", k)
		}
		cfg := core.Pick(r, codec.RecvCfgs(r, len(stream)))
		cfg.Reuse = false
		codec.CheckRecvStream(o, stream, cfg, r.Fork(), c20MaxAnnounce, true)
		h.Write(stream)
	}
	if c.Index%64 == 39 {
		// several streams of this process received at the same time (the
		// child runs with one P for the allocation accounting: lifted here)
		prev := runtime.GOMAXPROCS(8)
		codec.CheckConcurrentStreams(o, r.Fork(), 24, 30)
		runtime.GOMAXPROCS(prev)
		runtime.GC()
	}
	// the designated probes of frames announcing far more than they carry
	switch c.Index {
	case 7:
		stream := append(codec.Header(nil, c20ProbeAnnounce), 1, 2, 3)
		codec.CheckRecvStream(o, stream, codec.RecvCfg{Mode: codec.FragWhole}, r.Fork(), c20ProbeAnnounce, true)
		o.Count("hugeframe_probe_256MiB_in_process", 1)
		runtime.GC()
	case 23, 31:
		// the same announcement with a good part of the body present: more
		// than one pooled buffer has been filled when the stream ends, and
		// the allocation must still follow what was received
		present := map[int]int{23: codec.PoolBuf, 31: 70000}[c.Index]
		stream := append(codec.Header(nil, c20ProbeAnnounce), r.Bytes(present)...)
		codec.CheckRecvStream(o, stream, codec.RecvCfg{Mode: codec.FragWhole}, r.Fork(), c20ProbeAnnounce, true)
		o.Count("hugeframe_probe_256MiB_with_body_part_present", 1)
		runtime.GC()
	case 15:
		c20HugeProbe(o, 0xFFFFFFFF)
	}
	o.Nontrivial = o.Counters["arbitrary_frames_decoded"] > 0 && o.Counters["incomplete_frames_rejected"] > 0
	o.FP = fmt.Sprintf("streams:%x", h.Sum64())
	o.Sample = map[string]any{"family": "streams", "streams": n}
}

func init() {
	core.Aux["c20-hugeframe"] = c20HugeFrameMain
	core.Register(&core.Prop{
		ID:    "C20",
		Level: "exploration",
		Rule: "Plus duplex use of one stream object (10 pairs in every eighth case): a RecvMsg stalled by its reader inside a frame (cut in the header or the body) while a SendMsg of the same object completes, and a SendMsg stalled by its writer in the middle of a Write while a RecvMsg completes; received packets and written frames are compared with what was sent. Framing cases also sweep exact frame sizes: every encoded size up to 8300 bytes and the neighbourhoods (+-8) of the multiples of 4 KiB up to 128 KiB, as DATA and as STAT packets. cases are dealt round-robin to four families (index mod 8: 0-2 values, 3-4 framing, 5-6 decode, 7 streams), all inputs from the case PRNG. " +
			"values: 120 generated Stat + 120 generated Packet values (empty, extreme and negative ints, unknown enum values, valid and non-UTF-8 names, xattr maps with nil/empty/70 KB values and up to 300 entries, payloads around and above 32 KiB, well-formed unknown fields) and one mutant of each; every value goes vt->vt, vt->generic runtime, generic->vt, through the Marshal/Unmarshal/MarshalTo*/Size/Clone entry points, and is compared with the harness's own field-wise comparator (EqualVT and proto.Equal must agree with it, and must tell a value from its mutant). " +
			"framing: a sequence of 1-28 packets (protocol-shaped, generated, empty, encodings of exactly 32 KiB-2..+2, payloads up to 300 KiB) is written with SendMsg, the bytes are checked by a reference frame parser and a generic-runtime decoder, then read back with RecvMsg through 5-6 readers (whole, 1-byte, random chunks, fixed chunk, (0,nil) reads, data together with EOF; fresh packets or one packet ResetVT between calls); every slice RecvMsg handed to Read is overwritten with 0xFF after the call and all packets are compared again then and at the end of the stream; then io.EOF; 8 cuts per stream (boundary / inside header / inside body, plain EOF or injected read error). " +
			"decode: 800 byte strings (random, tag soup, mutated/truncated/spliced valid encodings, huge length varints, nesting to depth 50000, repeated fields, odd map entries, up to 300 KB) into Stat.Unmarshal and Packet.Unmarshal with panic capture and a TotalAlloc delta per call; accepted inputs must re-encode and decode (vt) to the same value. " +
			"decode also: 200 valid but non-canonical encodings per case of generated values (fields in any order, scalars written twice - the last counts -, defaults written explicitly, map entries without key or value or value-first, repeated map keys, an embedded stat split over two occurrences), built by the harness's own encoder so that the encoded value is known; Unmarshal, UnmarshalVT and the generic runtime must all return it. " +
			"streams: 150 arbitrary frame streams (valid, arbitrary and empty bodies; clean end, partial header, or a last frame announcing up to 16 MiB with 0-199 bytes present) into RecvMsg, compared call by call with the reference (split at the big-endian length, decode the body), allocation per call bounded by the bytes the reader supplied; every 64th case additionally receives 24 streams of 30 pattern-filled DATA packets (32 KiB - 512 KiB) at the same time in one process (8 Ps) and compares every packet with its own stream's frames; case 7 additionally runs a 256 MiB announcement in-process (cases 23 and 31: the same with 32 KiB / 70 000 bytes of the body present) and case 15 a 4 GiB announcement in a sub-process limited to 3 GiB of address space. " +
			"non-trivial: values = a Stat with xattrs and a Packet with a payload over 32 KiB completed all three round trips; framing = at least 3 readers returned the whole sequence and it had a non-empty packet; decode = at least one input accepted and one rejected; streams = at least one arbitrary frame decoded and one incomplete frame rejected. distinct by hash of the generated values / stream and readers / inputs",
		Assumptions: []string{
			"equality of values is proto3 equality: nil and empty bytes/maps are the same value, presence of the stat sub-message matters, unknown fields compare per field number",
			"'over-allocates' is read as: one Unmarshal call allocates more than 512*len(input)+64 KiB (design bound); one RecvMsg call allocates more than that bound computed on the bytes the reader supplied, plus one 32 KiB pooled buffer. Allocation is the runtime's TotalAlloc delta around the call in a child that runs its cases sequentially (GOMAXPROCS=1); on excess the call is repeated and the minimum is taken, so background allocation cannot raise an alarm",
			"a receiver that reuses a packet calls ResetVT between RecvMsg calls (receive.go); the payload slice is then reused by design, so in that mode the payload is copied right after the poisoning step and the retained Stat pointers are re-checked at the end",
			"at a frame boundary the end of the stream must surface as io.EOF (receive.go compares with ==); inside a frame any non-nil error other than io.EOF is accepted and io.ErrUnexpectedEOF is only counted",
			"the two decoders are not compared with each other on malformed input (the statement only demands value-or-error there); disagreements are counted as diag_*",
			"values whose unknown fields are not well-formed protobuf (reachable only by lenient decoding of garbage) are required to survive the vt codec only",
			"announced frame lengths are capped at 16 MiB (256 MiB once per run, 4 GiB once per run in a sub-process with RLIMIT_AS) to protect the machine",
		},
		Cases: func(tier string) int {
			if tier == "thorough" {
				return 48000
			}
			return 640
		},
		Batch: 8,
		BatchInit: func(string) error {
			// A framing bug can desynchronise the reader, and the next "header" then announces up to
			// 4 GiB. Cap the address space of the child so that such a run ends in a reported crash
			// instead of exhausting the machine (16 children run in parallel).
			rl := syscall.Rlimit{Cur: c20ChildAS, Max: c20ChildAS}
			syscall.Setrlimit(syscall.RLIMIT_AS, &rl)
			return nil
		},
		CaseTimeout: 180 * time.Second,
		Env:         []string{"GOMAXPROCS=1"},
		MinNontrivial: func(tier string) int {
			if tier == "thorough" {
				return 14000
			}
			return 560
		},
		Run: func(c *core.Ctx) *core.Result {
			o := &c20Obs{Result: &core.Result{}, seen: map[string]int{}}
			switch c.Index % 8 {
			case 0, 1, 2:
				c20Values(c, o)
			case 3, 4:
				c20Framing(c, o)
			case 5, 6:
				c20Decode(c, o)
			default:
				c20Streams(c, o)
			}
			o.Count("cases_"+strings.SplitN(o.FP, ":", 2)[0], 1)
			return o.Result
		},
	})
}
