package main

import (
	"context"
	"fmt"
	"hash/fnv"
	gofs "io/fs"
	"os"
	"path/filepath"
	"sort"
	"strings"

	"github.com/tonistiigi/fsutil"
	"github.com/tonistiigi/fsutil/types"
	"verif/internal/core"
	"verif/internal/refs"
	"verif/internal/tree"
)

// C10: filtered walk == naive reference; pruning unobservable; map function.

func filterTreeOpt() tree.GenOpt {
	return tree.GenOpt{MaxEntries: 18, MaxDepth: 3, MaxFanout: 5, Names: refs.FilterNames, Types: "fdl", Owners: []uint32{0}, MaxSize: 64, Deep: true}
}

type c10event struct {
	Kind string // map | report
	Path string
	Res  int
	UID  uint32
}

func mapResult(salt uint64, p string) fsutil.MapResult {
	h := fnv.New64a()
	fmt.Fprintf(h, "%d|%s", salt, p)
	switch v := h.Sum64() % 20; {
	case v < 14:
		return fsutil.MapResultKeep
	case v < 17:
		return fsutil.MapResultExclude
	default:
		return fsutil.MapResultSkipDir
	}
}

func rewriteUID(salt uint64, p string) uint32 {
	h := fnv.New32a()
	fmt.Fprintf(h, "u%d|%s", salt, p)
	return 100000 + h.Sum32()%50000
}

// c10Walk runs the real filtered walk and records map calls and reports.
func c10Walk(root string, opt *fsutil.FilterOpt) ([]c10event, error) {
	var evs []c10event
	if opt != nil && opt.Map != nil {
		inner := opt.Map
		o := *opt
		o.Map = func(p string, st *types.Stat) fsutil.MapResult {
			res := inner(p, st)
			evs = append(evs, c10event{Kind: "map", Path: p, Res: int(res), UID: st.Uid})
			return res
		}
		opt = &o
	}
	err := fsutil.WalkDir(context.Background(), root, opt, func(p string, d gofs.DirEntry, err error) error {
		if err != nil {
			return err
		}
		fi, err := d.Info()
		if err != nil {
			return err
		}
		st := fi.Sys().(*types.Stat)
		evs = append(evs, c10event{Kind: "report", Path: p, UID: st.Uid})
		return nil
	})
	return evs, err
}

func reports(evs []c10event) []string {
	var out []string
	for _, e := range evs {
		if e.Kind == "report" {
			out = append(out, e.Path)
		}
	}
	return out
}

func eqStrings(a, b []string) bool {
	if len(a) != len(b) {
		return false
	}
	for i := range a {
		if a[i] != b[i] {
			return false
		}
	}
	return true
}

// k1Triage compares an observed listing with the listing derived from the
// naive selection; if it differs but equals the one derived from the
// incremental-unpruned selection (and the two selections differ) the
// mismatch is the known patternmatcher finding K1.
func k1Triage(r *core.Result, what string, observed []string, expect func(sel map[string]bool) []string, naive, incr map[string]bool, detail any) {
	want := expect(naive)
	if eqStrings(observed, want) {
		return
	}
	if !refs.SameSet(naive, incr) && eqStrings(observed, expect(incr)) {
		r.Count("k1_cases", 1)
		r.ViolateD("K1-patternmatcher-parent-memo", detail, "%s: listing differs from the naive reference but equals incremental matching of moby/patternmatcher (MatchesUsingParentResults loses the parent match of a skipped pattern)\nwant %q\ngot  %q", what, want, observed)
		return
	}
	r.ViolateD("filter-mismatch", detail, "%s differs from the reference filter\nwant %q\ngot  %q", what, want, observed)
}

func init() {
	core.Register(&core.Prop{
		ID:    "C10",
		Level: "exploration",
		Rule: "The pattern generator also emits shapes whose '{', '|', '}' or U+FFFD reach the regular expression the matcher compiles (the name pool has a name that is not valid UTF-8). random trees over a sibling-confusable name universe (a, ab, a-b, 'a b', .c, ...) x include/exclude lists drawn from a grammar (literals, *, ?, **, classes, escapes, trailing /*, /**, /, negations, duplicates, 0-4 each) x map functions {none, keep-all, keep-all+rewrite, mixed keep/exclude/skipdir}; the real fsutil.WalkDir callback sequence is compared with the naive reference (fresh matcher per entry on the full listing + ancestors). " +
			"non-trivial = the patterns select a proper non-empty subset of the tree or a map result other than keep was returned; distinct by (tree, patterns, map mode) fingerprint",
		Assumptions: []string{"pattern syntax and single-pattern matching are those of moby/patternmatcher (same library on both sides, fresh matcher per decision in the reference)", "map functions are stateless"},
		Cases: func(tier string) int {
			if tier == "thorough" {
				return 4000000
			}
			return 20000
		},
		Batch:         400,
		MinNontrivial: func(tier string) int { return 1000 },
		Run:           c10Run,
	})
}

func c10Run(c *core.Ctx) *core.Result {
	r := &core.Result{}
	t := tree.Gen(c.R, filterTreeOpt())
	src := filepath.Join(c.Dir, "src")
	os.Mkdir(src, 0755)
	if err := tree.Materialise(src, t); err != nil {
		r.Inconclusive = "materialise: " + err.Error()
		return r
	}
	items := refs.Items(t)
	inc := refs.GenPatterns(c.R, 3, true, t.Paths()...)
	exc := refs.GenPatterns(c.R, 4, true, t.Paths()...)
	if c.R.P(1, 6) {
		inc = nil
	}
	if c.R.P(1, 6) {
		exc = nil
	}
	mode := c.R.Weighted([]int{5, 1, 2, 4}) // none, keepall, keepall+rewrite, mixed
	salt := c.R.U64()
	// option combination: FollowPaths next to IncludePatterns. The follow
	// paths are documented as "resolved into IncludePatterns": the reference
	// evaluates the caller's list followed by the resolved targets (their
	// resolution by fsutil.FollowLinks is C18's subject), in that order.
	userInc := inc
	var follow []string
	if len(items) > 0 && c.R.P(1, 8) {
		for i, n := 0, c.R.Range(1, 2); i < n; i++ {
			follow = append(follow, items[c.R.Intn(len(items))].Path)
		}
		if base, e := fsutil.NewFS(src); e == nil {
			if tg, e := fsutil.FollowLinks(base, follow); e == nil && len(tg) > 0 {
				inc = append(append([]string{}, inc...), tg...)
				r.Count("follow_paths_with_include_patterns", 1)
				if len(userInc) > 0 {
					r.Count("follow_paths_next_to_nonempty_include_list", 1)
				}
			} else if e == nil && tg == nil {
				// a follow path reaches the root: everything is needed, the
				// caller's own include list no longer restricts anything
				inc = nil
				r.Count("follow_paths_reaching_the_root", 1)
			} else {
				follow = nil
			}
		} else {
			follow = nil
		}
	}
	if follow == nil && core.NewRand(core.Mix(c.Seed, "C10-empty-follow", c.Index)).P(1, 10) {
		// a follow list that is there but empty (a decoded "[]"): nothing is
		// followed, the caller's patterns apply as they are
		follow = []string{}
		r.Count("empty_non_nil_follow_lists", 1)
	}
	naive, err := refs.SelectNaive(items, inc, exc)
	opt := &fsutil.FilterOpt{IncludePatterns: userInc, ExcludePatterns: exc, FollowPaths: follow}
	if err != nil {
		// invalid pattern: the real constructor must refuse it too
		if _, e2 := c10Walk(src, opt); e2 == nil {
			r.Violate("filter-badpattern", "patterns inc=%q exc=%q are invalid (%v) but the walk accepted them", inc, exc, err)
		}
		r.Count("invalid_pattern_lists", 1)
		r.FP = fmt.Sprintf("invalid:%q%q", inc, exc)
		return r
	}
	incr, err := refs.SelectIncremental(items, inc, exc)
	if err != nil {
		r.Inconclusive = "incremental reference: " + err.Error()
		return r
	}
	sample := map[string]any{"tree": t.Paths(), "include": userInc, "follow": follow, "include_with_resolved_follow_targets": inc, "exclude": exc, "map": []string{"none", "keepall", "keepall+rewrite", "mixed"}[mode]}
	r.Sample = sample
	r.FP = fmt.Sprintf("%s|%q|%q|%d", t.Fingerprint(), inc, exc, mode)
	nsel := len(refs.WithAncestors(items, naive))
	r.Nontrivial = nsel > 0 && nsel < len(items)
	r.Count("entries", int64(len(items)))

	// the filter on top of a composite of named sub-roots (the build-context
	// shape): the reference is evaluated on the prefixed listing; pruning one
	// sub-root must not touch the ones that follow
	if mode == 0 && len(follow) == 0 && c.R.P(1, 10) {
		names := []string{"s1", "s1-x", "s2", "t"}
		core.Shuffle(c.R, names)
		names = names[:c.R.Range(2, 4)]
		sort.Strings(names)
		base, err := fsutil.NewFS(src)
		if err != nil {
			r.Inconclusive = err.Error()
			return r
		}
		var dirs []fsutil.Dir
		var citems []refs.Item
		var cpaths []string
		for _, nm := range names {
			dirs = append(dirs, fsutil.Dir{FS: base, Stat: &types.Stat{Path: nm, Mode: uint32(os.ModeDir | 0755)}})
			citems = append(citems, refs.Item{Path: nm, IsDir: true})
			cpaths = append(cpaths, nm)
			for _, it := range items {
				citems = append(citems, refs.Item{Path: nm + "/" + it.Path, IsDir: it.IsDir})
				cpaths = append(cpaths, nm+"/"+it.Path)
			}
		}
		sfs, err := fsutil.SubDirFS(dirs)
		if err != nil {
			r.Inconclusive = err.Error()
			return r
		}
		cinc := refs.GenPatterns(c.R, 3, true, cpaths...)
		cexc := refs.GenPatterns(c.R, 4, true, cpaths...)
		if c.R.P(1, 3) {
			cinc = nil
		}
		if c.R.P(1, 6) {
			cexc = nil
		}
		if c.R.P(1, 2) {
			// a whole sub-root that is not the last one is excluded
			cexc = append(cexc, names[c.R.Intn(len(names)-1)])
		}
		cnaive, err := refs.SelectNaive(citems, cinc, cexc)
		if err != nil {
			r.Count("invalid_pattern_lists", 1)
			return r
		}
		cincr, err := refs.SelectIncremental(citems, cinc, cexc)
		if err != nil {
			r.Inconclusive = "incremental reference: " + err.Error()
			return r
		}
		ffs, err := fsutil.NewFilterFS(sfs, &fsutil.FilterOpt{IncludePatterns: cinc, ExcludePatterns: cexc})
		if err != nil {
			r.Violate("filter-error", "NewFilterFS over SubDirFS failed: %v", err)
			return r
		}
		sts, err := walkStats(ffs, "/")
		if err != nil {
			r.Violate("filter-error", "filtered walk of a composite of sub-roots failed: %v (inc=%q exc=%q)", err, cinc, cexc)
			return r
		}
		var got []string
		for _, st := range sts {
			got = append(got, st.Path)
		}
		csample := map[string]any{"tree": t.Paths(), "sub_roots": names, "include": cinc, "exclude": cexc}
		r.Sample = csample
		r.FP += "|composite|" + fmt.Sprintf("%q%q%q", names, cinc, cexc)
		r.Count("composite_walks", 1)
		n := len(refs.WithAncestors(citems, cnaive))
		r.Nontrivial = n > 0 && n < len(citems)
		k1Triage(r, fmt.Sprintf("filtered walk over SubDirFS%q", names), got, func(sel map[string]bool) []string { return refs.WithAncestors(citems, sel) }, cnaive, cincr, csample)
		return r
	}
	// a filtered walk of a sub-target: the restriction of the reference to the
	// target and what lies below it (ancestors above the target are not part
	// of such a walk)
	if mode == 0 && c.R.P(1, 4) {
		var dirs []string
		for _, it := range items {
			if it.IsDir {
				dirs = append(dirs, it.Path)
			}
		}
		if len(dirs) > 0 {
			target := core.Pick(c.R, dirs)
			var sub []refs.Item
			for _, it := range items {
				if it.Path == target || strings.HasPrefix(it.Path, target+"/") {
					sub = append(sub, it)
				}
			}
			subIncr, err := refs.SelectIncremental(sub, inc, exc)
			if err != nil {
				r.Inconclusive = "incremental reference: " + err.Error()
				return r
			}
			base, err := fsutil.NewFS(src)
			if err != nil {
				r.Inconclusive = err.Error()
				return r
			}
			ffs, err := fsutil.NewFilterFS(base, opt)
			if err != nil {
				r.Violate("filter-error", "NewFilterFS failed: %v", err)
				return r
			}
			sts, err := walkStats(ffs, target)
			if err != nil {
				r.Violate("filter-error", "filtered walk of sub-target %q failed: %v (inc=%q exc=%q)", target, err, inc, exc)
				return r
			}
			var got []string
			for _, st := range sts {
				got = append(got, st.Path)
			}
			sample["target"] = target
			r.FP += "|target=" + target
			r.Count("subtarget_walks", 1)
			k1Triage(r, fmt.Sprintf("filtered walk of sub-target %q", target), got, func(sel map[string]bool) []string { return refs.WithAncestors(sub, sel) }, naive, subIncr, sample)
			return r
		}
	}
	// one filter object walked several times: again after a completed walk,
	// re-entrantly from inside a walk's callback, and from another goroutine
	// while a walk is in progress. A walk's result is a function of the tree
	// and the filter, not of what else the object is or was used for.
	if core.NewRand(core.Mix(c.Seed, "C10-object-reuse", c.Index)).P(1, 8) {
		if base, err := fsutil.NewFS(src); err == nil {
			if ffs, err := fsutil.NewFilterFS(base, &fsutil.FilterOpt{IncludePatterns: inc, ExcludePatterns: exc}); err == nil {
				list := func(cb func(n int, p string)) ([]string, error) {
					var out []string
					err := ffs.Walk(context.Background(), "", func(p string, d gofs.DirEntry, err error) error {
						if err != nil {
							return err
						}
						out = append(out, p)
						if cb != nil {
							cb(len(out), p)
						}
						return nil
					})
					return out, err
				}
				first, err1 := list(nil)
				if err1 == nil && len(first) > 0 {
					at := 1 + int(salt%uint64(len(first)))
					var nested, other []string
					var nestedErr, otherErr error
					outer, outerErr := list(func(n int, p string) {
						if n == at {
							nested, nestedErr = list(nil)
							done := make(chan struct{})
							go func() { other, otherErr = list(nil); close(done) }()
							<-done
						}
					})
					r.Count("filter_objects_walked_repeatedly", 1)
					for _, w := range []struct {
						what string
						got  []string
						err  error
					}{{"the walk that was interrupted by others at its entry " + fmt.Sprint(at), outer, outerErr}, {"a walk started from inside another walk's callback", nested, nestedErr}, {"a walk run in another goroutine while one was in progress", other, otherErr}} {
						if w.err != nil || !eqStrings(w.got, first) {
							r.ViolateD("filter-object-reuse", sample, "one filter object (inc=%q exc=%q): %s reports %q (err=%v), the first walk of the object reported %q", inc, exc, w.what, trunc(w.got, 20), w.err, trunc(first, 20))
						}
					}
				}
			}
		}
	}
	switch mode {
	case 0, 1, 2:
		if mode != 0 {
			opt.Map = func(p string, st *types.Stat) fsutil.MapResult {
				if mode == 2 {
					st.Uid = rewriteUID(salt, p)
				}
				return fsutil.MapResultKeep
			}
		}
		evs, err := c10Walk(src, opt)
		if err != nil {
			r.Violate("filter-error", "filtered walk failed: %v (inc=%q exc=%q)", err, inc, exc)
			return r
		}
		got := reports(evs)
		r.Count("reported", int64(len(got)))
		k1Triage(r, "filtered walk", got, func(sel map[string]bool) []string { return refs.WithAncestors(items, sel) }, naive, incr, sample)
		if mode != 0 {
			c10MapClauses(r, evs, t, salt, mode == 2)
		}
	case 3:
		opt.Map = func(p string, st *types.Stat) fsutil.MapResult {
			res := mapResult(salt, p)
			if res == fsutil.MapResultKeep {
				st.Uid = rewriteUID(salt, p)
			}
			return res
		}
		evs, err := c10Walk(src, opt)
		if err != nil {
			r.Violate("filter-error", "filtered walk with map failed: %v", err)
			return r
		}
		got := reports(evs)
		r.Count("reported", int64(len(got)))
		c10MapClauses(r, evs, t, salt, true)
		nonKeep := false
		for _, e := range evs {
			if e.Kind == "map" && e.Res != int(fsutil.MapResultKeep) {
				nonKeep = true
			}
		}
		if nonKeep {
			r.Nontrivial = true
			r.Count("cases_with_exclude_or_skipdir", 1)
		}
		// full simulation where it is unambiguous
		expect := func(sel map[string]bool) []string {
			out, _ := c10Simulate(t, sel, salt)
			return out
		}
		if _, amb := c10Simulate(t, naive, salt); !amb {
			if _, amb2 := c10Simulate(t, incr, salt); !amb2 {
				r.Count("map_cases_fully_predicted", 1)
				k1Triage(r, "filtered walk with map", got, expect, naive, incr, sample)
				// every directly selected entry outside skipped regions is mapped
				c10MappedClause(r, evs, t, naive, incr, salt)
			}
		}
	}
	return r
}

// c10MapClauses checks the clauses that hold for every stateless map function.
func c10MapClauses(r *core.Result, evs []c10event, t *tree.Tree, salt uint64, rewrite bool) {
	last := map[string]c10event{}
	skipDirs := []string{}
	type skipFile struct{ dir, after string }
	var skipFiles []skipFile
	reported := map[string]bool{}
	isDir := map[string]bool{}
	for _, e := range t.Entries {
		isDir[e.Path] = e.Type == tree.Dir
	}
	for _, e := range evs {
		switch e.Kind {
		case "map":
			last[e.Path] = e
			r.Count("map_calls", 1)
			if e.Res == int(fsutil.MapResultSkipDir) {
				if isDir[e.Path] {
					skipDirs = append(skipDirs, e.Path+"/")
				} else {
					skipFiles = append(skipFiles, skipFile{tree.Parent(e.Path), e.Path})
				}
			}
		case "report":
			if reported[e.Path] {
				r.Violate("filter-dup", "%q reported twice", e.Path)
			}
			reported[e.Path] = true
			m, ok := last[e.Path]
			if !ok {
				r.Violate("map-not-consulted", "%q was reported without a preceding map call", e.Path)
				continue
			}
			if m.Res != int(fsutil.MapResultKeep) {
				r.Violate("map-result-ignored", "%q was reported although its last map result was %d", e.Path, m.Res)
			}
			if rewrite && e.UID != rewriteUID(salt, e.Path) {
				r.Violate("map-rewrite-lost", "%q reported with uid %d, the map function rewrote it to %d", e.Path, e.UID, rewriteUID(salt, e.Path))
			}
			for _, sd := range skipDirs {
				if strings.HasPrefix(e.Path, sd) {
					r.Violate("map-skipdir-ignored", "%q reported below directory %q for which the map returned SkipDir", e.Path, sd)
				}
			}
			for _, sf := range skipFiles {
				under := e.Path
				// the sibling (or the sibling directory the entry lives in)
				for tree.Parent(under) != sf.dir && under != "" {
					under = tree.Parent(under)
				}
				if under != "" && tree.Parent(under) == sf.dir && tree.CmpPath(under, sf.after) > 0 {
					r.Violate("map-skipdir-ignored", "%q reported after file %q for which the map returned SkipDir", e.Path, sf.after)
				}
			}
		}
	}
}

// c10Simulate predicts the reported listing for a stateless map. ambiguous is
// set when a lazily emitted (not directly selected) ancestor would get a
// result other than keep: the statement does not fix that case.
func c10Simulate(t *tree.Tree, sel map[string]bool, salt uint64) (out []string, ambiguous bool) {
	emitted := map[string]bool{}
	var skipDirs []string
	type skipFile struct{ dir, after string }
	var skipFiles []skipFile
	inRegion := func(p string) bool {
		for _, sd := range skipDirs {
			if strings.HasPrefix(p, sd) {
				return true
			}
		}
		for _, sf := range skipFiles {
			under := p
			for tree.Parent(under) != sf.dir && under != "" {
				under = tree.Parent(under)
			}
			if under != "" && tree.Parent(under) == sf.dir && tree.CmpPath(under, sf.after) > 0 {
				return true
			}
		}
		return false
	}
	for _, e := range t.Entries {
		if !sel[e.Path] || inRegion(e.Path) {
			continue
		}
		switch mapResult(salt, e.Path) {
		case fsutil.MapResultExclude:
			emitted[e.Path] = true
		case fsutil.MapResultSkipDir:
			emitted[e.Path] = true
			if e.Type == tree.Dir {
				skipDirs = append(skipDirs, e.Path+"/")
			} else {
				skipFiles = append(skipFiles, skipFile{tree.Parent(e.Path), e.Path})
			}
		default:
			var anc []string
			for a := tree.Parent(e.Path); a != ""; a = tree.Parent(a) {
				anc = append([]string{a}, anc...)
			}
			for _, a := range anc {
				if emitted[a] || sel[a] {
					continue
				}
				if mapResult(salt, a) != fsutil.MapResultKeep {
					ambiguous = true
				}
				emitted[a] = true
				out = append(out, a)
			}
			emitted[e.Path] = true
			out = append(out, e.Path)
		}
	}
	return out, ambiguous
}

func c10MappedClause(r *core.Result, evs []c10event, t *tree.Tree, naive, incr map[string]bool, salt uint64) {
	mapped := map[string]int{}
	for _, e := range evs {
		if e.Kind == "map" {
			mapped[e.Path]++
		}
	}
	if !refs.SameSet(naive, incr) {
		return
	}
	// entries the simulation maps: selected and outside skipped regions
	var skipDirs []string
	type skipFile struct{ dir, after string }
	var skipFiles []skipFile
	for _, e := range t.Entries {
		if !naive[e.Path] {
			continue
		}
		in := false
		for _, sd := range skipDirs {
			if strings.HasPrefix(e.Path, sd) {
				in = true
			}
		}
		for _, sf := range skipFiles {
			under := e.Path
			for tree.Parent(under) != sf.dir && under != "" {
				under = tree.Parent(under)
			}
			if under != "" && tree.Parent(under) == sf.dir && tree.CmpPath(under, sf.after) > 0 {
				in = true
			}
		}
		if in {
			if mapped[e.Path] > 0 {
				r.Violate("map-called-in-skipped-region", "%q was passed to the map function although it lies in a region the map function skipped", e.Path)
			}
			continue
		}
		if mapped[e.Path] != 1 {
			r.Violate("map-not-consulted", "directly selected entry %q was mapped %d times (want 1)", e.Path, mapped[e.Path])
		}
		if mapResult(salt, e.Path) == fsutil.MapResultSkipDir {
			if e.Type == tree.Dir {
				skipDirs = append(skipDirs, e.Path+"/")
			} else {
				skipFiles = append(skipFiles, skipFile{tree.Parent(e.Path), e.Path})
			}
		}
	}
}
