package main

import (
	"context"
	"crypto/sha256"
	"encoding/hex"
	"fmt"
	"hash"
	"os"
	"sort"
	"sync"
	"time"

	digestpkg "github.com/opencontainers/go-digest"
	"github.com/tonistiigi/fsutil"
	"github.com/tonistiigi/fsutil/types"
	"verif/internal/core"
	"verif/internal/tree"
	"verif/internal/wire"
)

// ---------------------------------------------------------------------------
// running a sender/receiver pair over the instrumented stream

type syncOpt struct {
	Cfg      wire.Config
	Src      fsutil.FS
	Dest     string
	Recv     fsutil.ReceiveOpt
	Timeout  time.Duration
	Progress func(int, bool)
	// TeardownWhenStuck: when the session becomes quiescent the harness tears
	// the stream down (once) and keeps waiting; only quiescence AFTER the
	// teardown is a deadlock (C04: "return once the stream is torn down").
	TeardownWhenStuck bool
	// EOFOnSendError: when Send returns an error the receiver just sees the
	// end of the stream (a pipe or TCP transport whose sending process goes
	// away) instead of a transport error (gRPC status).
	EOFOnSendError bool
	// OnPair is called with the pair before the calls start.
	OnPair func(p *wire.Pair)
	// SendFn / RecvFn override the real calls (reference peers).
	SendFn func(ctx context.Context, s fsutil.Stream) error
	RecvFn func(ctx context.Context, s fsutil.Stream) error
}

type syncRes struct {
	SendErr, RecvErr error
	Pair             *wire.Pair
	TimedOut         bool
	SendDone         bool
	RecvDone         bool
	// Deadlock: the process became quiescent (every goroutine parked, stacks
	// stable) while a call was still outstanding; Dump holds the goroutines.
	Deadlock                                       bool
	Dump                                           string
	SendDoneBeforeTeardown, RecvDoneBeforeTeardown bool
	// state when the (second) quiescence was seen, before contexts were released
	SendDoneAtDeadlock, RecvDoneAtDeadlock bool
	// StuckUntilTeardown: the session was quiescent before the harness tore
	// the stream down (diagnostic, allowed by C04).
	StuckUntilTeardown bool
	StuckDump          string
}

// runSync models the life cycle of a gRPC bidi stream: when the sender (the
// server handler) returns nil the receiver sees EOF after the buffered
// packets, when it returns an error the receiver's RecvMsg fails; when the
// receiver (the client) returns, the sender's stream context is cancelled.
func runSync(o syncOpt) *syncRes {
	p := wire.NewPair(o.Cfg)
	res := &syncRes{Pair: p}
	if o.Timeout == 0 {
		o.Timeout = 60 * time.Second
	}
	if o.OnPair != nil {
		o.OnPair(p)
	}
	sendFn, recvFn := o.SendFn, o.RecvFn
	if sendFn == nil {
		sendFn = func(ctx context.Context, s fsutil.Stream) error { return fsutil.Send(ctx, s, o.Src, o.Progress) }
	}
	if recvFn == nil {
		recvFn = func(ctx context.Context, s fsutil.Stream) error { return fsutil.Receive(ctx, s, o.Dest, o.Recv) }
	}
	sd := make(chan error, 1)
	rd := make(chan error, 1)
	go func() {
		err := sendFn(p.S.Context(), p.S)
		p.S.MarkReturned()
		if err == nil || o.EOFOnSendError {
			p.S.CloseSend()
		} else {
			p.S.Abort(fmt.Errorf("rpc error: %v", err))
		}
		sd <- err
	}()
	go func() {
		err := recvFn(p.R.Context(), p.R)
		p.R.MarkReturned()
		p.R.CloseSend()
		if !o.Cfg.TeardownKeepsContexts {
			p.S.Cancel()
		}
		rd <- err
	}()
	deadline := time.NewTimer(o.Timeout)
	defer deadline.Stop()
	tick := time.NewTicker(100 * time.Millisecond)
	defer tick.Stop()
	lastSeq, idle := int64(-1), 0
	collect := func(grace time.Duration) {
		g := time.NewTimer(grace)
		defer g.Stop()
		for !(res.SendDone && res.RecvDone) {
			select {
			case err := <-sd:
				res.SendErr, res.SendDone = err, true
			case err := <-rd:
				res.RecvErr, res.RecvDone = err, true
			case <-g.C:
				return
			}
		}
	}
	for !(res.SendDone && res.RecvDone) {
		select {
		case err := <-sd:
			res.SendErr, res.SendDone = err, true
		case err := <-rd:
			res.RecvErr, res.RecvDone = err, true
		case <-tick.C:
			// structural deadlock detection: no stream progress and every
			// goroutine parked with identical stacks in consecutive samples
			if q := p.Seq(); q != lastSeq {
				lastSeq, idle = q, 0
				continue
			}
			idle++
			if idle < 5 {
				continue
			}
			// a call that already returned is not outstanding: drain results first
			drained := false
			select {
			case err := <-sd:
				res.SendErr, res.SendDone, drained = err, true, true
			default:
			}
			select {
			case err := <-rd:
				res.RecvErr, res.RecvDone, drained = err, true, true
			default:
			}
			if drained {
				idle = 0
				continue
			}
			if ok, dump := core.Quiescent(3, 40*time.Millisecond, nil); ok && len(sd) == 0 && len(rd) == 0 {
				if o.TeardownWhenStuck && !res.StuckUntilTeardown {
					res.StuckUntilTeardown = true
					res.SendDoneBeforeTeardown, res.RecvDoneBeforeTeardown = res.SendDone, res.RecvDone
					res.StuckDump = dump
					p.Teardown()
					idle = 0
					continue
				}
				res.Deadlock = true
				res.Dump = dump
				if !res.StuckUntilTeardown {
					res.SendDoneBeforeTeardown, res.RecvDoneBeforeTeardown = res.SendDone, res.RecvDone
				}
				p.Release()
				collect(10 * time.Second)
				return res
			}
		case <-deadline.C:
			res.TimedOut = true
			p.Release()
			collect(10 * time.Second)
			return res
		}
	}
	return res
}

// ---------------------------------------------------------------------------
// notification recorder and the caller's content hasher

type note struct {
	Kind   string      `json:"kind"`
	Path   string      `json:"path"`
	Digest string      `json:"digest,omitempty"`
	Stat   *types.Stat `json:"-"`
	Mode   uint32      `json:"mode,omitempty"`
}

type notifyRec struct {
	mu    sync.Mutex
	notes []note
	// ErrAt >= 0 makes the callback fail at its k-th call.
	ErrAt int
	Hook  func()
}

func newNotifyRec() *notifyRec { return &notifyRec{ErrAt: -1} }

func (n *notifyRec) fn(kind fsutil.ChangeKind, p string, fi os.FileInfo, err error) error {
	if n.Hook != nil {
		n.Hook()
	}
	n.mu.Lock()
	defer n.mu.Unlock()
	if err != nil {
		return err
	}
	if n.ErrAt >= 0 && len(n.notes) == n.ErrAt {
		n.notes = append(n.notes, note{Kind: "error-injected", Path: p})
		return errInjected
	}
	nt := note{Kind: kind.String(), Path: p}
	if fi != nil {
		if st, ok := fi.Sys().(*types.Stat); ok {
			nt.Stat = st.Clone()
			nt.Mode = st.Mode
		}
		if d, ok := fi.(digester); ok {
			nt.Digest = string(d.Digest())
		}
	}
	n.notes = append(n.notes, nt)
	return nil
}

type digester interface{ Digest() digestT }

type digestT = digestpkg.Digest

func (n *notifyRec) list() []note {
	n.mu.Lock()
	defer n.mu.Unlock()
	return append([]note(nil), n.notes...)
}

// headerBytes is the caller's header for an entry: a canonical rendering of
// the stat as sent.
func headerBytes(st *types.Stat) []byte {
	ks := make([]string, 0, len(st.Xattrs))
	for k := range st.Xattrs {
		ks = append(ks, k)
	}
	sort.Strings(ks)
	s := fmt.Sprintf("%q|%d|%d|%d|%d|%d|%q|%d|%d", st.Path, st.Mode, st.Uid, st.Gid, st.Size, st.ModTime, st.Linkname, st.Devmajor, st.Devminor)
	for _, k := range ks {
		s += fmt.Sprintf("|%q=%x", k, st.Xattrs[k])
	}
	return []byte(s)
}

type hasherCfg struct {
	ErrAt int64
	calls int64
	mu    sync.Mutex
	Hook  func()
}

func (h *hasherCfg) fn(st *types.Stat) (hash.Hash, error) {
	if h.Hook != nil {
		h.Hook()
	}
	h.mu.Lock()
	k := h.calls
	h.calls++
	h.mu.Unlock()
	if h.ErrAt >= 0 && k == h.ErrAt {
		return nil, errInjected
	}
	hh := sha256.New()
	hh.Write(headerBytes(st))
	return hh, nil
}

func newHasher() *hasherCfg { return &hasherCfg{ErrAt: -1} }

// expectDigest recomputes "sha256:<hex>" over header + content.
func expectDigest(st *types.Stat, content []byte) string {
	hh := sha256.New()
	hh.Write(headerBytes(st))
	hh.Write(content)
	return "sha256:" + hex.EncodeToString(hh.Sum(nil))
}

// ---------------------------------------------------------------------------
// identity model (C02's definition)

// identityEqual: existence is checked by the caller; type, mode, uid/gid,
// link target / link name, device numbers and, for non-directories, size and
// mtime.
func identityEqual(a, b *tree.Entry) bool {
	// (the permission bits of a symlink cannot be stored: no difference)
	if a.Type != b.Type || (a.Type != tree.Symlink && a.Perm != b.Perm) || a.UID != b.UID || a.GID != b.GID {
		return false
	}
	if a.Type == tree.Symlink && a.Target != b.Target {
		return false
	}
	if a.Type != tree.Symlink && a.Type != tree.Dir && a.LinkTo != b.LinkTo {
		return false
	}
	if (a.Type == tree.Char || a.Type == tree.Block) && (a.Major != b.Major || a.Minor != b.Minor) {
		return false
	}
	if a.Type != tree.Dir {
		if a.Mtime != b.Mtime {
			return false
		}
		if entrySize(a) != entrySize(b) {
			return false
		}
	}
	return true
}

func entrySize(e *tree.Entry) int64 {
	switch e.Type {
	case tree.File:
		if e.Data != nil {
			return int64(len(e.Data))
		}
		return e.Size
	case tree.Symlink:
		return int64(len(e.Target))
	}
	return 0
}

// checkHang turns a structurally detected deadlock into a violation and a
// fired watchdog into an inconclusive case. It returns true if the case ended.
func checkHang(r *core.Result, res *syncRes, desc string) bool {
	if res.Deadlock {
		frames := core.FsutilFrames(res.Dump)
		if len(frames) > 12 {
			frames = frames[:12]
		}
		r.ViolateD("deadlock", map[string]any{"config": desc, "fsutil_goroutines": frames, "all_goroutines": tailStr(res.Dump, 20000), "send_returned": res.SendDoneBeforeTeardown, "recv_returned": res.RecvDoneBeforeTeardown},
			"%s: the session deadlocked: no stream progress and every goroutine parked (send returned=%v, receive returned=%v before the harness tore the stream down)", desc, res.SendDoneBeforeTeardown, res.RecvDoneBeforeTeardown)
		return true
	}
	if res.TimedOut {
		r.Inconclusive = "wall-clock watchdog: session did not finish (" + desc + ")"
		return true
	}
	return false
}
