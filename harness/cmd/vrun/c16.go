package main

import (
	"context"
	"fmt"
	"os"
	"path/filepath"
	"strings"

	"github.com/tonistiigi/fsutil"
	fs "github.com/tonistiigi/fsutil/copy"
	"verif/internal/core"
	"verif/internal/refs"
	"verif/internal/tree"
)

// C16: Copy with include/exclude patterns selects exactly the reference set
// (== what a filtered walk reports) and creates no extra directories.

func init() {
	core.Register(&core.Prop{
		ID:    "C16",
		Level: "exploration",
		Rule: "C10's random trees (sibling-confusable names a, ab, a-b, 'a b', .c, ...; files, dirs, symlinks; depth<=3) with directory metadata made observable (owners {0,1234,65534}, setgid/sticky, user.* xattrs) x include/exclude lists from C10's grammar (literals, *, ?, **, classes, escapes, trailing /*, /**, /, negations, duplicates; 0-3 includes, 0-4 excludes, either list dropped in 1/6 of the cases) x source {whole tree, one sub-directory with CopyDirContents (patterns relative to it)} x destination {empty, populated: a random part of the source's own directories and files (same types, different bytes/targets/metadata/xattrs) plus foreign entries}; " +
			"fs.Copy is run for real; the set of paths it wrote (empty destination: the whole destination listing; populated: new paths plus pre-existing non-directories whose bytes/target changed; pre-existing directories are projected out on both sides) is compared with (1) the naive reference refs.SelectNaive + ancestors and (2) the listing fsutil.Walk reports for the same tree and patterns; every directory the copy created is compared with the source directory's mode, owner and xattrs (timestamps not demanded); written non-directories must carry the source's type, bytes or target; in a populated destination nothing may disappear and every entry that is not selected (and every directory that is not an ancestor of a selection) must be bit-for-bit and mtime-for-mtime what it was. Invalid pattern lists must be refused. One case in eight runs the copy and the walk as uid 1234 over a tree it owns except for up to two directories it may not list (root:root 0700, often named in the exclude list): the reference sees those directories without content; when the filtered walk succeeds the copy must succeed and write the same set, when the walk fails (a selected directory cannot be listed) the copy is not judged. A mismatch that equals the incremental-unpruned reference (moby/patternmatcher parent-memo, K1) is reported under K1's signature, anything else under another one. " +
			"non-trivial = the patterns select a proper non-empty subset of the listing; distinct by (tree, patterns, source, destination kind) fingerprint",
		Assumptions: []string{
			"pattern syntax and single-pattern matching are those of moby/patternmatcher (same library on both sides, fresh matcher per decision in the reference)",
			"runs as root on a file system with user.* xattrs; source and destination are separate directories; the source is not modified during the copy",
			"populated destinations never hold an entry whose type conflicts with a SELECTED source entry of the same path or with an ancestor of one (that is C15's overlay territory); in half of them up to 3 entries of a conflicting type stand at the paths of source entries that no reference selects, and half run with AlwaysReplaceExistingDestPaths: those obstacles must stay untouched and the copy must succeed",
			"metadata of directories that existed before the copy is not judged (the statement speaks of ancestors created on demand)",
		},
		Cases: func(tier string) int {
			if tier == "thorough" {
				return 1000000
			}
			return 5000
		},
		Batch:         250,
		MinNontrivial: func(tier string) int { return 1000 },
		Run:           c16Run,
	})
}

// c16Obstacles puts entries of a conflicting type into the prior destination
// at the paths of source entries that neither reference selects (and that are
// no ancestors of a selection): the copy has no business there, with or
// without always-replace. Returns the obstacle paths.
func c16Obstacles(R *core.Rand, view *tree.Tree, items []refs.Item, inc, exc []string, prior *tree.Tree) []string {
	naive, err := refs.SelectNaive(items, inc, exc)
	if err != nil {
		return nil
	}
	incr, err := refs.SelectIncremental(items, inc, exc)
	if err != nil {
		return nil
	}
	keep := map[string]bool{}
	for _, p := range refs.WithAncestors(items, naive) {
		keep[p] = true
	}
	for _, p := range refs.WithAncestors(items, incr) {
		keep[p] = true
	}
	var cands []*tree.Entry
	for i := range view.Entries {
		e := &view.Entries[i]
		if keep[e.Path] {
			continue
		}
		cands = append(cands, e)
	}
	var out []string
	related := func(a, b string) bool {
		return a == b || strings.HasPrefix(a, b+"/") || strings.HasPrefix(b, a+"/")
	}
	meta := func(e *tree.Entry) {
		e.Perm, e.UID, e.GID = 0640, 4242, 4343
		if e.Type == tree.Dir {
			e.Perm = 0750
		}
		e.Mtime = int64(800_000_000+R.Intn(1000))*1_000_000_000 + 3
	}
	for n := 0; n < 3 && len(cands) > 0; n++ {
		e := cands[R.Intn(len(cands))]
		clash := false
		for _, o := range out {
			if related(o, e.Path) {
				clash = true
			}
		}
		if clash {
			continue
		}
		// the ancestors must be directories in the prior destination
		ok := true
		for a := tree.Parent(e.Path); a != ""; a = tree.Parent(a) {
			if pe := prior.Get(a); pe != nil && pe.Type != tree.Dir {
				ok = false
			}
		}
		if !ok {
			continue
		}
		for a := tree.Parent(e.Path); a != ""; a = tree.Parent(a) {
			if prior.Get(a) == nil {
				d := tree.Entry{Path: a, Type: tree.Dir}
				meta(&d)
				prior.Entries = append(prior.Entries, d)
			}
		}
		// drop what the prior holds at and below the path
		var kept []tree.Entry
		for _, pe := range prior.Entries {
			if !related(pe.Path, e.Path) || len(pe.Path) < len(e.Path) {
				kept = append(kept, pe)
			}
		}
		prior.Entries = kept
		var ob tree.Entry
		if e.Type == tree.Dir {
			switch R.Intn(4) {
			case 0:
				ob = tree.Entry{Path: e.Path, Type: tree.File, Data: []byte("OBSTACLE")}
			case 1:
				ob = tree.Entry{Path: e.Path, Type: tree.Symlink, Perm: 0777, Target: "zz-nowhere"}
			case 2:
				// a link to itself: whatever is looked up below it is ELOOP
				ob = tree.Entry{Path: e.Path, Type: tree.Symlink, Perm: 0777, Target: tree.Base(e.Path)}
			default:
				ob = tree.Entry{Path: e.Path, Type: tree.Symlink, Perm: 0777, Target: "."}
			}
		} else {
			ob = tree.Entry{Path: e.Path, Type: tree.Dir}
		}
		meta(&ob)
		if ob.Type == tree.Symlink {
			ob.Perm = 0777
		}
		prior.Entries = append(prior.Entries, ob)
		if ob.Type == tree.Dir && R.P(1, 2) {
			ch := tree.Entry{Path: ob.Path + "/zz.inner", Type: tree.File, Data: []byte("inner")}
			meta(&ch)
			prior.Entries = append(prior.Entries, ch)
		}
		out = append(out, e.Path)
	}
	prior.Sort()
	return out
}

// c16Prior derives a populated destination from the source view.
func c16Prior(R *core.Rand, view *tree.Tree) *tree.Tree {
	prior := &tree.Tree{}
	in := map[string]bool{"": true}
	pm := func(e *tree.Entry) {
		e.Perm = core.Pick(R, []uint32{0705, 0750, 0770})
		if e.Type != tree.Dir {
			e.Perm = core.Pick(R, []uint32{0606, 0660, 0440})
		}
		e.UID, e.GID = 4242, 4343
		e.Mtime = int64(900_000_000+R.Intn(1000))*1_000_000_000 + 7
		e.Xattrs = nil
		if e.Type != tree.Symlink {
			e.Xattrs = map[string][]byte{"user.prior": []byte("p")}
		}
		e.LinkTo = ""
	}
	for _, e := range view.Entries {
		if !in[tree.Parent(e.Path)] {
			continue
		}
		take := R.P(1, 3)
		if e.Type == tree.Dir {
			take = R.P(1, 2)
		}
		if !take {
			continue
		}
		pe := e.Clone()
		pm(&pe)
		switch pe.Type {
		case tree.Dir:
			in[pe.Path] = true
		case tree.File:
			pe.Data = []byte("PRIOR:" + pe.Path)
		case tree.Symlink:
			pe.Target = "prior-target/" + tree.Base(pe.Path)
		}
		prior.Entries = append(prior.Entries, pe)
	}
	// foreign entries
	for d := range in {
		if !R.P(1, 3) {
			continue
		}
		fe := tree.Entry{Path: joinRel(d, "zz.prior"), Type: tree.File, Data: []byte("foreign")}
		if R.P(1, 3) {
			fe = tree.Entry{Path: joinRel(d, "zz.prior"), Type: tree.Dir}
		}
		pm(&fe)
		prior.Entries = append(prior.Entries, fe)
	}
	prior.Sort()
	return prior
}

func c16Run(c *core.Ctx) *core.Result {
	r := &core.Result{}
	if !needRoot(r) {
		return r
	}
	R := c.R
	o := filterTreeOpt()
	o.Owners = []uint32{0, 1234, 65534}
	o.Special = true
	o.Xattrs = true
	// hard-link groups whose members the patterns may select separately
	o.Links = core.NewRand(core.Mix(c.Seed, "C16-links", c.Index)).P(1, 3)
	// one case in eight runs the copy and the walk as an ordinary user over a
	// tree that holds directories this user may not list (root:root 0700)
	unpriv := core.NewRand(core.Mix(c.Seed, "C16-unpriv", c.Index)).P(1, 8)
	if unpriv {
		o.Owners = []uint32{1234}
		o.Special = false
		o.Xattrs = false
	}
	t := tree.Gen(R, o)
	if unpriv {
		for i := range t.Entries {
			switch e := &t.Entries[i]; e.Type {
			case tree.Dir:
				e.Perm |= 0700
			case tree.File:
				e.Perm |= 0400
			}
		}
	}
	srcDir := filepath.Join(c.Dir, "src")
	dstDir := filepath.Join(c.Dir, core.Pick(core.NewRand(core.Mix(c.Seed, "C16-root-names", c.Index)), []string{"dst", "src-dst"}))
	os.Mkdir(srcDir, 0755)
	os.Mkdir(dstDir, 0755)
	if err := tree.Materialise(srcDir, t); err != nil {
		r.Inconclusive = "materialise: " + err.Error()
		return r
	}
	// source argument: whole tree, or a sub-directory copied with CopyDirContents
	sub := ""
	if R.P(1, 5) {
		var dirs []string
		for _, e := range t.Entries {
			if e.Type == tree.Dir {
				dirs = append(dirs, e.Path)
			}
		}
		if len(dirs) > 0 {
			sub = core.Pick(R, dirs)
		}
	}
	walkRoot := filepath.Join(srcDir, filepath.FromSlash(sub))
	view, err := tree.Snapshot(walkRoot, tree.SnapOpt{})
	if err != nil {
		r.Inconclusive = "snapshot src: " + err.Error()
		return r
	}
	var locked []string
	if unpriv {
		os.Chmod(c.Dir, 0755)
		os.Lchown(dstDir, 1234, 1234)
		var dirs []string
		for _, e := range view.Entries {
			if e.Type == tree.Dir {
				dirs = append(dirs, e.Path)
			}
		}
		core.Shuffle(R, dirs)
		for _, d := range dirs {
			if len(locked) >= 2 {
				break
			}
			under := false
			for _, l := range locked {
				under = under || strings.HasPrefix(d, l+"/") || strings.HasPrefix(l, d+"/")
			}
			if under {
				continue
			}
			full := filepath.Join(walkRoot, filepath.FromSlash(d))
			if os.Lchown(full, 0, 0) != nil || os.Chmod(full, 0700) != nil {
				continue
			}
			locked = append(locked, d)
		}
		// what this user can see: the locked directories without content
		if view, err = tree.Snapshot(walkRoot, tree.SnapOpt{}); err != nil {
			r.Inconclusive = "snapshot src: " + err.Error()
			return r
		}
		for _, l := range locked {
			kept := view.Entries[:0]
			for _, e := range view.Entries {
				if !strings.HasPrefix(e.Path, l+"/") {
					kept = append(kept, e)
				}
			}
			view.Entries = kept
		}
		r.Count("unprivileged_cases", 1)
		r.Count("unlistable_directories", int64(len(locked)))
	}
	items := refs.Items(view)
	inc := refs.GenPatterns(R, 3, true, view.Paths()...)
	exc := refs.GenPatterns(R, 4, true, view.Paths()...)
	if len(locked) > 0 && R.P(1, 2) {
		if l := core.Pick(R, locked); !strings.ContainsAny(l, "*?[]\\!") {
			exc = append(exc, l)
		}
	}
	if R.P(1, 6) {
		inc = nil
	}
	if R.P(1, 6) {
		exc = nil
	}
	if R.P(1, 40) {
		// an invalid pattern (unterminated class): the copy must refuse it
		bad := core.Pick(R, []string{"[", "a[", "a/[b", "**/[a-"})
		if R.P(1, 2) {
			inc = append(inc, bad)
		} else {
			exc = append(exc, bad)
		}
	}
	populated := R.P(2, 5) && !unpriv
	prior := &tree.Tree{}
	var obstacles []string
	if populated {
		prior = c16Prior(R, view)
		if R.P(1, 2) {
			obstacles = c16Obstacles(R, view, items, inc, exc, prior)
		}
		if err := tree.Materialise(dstDir, prior); err != nil {
			r.Inconclusive = "materialise dest: " + err.Error()
			return r
		}
	}
	before, err := tree.Snapshot(dstDir, tree.SnapOpt{})
	if err != nil {
		r.Inconclusive = "snapshot dest: " + err.Error()
		return r
	}
	srcArg := core.Pick(R, []string{"/", "."})
	ci := fs.CopyInfo{}
	if populated && R.P(1, 2) {
		// no selected source entry meets a prior entry of another type, so
		// always-replace has nothing to replace; what is not selected must
		// stay whatever this flag says
		ci.AlwaysReplaceExistingDestPaths = true
		r.Count("populated_with_always_replace", 1)
	}
	if sub != "" {
		srcArg = sub
		ci.CopyDirContents = true
	}
	var opts []fs.Opt
	viaInfo := R.P(1, 2)
	if viaInfo {
		ci.IncludePatterns, ci.ExcludePatterns = inc, exc
		opts = append(opts, fs.WithCopyInfo(ci))
	} else {
		opts = append(opts, fs.WithCopyInfo(ci))
		for _, p := range inc {
			opts = append(opts, fs.WithIncludePattern(p))
		}
		for _, p := range exc {
			opts = append(opts, fs.WithExcludePattern(p))
		}
	}
	kind := "empty"
	if populated {
		kind = "populated"
	}
	sample := map[string]any{"tree": view.Lines(), "sub": sub, "include": inc, "exclude": exc, "dest": kind, "prior": prior.Lines(), "always_replace": ci.AlwaysReplaceExistingDestPaths, "obstacles": obstacles}
	r.Sample = sample
	r.AddSet("configs", fmt.Sprintf("dest=%s sub=%v inc=%v exc=%v", kind, sub != "", len(inc) > 0, len(exc) > 0))

	naive, nerr := refs.SelectNaive(items, inc, exc)
	// the source root as a caller may spell it: the patterns are relative to
	// the copied source whatever the spelling
	srcRootArg := srcDir + core.Pick(core.NewRand(core.Mix(c.Seed, "C16-srcroot-spelling", c.Index)), []string{"", "", "", "/", "/.", "//", "/./"})
	if srcRootArg != srcDir {
		r.Count("source_roots_spelled_unclean", 1)
	}
	// another copy in the same process, beforehand, whose pattern lists read
	// the same when joined with commas (one element "p1,p2" for the elements
	// p1, p2): what this call selects is a function of its own arguments
	if len(inc)+len(exc) >= 2 && core.NewRand(core.Mix(c.Seed, "C16-priming-copy", c.Index)).P(1, 6) {
		pd := filepath.Join(c.Dir, "dst-priming")
		os.Mkdir(pd, 0755)
		pci := fs.CopyInfo{CopyDirContents: ci.CopyDirContents}
		if len(inc) > 0 {
			pci.IncludePatterns = []string{strings.Join(inc, ",")}
		}
		if len(exc) > 0 {
			pci.ExcludePatterns = []string{strings.Join(exc, ",")}
		}
		fs.Copy(context.Background(), srcDir, srcArg, pd, "/", fs.WithCopyInfo(pci))
		os.RemoveAll(pd)
		r.Count("copies_after_a_priming_copy_with_joined_pattern_lists", 1)
	}
	var cerr error
	if unpriv {
		// the filtered walk decides whether this user can process the tree
		// at all (a selected directory that cannot be listed fails both)
		var werr error
		if err := asUser(1234, 1234, func() {
			werr = fsutil.Walk(context.Background(), walkRoot, &fsutil.FilterOpt{IncludePatterns: inc, ExcludePatterns: exc}, func(p string, fi os.FileInfo, err error) error { return err })
			cerr = fs.Copy(context.Background(), srcRootArg, srcArg, dstDir, "/", opts...)
		}); err != nil {
			r.Inconclusive = "cannot switch uid: " + err.Error()
			return r
		}
		if werr != nil && nerr == nil {
			r.Count("unprivileged_walk_fails_copy_not_judged", 1)
			r.FP = fmt.Sprintf("unpriv-walk-failed|%s|%q|%q", view.Fingerprint(), inc, exc)
			return r
		}
		if nerr == nil {
			r.Count("unprivileged_copies_judged", 1)
		}
	} else {
		cerr = fs.Copy(context.Background(), srcRootArg, srcArg, dstDir, "/", opts...)
	}
	r.Count("copies", 1)
	if nerr != nil {
		r.Count("invalid_pattern_lists", 1)
		r.FP = fmt.Sprintf("invalid:%q%q", inc, exc)
		if cerr == nil {
			r.ViolateD("filter-badpattern", sample, "patterns inc=%q exc=%q are invalid (%v) but the copy accepted them", inc, exc, nerr)
		}
		return r
	}
	if cerr != nil && len(obstacles) > 0 {
		// the obstacles stand at paths that nothing selects (and that are no
		// ancestors of a selection): the copy has no business there and has
		// to succeed like the filtered walk does
		r.ViolateD("copy-failed-on-unselected-obstacle", sample, "filtered copy failed although the only conflicts are at unselected paths %q (inc=%q exc=%q): %v", obstacles, inc, exc, cerr)
		return r
	}
	if len(obstacles) > 0 {
		r.Count("copies_over_type_conflicts_at_unselected_paths", 1)
		r.Count("obstacles_placed", int64(len(obstacles)))
	}
	if cerr != nil {
		r.ViolateD("copy-failed", sample, "filtered copy failed on a legal tree and legal patterns (inc=%q exc=%q dest=%s): %v", inc, exc, kind, cerr)
		return r
	}
	incr, err := refs.SelectIncremental(items, inc, exc)
	if err != nil {
		r.Inconclusive = "incremental reference: " + err.Error()
		return r
	}
	r.FP = fmt.Sprintf("%s|%q|%q|%s|%s", view.Fingerprint(), inc, exc, sub, kind)
	nsel := len(refs.WithAncestors(items, naive))
	r.Nontrivial = nsel > 0 && nsel < len(items)
	r.Count("source_entries", int64(len(items)))
	if populated {
		r.Count("populated_destinations", 1)
		r.Count("prior_entries", int64(len(before.Entries)))
	}

	after, err := tree.Snapshot(dstDir, tree.SnapOpt{})
	if err != nil {
		r.Violate("dest-unreadable", "cannot snapshot the destination: %v", err)
		return r
	}
	bi, ai, vi := before.Index(), after.Index(), view.Index()
	priorDir := map[string]bool{}
	for _, e := range before.Entries {
		if e.Type == tree.Dir {
			priorDir[e.Path] = true
		}
		if _, ok := ai[e.Path]; !ok {
			r.ViolateD("copy-deleted", sample, "%q existed in the destination before the copy and is gone", e.Path)
		}
	}
	for _, e := range after.Entries {
		_, inPrior := bi[e.Path]
		_, inSrc := vi[e.Path]
		if !inPrior && !inSrc {
			r.ViolateD("copy-unexpected-path", sample, "%q appeared in the destination; it is neither a source path nor was it there before", e.Path)
		}
	}
	written := func(p string) bool {
		j, ok := ai[p]
		if !ok {
			return false
		}
		k, was := bi[p]
		if !was {
			return true
		}
		a, b := &after.Entries[j], &before.Entries[k]
		if b.Type == tree.Dir && a.Type == tree.Dir {
			return false // projected out
		}
		return a.Type != b.Type || string(a.Data) != string(b.Data) || a.Target != b.Target
	}
	var copied []string
	for _, it := range items {
		if written(it.Path) {
			copied = append(copied, it.Path)
		}
	}
	r.Count("paths_written", int64(len(copied)))
	project := func(l []string) []string {
		var out []string
		for _, p := range l {
			if !priorDir[p] {
				out = append(out, p)
			}
		}
		return out
	}
	expect := func(sel map[string]bool) []string { return project(refs.WithAncestors(items, sel)) }

	// (1) copied set vs reference
	nv := len(r.Viols)
	k1Triage(r, fmt.Sprintf("paths written by the filtered copy (dest=%s)", kind), copied, expect, naive, incr, sample)
	copyOK := len(r.Viols) == nv

	// (2) filtered walk of the same tree with the same patterns
	var walked []string
	var werr error
	doWalk := func() {
		werr = fsutil.Walk(context.Background(), walkRoot, &fsutil.FilterOpt{IncludePatterns: inc, ExcludePatterns: exc}, func(p string, fi os.FileInfo, err error) error {
			if err != nil {
				return err
			}
			walked = append(walked, filepath.ToSlash(p))
			return nil
		})
	}
	if unpriv {
		asUser(1234, 1234, doWalk)
	} else {
		doWalk()
	}
	if werr != nil {
		r.ViolateD("walk-error", sample, "filtered walk of the source failed: %v", werr)
	} else {
		r.Count("walk_paths", int64(len(walked)))
		nv = len(r.Viols)
		k1Triage(r, "filtered walk of the source (same patterns)", project(walked), expect, naive, incr, sample)
		if len(r.Viols) == nv && copyOK {
			// both equal the reference, hence each other
			r.Count("copy_set_equals_walk_set", 1)
		} else if eqStrings(copied, project(walked)) {
			r.Count("copy_set_equals_walk_set", 1)
		}
	}

	// which selection did the copy realise? naive, or K1's incremental one.
	// Pre-existing directories are projected out of the listings, so both
	// may fit; the per-entry clauses are then judged under each candidate:
	// silent if they hold under the naive reference, K1 if they only hold
	// under the incremental one, a violation otherwise.
	type cand struct {
		name string
		sel  map[string]bool
	}
	var cands []cand
	if eqStrings(copied, expect(naive)) {
		cands = append(cands, cand{"naive", naive})
	}
	if !refs.SameSet(naive, incr) && eqStrings(copied, expect(incr)) {
		cands = append(cands, cand{"incremental", incr})
	}
	if len(cands) == 0 {
		return r // already reported; the per-entry clauses need a selection
	}
	var results []*core.Result
	chosen := -1
	for i, cd := range cands {
		cr := c16Clauses(cd.sel, view, before, after, items, priorDir, copied, populated, sample)
		results = append(results, cr)
		if len(cr.Viols) == 0 {
			chosen = i
			break
		}
	}
	if chosen < 0 {
		chosen = 0
	} else if cands[chosen].name == "incremental" && len(cands) > 1 {
		r.Count("k1_cases", 1)
		r.ViolateD("K1-patternmatcher-parent-memo", sample, "the copy touched pre-existing entries that only the incremental matching of moby/patternmatcher selects (MatchesUsingParentResults loses the parent match of a skipped pattern); under the naive reference: %s", results[0].Viols[0].Msg)
	}
	cr := results[chosen]
	r.Viols = append(r.Viols, cr.Viols...)
	for k, v := range cr.Counters {
		r.Count(k, v)
	}
	return r
}

// c16Clauses judges the per-entry clauses of the statement under one selection.
func c16Clauses(sel map[string]bool, view, before, after *tree.Tree, items []refs.Item, priorDir map[string]bool, copied []string, populated bool, sample any) *core.Result {
	r := &core.Result{}
	ai, vi, bi0 := after.Index(), view.Index(), before.Index()
	keep := map[string]bool{}
	for _, p := range refs.WithAncestors(items, sel) {
		keep[p] = true
	}

	// (3) no directory without own match or selected descendant is created;
	// created directories carry the source directory's mode, owner, xattrs
	for _, e := range view.Entries {
		if e.Type != tree.Dir {
			continue
		}
		j, exists := ai[e.Path]
		if !keep[e.Path] {
			if !priorDir[e.Path] {
				r.Count("unselected_dirs_checked_absent", 1)
				if _, was := bi0[e.Path]; exists && !was {
					r.ViolateD("copy-extra-dir", sample, "directory %q neither matches nor has a selected descendant but was created", e.Path)
				}
			}
			continue
		}
		if !exists || priorDir[e.Path] {
			if priorDir[e.Path] {
				r.Count("preexisting_dirs_not_judged", 1)
			}
			continue
		}
		g := &after.Entries[j]
		sig := "selected-dir-meta"
		if !sel[e.Path] {
			sig = "ancestor-meta"
			r.Count("ondemand_ancestors_checked", 1)
		} else {
			r.Count("selected_dirs_checked", 1)
		}
		if g.Type != tree.Dir || g.Perm != e.Perm || g.UID != e.UID || g.GID != e.GID || !tree.XattrEq(e.Xattrs, g.Xattrs) {
			r.ViolateD(sig, sample, "directory %q created by the copy differs from the source directory in mode/owner/xattrs:\nwant %s\ngot  %s", e.Path, e.String(), g.String())
		}
	}
	// (4) written non-directories are the source's entries
	for _, p := range copied {
		e := &view.Entries[vi[p]]
		g := &after.Entries[ai[p]]
		if e.Type == tree.Dir {
			continue
		}
		r.Count("written_entries_compared", 1)
		if g.Type != e.Type || string(g.Data) != string(e.Data) || g.Target != e.Target {
			r.ViolateD("copy-content", sample, "%q was written but is not the source's entry:\nwant %s\ngot  %s", p, e.String(), g.String())
		}
	}
	// (5) nothing else is written: unselected prior entries are untouched
	if populated {
		for _, b := range before.Entries {
			if keep[b.Path] {
				continue
			}
			j, ok := ai[b.Path]
			if !ok {
				continue
			}
			a := &after.Entries[j]
			r.Count("prior_entries_checked_untouched", 1)
			bt := &tree.Tree{Entries: []tree.Entry{b}}
			at := &tree.Tree{Entries: []tree.Entry{*a}}
			m := tree.FullMask()
			m.SymlinkXattrs = true
			if d := tree.Diff(bt, at, m); len(d) > 0 || a.Ino != b.Ino {
				r.ViolateD("copy-touched-unselected", sample, "%q is not selected (nor an ancestor of a selection) but was changed by the copy (inode %d -> %d): %s", b.Path, b.Ino, a.Ino, strings.Join(d, "; "))
			}
		}
	}
	return r
}
