package main

import (
	"bytes"
	"context"
	"fmt"
	"os"
	"path"
	"sort"
	"strings"
	"syscall"
	"time"

	fs "github.com/tonistiigi/fsutil/copy"
	"verif/internal/tree"
)

// Shared pieces of the C14 (containment) and C15 (overlay) monitors.

// cpFlags is the option combination a case runs Copy with.
type cpFlags struct {
	Follow, Wild, Always, CDC bool
	Chown                     bool // WithChown(4321,4321)
	Utime                     bool // fixed Utime
	Mode                      bool // Mode 0640
	// include / exclude patterns (matched against paths relative to the
	// copied source directory)
	Include, Exclude []string
}

func (f cpFlags) String() string {
	var s []string
	for _, x := range []struct {
		on bool
		n  string
	}{{f.Follow, "follow"}, {f.Wild, "wild"}, {f.Always, "always"}, {f.CDC, "cdc"}, {f.Chown, "chown"}, {f.Utime, "utime"}, {f.Mode, "mode"}, {len(f.Include) > 0, "include"}, {len(f.Exclude) > 0, "exclude"}} {
		if x.on {
			s = append(s, x.n)
		}
	}
	if len(s) == 0 {
		return "-"
	}
	return strings.Join(s, "+")
}

var cpFixedTime = time.Unix(1_111_111_111, 0)

func (f cpFlags) info() fs.CopyInfo {
	ci := fs.CopyInfo{
		FollowLinks:                    f.Follow,
		AllowWildcards:                 f.Wild,
		AlwaysReplaceExistingDestPaths: f.Always,
		CopyDirContents:                f.CDC,
	}
	ci.IncludePatterns = append([]string(nil), f.Include...)
	ci.ExcludePatterns = append([]string(nil), f.Exclude...)
	if f.Chown {
		ci.Chown = func(*fs.User) (*fs.User, error) { return &fs.User{UID: 4321, GID: 4321}, nil }
	}
	if f.Utime {
		t := cpFixedTime
		ci.Utime = &t
	}
	if f.Mode {
		m := 0640
		ci.Mode = &m
	}
	return ci
}

func runCopy(srcRoot, src, dstRoot, dst string, f cpFlags) error {
	return fs.Copy(context.Background(), srcRoot, src, dstRoot, dst, fs.WithCopyInfo(f.info()))
}

// copyJailInit builds the sentinel world below dir and chroots into it. The
// runner notices the chroot (the batch scratch path no longer resolves) and
// hands out case directories /c<idx>.
func copyJailInit(build func(dir string) error) func(dir string) error {
	return func(dir string) error {
		if os.Geteuid() != 0 {
			return nil // cases report "needs root" as inconclusive
		}
		if build != nil {
			if err := build(dir); err != nil {
				return err
			}
		}
		if err := syscall.Chroot(dir); err != nil {
			return fmt.Errorf("chroot %s: %w", dir, err)
		}
		return os.Chdir("/")
	}
}

func inJail() bool {
	// inside the jail the jail marker exists at the root
	_, err := os.Lstat("/.verif-jail")
	return err == nil
}

func relJoin(p, c string) string {
	if p == "" {
		return c
	}
	if c == "" {
		return p
	}
	return p + "/" + c
}

// cleanRel turns a path argument into a clean path relative to the root
// ("" = the root itself), the way a process chrooted into the root and
// sitting in "/" would read it lexically.
func cleanRel(arg string) string {
	return strings.TrimPrefix(path.Clean("/"+arg), "/")
}

func under(p, anc string) bool { // p == anc or below it
	return anc == "" || p == anc || strings.HasPrefix(p, anc+"/")
}

func properAncestor(anc, p string) bool {
	return anc != p && under(p, anc)
}

// sameAll compares two snapshot entries in every field a snapshot records
// (type, inode, device, link count, mode, owner, mtime, ctime, size, bytes,
// target, rdev, xattrs) and names the fields that differ.
func sameAll(a, b *tree.Entry) []string {
	var d []string
	if a.Type != b.Type {
		d = append(d, "type")
	}
	if a.Ino != b.Ino || a.Dev != b.Dev {
		d = append(d, "inode")
	}
	if a.Nlink != b.Nlink {
		d = append(d, "nlink")
	}
	if a.Perm != b.Perm {
		d = append(d, "mode")
	}
	if a.UID != b.UID || a.GID != b.GID {
		d = append(d, "owner")
	}
	if a.Mtime != b.Mtime {
		d = append(d, "mtime")
	}
	if a.Ctime != b.Ctime {
		d = append(d, "ctime")
	}
	if a.Size != b.Size || !bytes.Equal(a.Data, b.Data) {
		d = append(d, "bytes")
	}
	if a.Target != b.Target {
		d = append(d, "target")
	}
	if a.Major != b.Major || a.Minor != b.Minor {
		d = append(d, "rdev")
	}
	if !tree.XattrEq(a.Xattrs, b.Xattrs) {
		d = append(d, "xattrs")
	}
	return d
}

// subTree returns the entries below prefix with the prefix stripped.
func subTree(t *tree.Tree, prefix string) *tree.Tree {
	out := &tree.Tree{}
	for _, e := range t.Entries {
		if prefix == "" {
			out.Entries = append(out.Entries, e)
			continue
		}
		if strings.HasPrefix(e.Path, prefix+"/") {
			c := e
			c.Path = e.Path[len(prefix)+1:]
			if c.LinkTo != "" && strings.HasPrefix(c.LinkTo, prefix+"/") {
				c.LinkTo = c.LinkTo[len(prefix)+1:]
			}
			out.Entries = append(out.Entries, c)
		}
	}
	return out
}

// ---------------------------------------------------------------------------
// chroot-style resolution over a tree model: what a process chrooted into the
// root would reach (".." at the root stays at the root, absolute link targets
// restart at the root, 40 links = ELOOP). Written from the definition, not
// from continuity's RootPath.

type rres struct {
	Path   string // resolved path relative to the root ("" = root)
	Exists bool
	Type   byte // type of the entry reached (Dir for the root), 0 when missing
	Links  int  // symlinks traversed
	Escape int  // of which the target, read without a root, leaves the tree
	Kinds  []string
	Ambig  string // resolution crossed ".." after a missing or non-directory component
	Err    string // ELOOP | ENOTDIR
}

// linkKind classifies a symlink target placed in directory dir (relative to
// the root): does it leave the root when read by the kernel without a root?
func linkKind(dir, target string) (kind string, escaping bool) {
	if strings.HasPrefix(target, "/") {
		return "absolute", true
	}
	depth := 0
	if dir != "" {
		depth = strings.Count(dir, "/") + 1
	}
	esc := false
	hasDD := false
	for _, c := range strings.Split(target, "/") {
		switch c {
		case "", ".":
		case "..":
			hasDD = true
			depth--
			if depth < 0 {
				esc = true
			}
		default:
			depth++
		}
	}
	if hasDD {
		return "dotdot", esc
	}
	return "plain", false
}

func chrootResolve(t *tree.Tree, arg string, followLast bool) rres {
	idx := t.Index()
	p := path.Clean("/" + arg)
	if !followLast && p != "/" {
		d, f := path.Split(p)
		r := chrootResolveIdx(t, idx, d)
		if r.Err != "" {
			return r
		}
		if r.Exists && r.Type != tree.Dir {
			r.Err = "ENOTDIR"
			return r
		}
		full := relJoin(r.Path, f)
		r.Path = full
		if !r.Exists {
			r.Type = 0
			return r
		}
		if i, ok := idx[full]; ok {
			r.Type = t.Entries[i].Type
		} else {
			r.Exists = false
			r.Type = 0
		}
		return r
	}
	return chrootResolveIdx(t, idx, p)
}

func chrootResolveIdx(t *tree.Tree, idx map[string]int, p string) rres {
	var r rres
	split := func(s string) []string {
		var out []string
		for _, c := range strings.Split(s, "/") {
			if c != "" && c != "." {
				out = append(out, c)
			}
		}
		return out
	}
	queue := split(p)
	var cur []string
	for len(queue) > 0 {
		c := queue[0]
		queue = queue[1:]
		if c == ".." {
			if len(cur) > 0 {
				cur = cur[:len(cur)-1]
			}
			continue
		}
		next := relJoin(strings.Join(cur, "/"), c)
		i, ok := idx[next]
		if !ok {
			cur = append(cur, c)
			for _, q := range queue {
				if q == ".." {
					r.Ambig = "'..' after a missing component"
					if len(cur) > 0 {
						cur = cur[:len(cur)-1]
					}
				} else {
					cur = append(cur, q)
				}
			}
			r.Path = strings.Join(cur, "/")
			return r
		}
		e := &t.Entries[i]
		if e.Type == tree.Symlink {
			r.Links++
			kind, esc := linkKind(strings.Join(cur, "/"), e.Target)
			if esc {
				r.Escape++
			}
			r.Kinds = append(r.Kinds, kind)
			if r.Links > 40 {
				r.Err = "ELOOP"
				return r
			}
			if strings.HasPrefix(e.Target, "/") {
				cur = nil
			}
			queue = append(split(e.Target), queue...)
			continue
		}
		if len(queue) > 0 && e.Type != tree.Dir {
			if queue[0] == ".." {
				r.Ambig = "'..' after a non-directory"
			}
			r.Err = "ENOTDIR"
			return r
		}
		cur = append(cur, c)
	}
	r.Path = strings.Join(cur, "/")
	r.Exists = true
	if r.Path == "" {
		r.Type = tree.Dir
	} else {
		r.Type = t.Entries[idx[r.Path]].Type
	}
	return r
}

func sortedSet(m map[string]bool) []string {
	out := make([]string, 0, len(m))
	for k := range m {
		out = append(out, k)
	}
	sort.Strings(out)
	return out
}
