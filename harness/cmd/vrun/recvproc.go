package main

import (
	"bytes"
	"context"
	"encoding/json"
	"fmt"
	"io"
	"os"
	"os/exec"
	"path/filepath"
	"strings"
	"sync"
	"syscall"
	"time"

	"github.com/tonistiigi/fsutil"
	"github.com/tonistiigi/fsutil/types"
	"github.com/tonistiigi/fsutil/util"
	"verif/internal/core"
)

// "recvproc": a receiver in its own process, speaking over stdin/stdout
// through util.NewProtoStream (real pipes, real framing). Used where the
// receiver may crash on hostile input (C03) or is killed on purpose (C04).

type recvProcOpt struct {
	Dest     string `json:"dest"`
	Merge    bool   `json:"merge,omitempty"`
	Notify   bool   `json:"notify,omitempty"`
	MetaOnly string `json:"metaonly,omitempty"` // "" | none | all | files
	Differ   int    `json:"differ,omitempty"`
	// TmpSeed != 0 pins the writer's temporary-name generator (hook
	// fsutil.VerifSeedTempNames, build tag verif)
	TmpSeed uint32 `json:"tmpseed,omitempty"`
	// RejectBase != "": ReceiveOpt.Filter rejects every entry with one of these (comma separated) base names
	RejectBase string `json:"rejectbase,omitempty"`
}

type recvProcResult struct {
	Err   string `json:"err"`
	OK    bool   `json:"ok"`
	Notes []note `json:"notes,omitempty"`
}

func init() {
	core.Aux["recvproc"] = func(args []string) int {
		var o recvProcOpt
		if len(args) < 1 || json.Unmarshal([]byte(args[0]), &o) != nil {
			fmt.Fprintln(os.Stderr, "recvproc: bad options")
			return 2
		}
		ctx, cancel := context.WithCancel(context.Background())
		defer cancel()
		s := util.NewProtoStream(ctx, os.Stdin, os.Stdout)
		if o.TmpSeed != 0 {
			fsutil.VerifSeedTempNames(o.TmpSeed)
		}
		ropt := fsutil.ReceiveOpt{Merge: o.Merge, Differ: fsutil.DiffType(o.Differ)}
		if o.RejectBase != "" {
			rej := map[string]bool{}
			for _, b := range strings.Split(o.RejectBase, ",") {
				rej[b] = true
			}
			ropt.Filter = func(p string, _ *types.Stat) bool { return !rej[filepath.Base(p)] }
		}
		nrec := newNotifyRec()
		if o.Notify {
			ropt.NotifyHashed = nrec.fn
			ropt.ContentHasher = newHasher().fn
		}
		switch o.MetaOnly {
		case "none":
			ropt.MetadataOnly = func(string, *types.Stat) bool { return false }
		case "all":
			ropt.MetadataOnly = func(string, *types.Stat) bool { return true }
		case "files":
			ropt.MetadataOnly = func(_ string, st *types.Stat) bool { return os.FileMode(st.Mode)&os.ModeType == 0 }
		default:
			if strings.HasPrefix(o.MetaOnly, "not:") {
				// everything except the listed paths (a selector that is not
				// closed under hard-link sources: the caller cannot know them)
				skip := map[string]bool{}
				for _, p := range strings.Split(o.MetaOnly[4:], "\x00") {
					skip[p] = true
				}
				ropt.MetadataOnly = func(p string, _ *types.Stat) bool { return !skip[p] }
			}
		}
		err := fsutil.Receive(ctx, s, o.Dest, ropt)
		res := recvProcResult{OK: err == nil}
		if err != nil {
			res.Err = err.Error()
		}
		res.Notes = nrec.list()
		b, _ := json.Marshal(res)
		// result goes to fd 3
		f := os.NewFile(3, "result")
		if f != nil {
			f.Write(b)
			f.Close()
		}
		return 0
	}
}

// recvProc is the parent's handle on such a process.
type recvProc struct {
	cmd    *exec.Cmd
	Stream fsutil.Stream
	in     io.WriteCloser
	out    io.ReadCloser
	resR   *os.File
	stderr bytes.Buffer
	wmu    sync.Mutex
}

func startRecvProc(exe string, o recvProcOpt) (*recvProc, error) {
	ob, _ := json.Marshal(o)
	cmd := exec.Command(exe, "recvproc", string(ob))
	in, err := cmd.StdinPipe()
	if err != nil {
		return nil, err
	}
	out, err := cmd.StdoutPipe()
	if err != nil {
		return nil, err
	}
	rr, rw, err := os.Pipe()
	if err != nil {
		return nil, err
	}
	cmd.ExtraFiles = []*os.File{rw}
	rp := &recvProc{cmd: cmd, in: in, out: out, resR: rr}
	cmd.Stderr = &rp.stderr
	if err := cmd.Start(); err != nil {
		rw.Close()
		rr.Close()
		return nil, err
	}
	rw.Close()
	rp.Stream = util.NewProtoStream(context.Background(), out, in)
	return rp, nil
}

func (rp *recvProc) Send(p *types.Packet) error {
	rp.wmu.Lock()
	defer rp.wmu.Unlock()
	return rp.Stream.SendMsg(p)
}

// CloseWrite ends the stream towards the receiver (EOF).
func (rp *recvProc) CloseWrite() { rp.in.Close() }

func (rp *recvProc) Kill() { rp.cmd.Process.Signal(syscall.SIGKILL) }

// Wait returns the receiver's result; crashed=true if it died without one.
func (rp *recvProc) Wait(timeout time.Duration) (res recvProcResult, crashed bool, timedOut bool, stderr string) {
	done := make(chan struct{})
	var data []byte
	go func() {
		data, _ = io.ReadAll(rp.resR)
		rp.cmd.Wait()
		close(done)
	}()
	select {
	case <-done:
	case <-time.After(timeout):
		timedOut = true
		rp.Kill()
		<-done
	}
	rp.resR.Close()
	if json.Unmarshal(data, &res) != nil {
		crashed = true
	}
	return res, crashed, timedOut, rp.stderr.String()
}
