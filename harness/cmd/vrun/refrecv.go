package main

import (
	"bytes"
	"context"
	"fmt"
	"io"
	"os"
	"sync"

	"github.com/tonistiigi/fsutil"
	"github.com/tonistiigi/fsutil/types"
	"verif/internal/core"
	"verif/internal/tree"
)

// refReceiver is an independent implementation of the receiving side of the
// documented protocol (header of receive.go, wire.proto). It never imports
// fsutil's receive code. It is also the online protocol monitor of C06.
type refReceiver struct {
	// Script decides which ids are requested and when.
	Mode    string // all | reverse | subset | burst | onarrival | none
	Invalid string // "" | duplicate | unknown | nonfile
	R       *core.Rand
	NoFin   bool
	// ReqLinks: also request hard-link members (announced with a regular mode:
	// their id is a valid request and yields the file\'s bytes)
	ReqLinks bool
	// MaxReq > 0 limits the number of requests of the scripts that are sent
	// after the listing (huge views).
	MaxReq int
	// Sequential: a receiver with one thread of control: it reads the STAT
	// stream to the end marker, then writes all its requests, and only then
	// reads again. Nothing in the protocol text tells it to do otherwise.
	Sequential bool
	reqsDone   chan struct{}

	mu        sync.Mutex
	cond      *sync.Cond
	stats     []*types.Stat
	endSeen   bool
	statAfter bool
	data      map[uint32]*bytes.Buffer
	term      map[uint32]int
	requested map[uint32]bool
	reqOrder  []uint32
	finEcho   int
	errPacket string
	viol      []string
	recvErr   error
	eof       bool
	badReq    *uint32
	chunks    map[uint32]int
}

func newRefReceiver(mode, invalid string, r *core.Rand) *refReceiver {
	rr := &refReceiver{Mode: mode, Invalid: invalid, R: r, data: map[uint32]*bytes.Buffer{}, term: map[uint32]int{}, requested: map[uint32]bool{}, chunks: map[uint32]int{}}
	rr.cond = sync.NewCond(&rr.mu)
	rr.reqsDone = make(chan struct{})
	return rr
}

func (rr *refReceiver) violate(format string, a ...any) {
	rr.viol = append(rr.viol, fmt.Sprintf(format, a...))
}

func isRegular(st *types.Stat) bool { return os.FileMode(st.Mode)&os.ModeType == 0 }

// reader consumes and checks everything the sender emits.
func (rr *refReceiver) reader(s fsutil.Stream) {
	for {
		var p types.Packet
		err := s.RecvMsg(&p)
		rr.mu.Lock()
		if err != nil {
			if err == io.EOF {
				rr.eof = true
			} else {
				rr.recvErr = err
			}
			rr.cond.Broadcast()
			rr.mu.Unlock()
			return
		}
		switch p.Type {
		case types.PACKET_STAT:
			if rr.endSeen {
				rr.statAfter = true
				rr.violate("STAT (%v) after the end-of-stats marker", p.Stat)
			} else if p.Stat == nil {
				rr.endSeen = true
				if rr.Sequential {
					// stop reading until every request has been written
					rr.cond.Broadcast()
					rr.mu.Unlock()
					<-rr.reqsDone
					continue
				}
			} else {
				if n := len(rr.stats); n > 0 && tree.CmpPath(rr.stats[n-1].Path, p.Stat.Path) >= 0 {
					rr.violate("STAT %q after %q: not strictly ascending in protocol path order", p.Stat.Path, rr.stats[n-1].Path)
				}
				rr.stats = append(rr.stats, p.Stat.CloneVT())
			}
		case types.PACKET_DATA:
			id := p.ID
			switch {
			case !rr.requested[id]:
				rr.violate("DATA for id %d which was not requested", id)
			case rr.term[id] > 0:
				rr.violate("DATA for id %d after its terminator", id)
				if len(p.Data) == 0 {
					rr.term[id]++
				}
			case len(p.Data) == 0:
				rr.term[id]++
			default:
				if rr.data[id] == nil {
					rr.data[id] = &bytes.Buffer{}
				}
				rr.data[id].Write(p.Data)
				rr.chunks[id]++
			}
		case types.PACKET_FIN:
			rr.finEcho++
		case types.PACKET_ERR:
			rr.errPacket = string(p.Data)
		case types.PACKET_REQ:
			rr.violate("sender emitted a REQ packet")
		default:
			rr.violate("sender emitted unknown packet type %d", p.Type)
		}
		rr.cond.Broadcast()
		rr.mu.Unlock()
	}
}

func (rr *refReceiver) waitFor(f func() bool) bool {
	rr.mu.Lock()
	defer rr.mu.Unlock()
	for !f() {
		if rr.eof || rr.recvErr != nil {
			return false
		}
		rr.cond.Wait()
	}
	return true
}

func (rr *refReceiver) request(s fsutil.Stream, id uint32) error {
	rr.mu.Lock()
	rr.requested[id] = true
	rr.reqOrder = append(rr.reqOrder, id)
	rr.mu.Unlock()
	return s.SendMsg(&types.Packet{Type: types.PACKET_REQ, ID: id})
}

// run plays the receiver. It returns when the stream ended.
func (rr *refReceiver) run(ctx context.Context, s fsutil.Stream) error {
	done := make(chan struct{})
	go func() { rr.reader(s); close(done) }()
	defer func() { <-done }()

	sent := map[uint32]bool{}
	if rr.Mode == "onarrival" {
		// request regular files as their STAT arrives, while the walk is still streaming
		next := 0
		for {
			ok := rr.waitFor(func() bool { return len(rr.stats) > next || rr.endSeen })
			if !ok {
				return rr.recvErr
			}
			rr.mu.Lock()
			n := len(rr.stats)
			end := rr.endSeen
			var ids []uint32
			for ; next < n; next++ {
				if isRegular(rr.stats[next]) && (rr.stats[next].Linkname == "" || rr.ReqLinks) {
					ids = append(ids, uint32(next))
				}
			}
			rr.mu.Unlock()
			for _, id := range ids {
				if err := rr.request(s, id); err != nil {
					return err
				}
				sent[id] = true
			}
			if end && next >= n {
				break
			}
		}
	} else {
		if !rr.waitFor(func() bool { return rr.endSeen }) {
			return rr.recvErr
		}
		rr.mu.Lock()
		var ids []uint32
		for i, st := range rr.stats {
			if isRegular(st) && (st.Linkname == "" || rr.ReqLinks) {
				ids = append(ids, uint32(i))
			}
		}
		rr.mu.Unlock()
		switch rr.Mode {
		case "reverse":
			for i, j := 0, len(ids)-1; i < j; i, j = i+1, j-1 {
				ids[i], ids[j] = ids[j], ids[i]
			}
		case "subset":
			core.Shuffle(rr.R, ids)
			ids = ids[:rr.R.Intn(len(ids)+1)]
		case "burst":
			core.Shuffle(rr.R, ids)
		case "none":
			ids = nil
		}
		if rr.MaxReq > 0 && len(ids) > rr.MaxReq {
			// huge views: a sample of the ids, the largest one always
			top := ids[0]
			for _, id := range ids {
				if id > top {
					top = id
				}
			}
			core.Shuffle(rr.R, ids)
			ids = ids[:rr.MaxReq-1]
			has := false
			for _, id := range ids {
				has = has || id == top
			}
			if !has {
				ids = append(ids, top)
			}
		}
		for k, id := range ids {
			if err := rr.request(s, id); err != nil {
				return err
			}
			sent[id] = true
			if rr.Mode != "burst" && !rr.Sequential && rr.R.P(1, 3) {
				// sometimes wait for this file before asking for the next
				id := id
				rr.waitFor(func() bool { return rr.term[id] > 0 })
			}
			_ = k
		}
	}
	if rr.Sequential {
		close(rr.reqsDone)
	}
	// invalid request, issued once everything legal is on its way
	if rr.Invalid != "" {
		rr.mu.Lock()
		n := len(rr.stats)
		var bad uint32
		found := false
		switch rr.Invalid {
		case "unknown":
			bad, found = uint32(n+rr.R.Intn(5)), true
		case "duplicate":
			for id := range sent {
				bad, found = id, true
				break
			}
		case "nonfile":
			for i, st := range rr.stats {
				if !isRegular(st) {
					bad, found = uint32(i), true
					break
				}
			}
		}
		rr.mu.Unlock()
		if found {
			rr.mu.Lock()
			rr.badReq = &bad
			rr.mu.Unlock()
			if err := s.SendMsg(&types.Packet{Type: types.PACKET_REQ, ID: bad}); err != nil {
				return err
			}
			// the sender must fail; wait for the stream to end
			rr.waitFor(func() bool { return false })
			return nil
		}
	}
	// wait for all terminators, then FIN
	ok := rr.waitFor(func() bool {
		for id := range sent {
			if rr.term[id] == 0 {
				return false
			}
		}
		return rr.endSeen
	})
	if !ok {
		return rr.recvErr
	}
	if rr.NoFin {
		return nil
	}
	if err := s.SendMsg(&types.Packet{Type: types.PACKET_FIN}); err != nil {
		return err
	}
	rr.waitFor(func() bool { return false }) // until EOF / error
	return nil
}
