package main

import (
	"fmt"
	"hash/fnv"
	"os"
	"path"
	"strings"

	"github.com/tonistiigi/fsutil"
	"github.com/tonistiigi/fsutil/types"
	"verif/internal/core"
	"verif/internal/tree"
)

// C12: validator == specification; ComparePath is a strict total order equal
// to component-wise comparison.

var c12Alphabet = []string{
	"a", "b", "a/b", "a/c", "a-b", "a b", "a.b", "ab", "a/b/c", "a/b/d", "A", "a/b-c",
	".", "..", "../x", "a/../b", "/a", "a/", "a//b", "", "./a", "a/.", "..a", "a/..", "b/x",
	// legal names that merely start with dots, with children
	"..a/x", "...", ".../y", "a/..b", "a/..b/c",
	// a second branch whose directory names repeat those of the first
	"b/b", "b/b/d",
	// elements longer than what most file systems store (the statement has
	// no length clause: the validator judges order and containment)
	c12Long, "a/" + c12Long,
}

var c12Long = strings.Repeat("L", 256) + strings.Repeat("\xe9\x9b\xa8", 15)

const (
	kDir = iota
	kFile
	kDel
	kDelDir
)

type c12sym struct {
	p string
	k int
}

func (s c12sym) String() string {
	return fmt.Sprintf("%s:%s", []string{"dir", "file", "del", "deldir"}[s.k], s.p)
}

func c12Syms() []c12sym {
	var out []c12sym
	for _, p := range c12Alphabet {
		for k := kDir; k <= kDel; k++ {
			out = append(out, c12sym{p, k})
		}
	}
	return out
}

// c12Spec is the executable specification: it returns the index of the first
// rejected element, or -1 if the whole sequence is accepted.
func c12Spec(seq []c12sym) int {
	dirs := map[string]bool{"": true}
	last := ""
	first := true
	for i, s := range seq {
		p := s.p
		if p != path.Clean(p) || strings.HasPrefix(p, "/") || p == "." || p == ".." || strings.HasPrefix(p, "../") {
			return i
		}
		if !first && tree.CmpPath(last, p) >= 0 {
			return i
		}
		if !dirs[tree.Parent(p)] {
			return i
		}
		if s.k == kDir {
			dirs[p] = true
		}
		last = p
		first = false
	}
	return -1
}

func c12Real(seq []c12sym) (idx int, msg string) {
	var v fsutil.Validator
	// the statement does not distinguish an added from a modified entry, nor
	// what a delete record carries as file info: which of them a record uses
	// is derived from the sequence itself (a third of the entries are modify
	// records, deletes carry nothing, a directory or a file)
	h := fnv.New64a()
	for _, s := range seq {
		fmt.Fprintf(h, "%s|%d;", s.p, s.k)
	}
	salt := h.Sum64()
	for i, s := range seq {
		var err error
		pick := (salt >> (uint(i%20) * 3)) & 7
		kind := fsutil.ChangeKindAdd
		if pick < 3 {
			kind = fsutil.ChangeKindModify
		}
		dirInfo := &fsutil.StatInfo{Stat: &types.Stat{Path: s.p, Mode: uint32(os.ModeDir | 0755)}}
		// a non-directory is any of the types a walk reports (Go spells a
		// character device with two type bits)
		fmode := []os.FileMode{0644, 0644, os.ModeSymlink | 0777, os.ModeNamedPipe | 0600, os.ModeSocket | 0600, os.ModeDevice | os.ModeCharDevice | 0666, os.ModeDevice | 0660, os.ModeSetuid | 0755}[(salt>>(uint(i%16)*4+1))&7]
		fileInfo := &fsutil.StatInfo{Stat: &types.Stat{Path: s.p, Mode: uint32(fmode)}}
		switch s.k {
		case kDir:
			err = v.HandleChange(kind, s.p, dirInfo, nil)
		case kFile:
			err = v.HandleChange(kind, s.p, fileInfo, nil)
		case kDel:
			switch {
			case pick < 4:
				err = v.HandleChange(fsutil.ChangeKindDelete, s.p, nil, nil)
			case pick < 6:
				err = v.HandleChange(fsutil.ChangeKindDelete, s.p, dirInfo, nil)
			default:
				err = v.HandleChange(fsutil.ChangeKindDelete, s.p, fileInfo, nil)
			}
		}
		if err != nil {
			return i, err.Error()
		}
	}
	return -1, ""
}

func c12Check(r *core.Result, seq []c12sym) {
	want := c12Spec(seq)
	got, msg := c12Real(seq)
	r.Count("sequences", 1)
	if want < 0 {
		r.Count("accepted_by_spec", 1)
	}
	if want != got {
		sig := "validator-mismatch"
		ss := make([]string, len(seq))
		for i, s := range seq {
			ss[i] = s.String()
		}
		if got < 0 || (want >= 0 && want < got) {
			// the validator accepted an element the spec rejects
			bad := seq[want].p
			if bad == "." || bad == ".." {
				sig = "validator-accepts-dot"
			} else {
				sig = "validator-accepts-bad"
			}
		} else {
			sig = "validator-rejects-good"
		}
		if len(r.Viols) < 5 {
			r.ViolateD(sig, ss, "sequence %v: spec rejects at %d, validator rejects at %d (%s)", ss, want, got, msg)
		}
	}
}

// enumerate all extensions of prefix up to maxLen; prune below a prefix that
// both spec and validator reject (the receiver stops at the first error).
func c12Enum(r *core.Result, syms []c12sym, prefix []c12sym, maxLen int) {
	c12Check(r, prefix)
	if len(prefix) >= maxLen {
		return
	}
	if len(prefix) > 0 {
		w := c12Spec(prefix)
		g, _ := c12Real(prefix)
		if w >= 0 && g >= 0 {
			r.Count("pruned_prefixes", 1)
			return
		}
	}
	for _, s := range syms {
		c12Enum(r, syms, append(prefix[:len(prefix):len(prefix)], s), maxLen)
	}
}

func c12OrderAxioms(r *core.Result) {
	comps := []string{"a", "a-b", "a b", "a.b", "ab", "a!", "A", "é", "~", ".c", "a0", "-", "0", "a,", "b", "..a", "a\x01", "a\xff"}
	var paths []string
	paths = append(paths, comps...)
	for _, c := range comps[:9] {
		for _, d := range comps[:7] {
			paths = append(paths, c+"/"+d)
		}
	}
	paths = append(paths, "a/b/c", "a/b/c/d", "a/a-b/a", "a-b/a/a", "a b/a b/a b")
	sgn := func(x int) int {
		if x < 0 {
			return -1
		}
		if x > 0 {
			return 1
		}
		return 0
	}
	n := len(paths)
	cmp := make([][]int, n)
	for i := range paths {
		cmp[i] = make([]int, n)
		for j := range paths {
			c := sgn(fsutil.ComparePath(paths[i], paths[j]))
			cmp[i][j] = c
			r.Count("order_pairs", 1)
			if c != sgn(tree.CmpPath(paths[i], paths[j])) {
				r.Violate("compare-not-componentwise", "ComparePath(%q,%q)=%d but component-wise comparison gives %d", paths[i], paths[j], c, sgn(tree.CmpPath(paths[i], paths[j])))
			}
			if i == j && c != 0 {
				r.Violate("compare-axiom", "ComparePath(%q,%q)=%d: not irreflexive", paths[i], paths[j], c)
			}
			if i != j && c == 0 {
				r.Violate("compare-axiom", "ComparePath(%q,%q)=0 for distinct paths: not total", paths[i], paths[j])
			}
		}
	}
	for i := 0; i < n; i++ {
		for j := 0; j < n; j++ {
			if cmp[i][j] != -cmp[j][i] {
				r.Violate("compare-axiom", "antisymmetry fails for %q,%q", paths[i], paths[j])
			}
			if cmp[i][j] >= 0 {
				continue
			}
			for k := 0; k < n; k++ {
				r.Count("order_triples", 1)
				if cmp[j][k] < 0 && cmp[i][k] >= 0 {
					r.Violate("compare-axiom", "transitivity fails for %q < %q < %q", paths[i], paths[j], paths[k])
				}
			}
		}
	}
}

// c12DeepSeq builds m, m/m, ..., (depth D) and then a few returns.
func c12DeepSeq(R *core.Rand) []c12sym {
	names := []string{"a", "m", "z", "m-", "m0"}
	D := R.Range(1, 40)
	if R.P(1, 3) {
		D = core.Pick(R, []int{3, 4, 5, 7, 8, 9, 15, 16, 17, 31, 32, 33, 35})
	}
	var chain []string
	var seq []c12sym
	for i := 0; i < D; i++ {
		chain = append(chain, core.Pick(R, names))
		seq = append(seq, c12sym{strings.Join(chain, "/"), kDir})
	}
	// optionally a child at the deepest level
	if R.P(1, 2) {
		seq = append(seq, c12sym{strings.Join(chain, "/") + "/" + core.Pick(R, names), R.Intn(3)})
	}
	n := R.Range(1, 4)
	level := D
	for i := 0; i < n && level > 0; i++ {
		level = R.Intn(level + 1)
		if level == 0 {
			break
		}
		// an entry in the directory chain[:level-1], compared with chain[level-1]
		nm := core.Pick(R, names)
		if R.P(1, 3) {
			nm = chain[level-1]
		}
		p := strings.Join(append(append([]string{}, chain[:level-1]...), nm), "/")
		k := R.Intn(3)
		seq = append(seq, c12sym{p, k})
		if k == kDir && R.P(1, 2) {
			seq = append(seq, c12sym{p + "/" + core.Pick(R, names), R.Intn(3)})
		}
	}
	return seq
}

// c12TreeSeq lists a random tree over few names (so that the same directory
// names recur at the same depth in different branches) in protocol order and
// applies at most one structural mutation.
func c12TreeSeq(R *core.Rand) []c12sym {
	names := []string{"a", "b", "x"}
	var seq []c12sym
	var gen func(prefix string, depth int)
	gen = func(prefix string, depth int) {
		for _, n := range names {
			if !R.P(2, 3) {
				continue
			}
			p := n
			if prefix != "" {
				p = prefix + "/" + n
			}
			if depth < 4 && R.P(3, 5) {
				seq = append(seq, c12sym{p, kDir})
				gen(p, depth+1)
			} else {
				seq = append(seq, c12sym{p, core.Pick(R, []int{kFile, kFile, kDel})})
			}
		}
	}
	gen("", 1)
	if len(seq) < 2 {
		return seq
	}
	i := R.Intn(len(seq))
	switch R.Intn(7) {
	case 0: // unchanged: must be accepted
	case 1: // move one path to another top-level branch (same tail)
		parts := strings.Split(seq[i].p, "/")
		parts[0] = core.Pick(R, names)
		seq[i].p = strings.Join(parts, "/")
	case 2: // replace a middle component
		parts := strings.Split(seq[i].p, "/")
		parts[R.Intn(len(parts))] = core.Pick(R, names)
		seq[i].p = strings.Join(parts, "/")
	case 3: // drop an element (its children lose their parent)
		seq = append(seq[:i], seq[i+1:]...)
	case 4: // duplicate
		seq = append(seq[:i+1], append([]c12sym{seq[i]}, seq[i+1:]...)...)
	case 5: // swap neighbours
		if i+1 < len(seq) {
			seq[i], seq[i+1] = seq[i+1], seq[i]
		}
	case 6: // a directory becomes a file / a delete
		seq[i].k = core.Pick(R, []int{kFile, kDel})
	}
	return seq
}

func init() {
	syms := c12Syms()
	nEnum := len(syms) * len(syms) // one case per pair of leading symbols
	core.Register(&core.Prop{
		ID:    "C12",
		Level: "exploration",
		Rule: "case 0 checks the order axioms on all pairs/triples of a path alphabet; cases 1..N enumerate EVERY sequence with a fixed pair of leading symbols up to the length bound over a 32-path x {dir,file,delete} alphabet (a third of the dir/file records are handed over as modify instead of add records, delete records carry no file info, a directory's or a file's, file records any non-directory type incl. devices; the choice is a function of the sequence; prefixes rejected by both sides are pruned, as the receiver stops there); remaining cases are random sequences up to length 60, deep chains, and valid listings of random trees over the names {a,b,x} (depth <= 4, the same directory names recurring in different branches) with one structural mutation (a path moved to another branch, an element dropped, duplicated, swapped, or turned from directory into file). " +
			"Each sequence is fed to a fresh real Validator and to the specification; non-trivial = enumeration chunk or random batch containing at least one sequence the specification accepts beyond length 1; distinct by leading symbols / PRNG value",
		Assumptions: []string{"os.FileInfo passed to the validator is fsutil.StatInfo, as the receiver does", "unix path separator"},
		Cases: func(tier string) int {
			if tier == "thorough" {
				return 1 + nEnum + 400
			}
			return 1 + nEnum + 60
		},
		Batch:         200,
		MinNontrivial: func(string) int { return 100 },
		Exhaustive:    func(string) bool { return false },
		Run: func(c *core.Ctx) *core.Result {
			r := &core.Result{}
			maxLen := 4
			if c.Thorough() {
				maxLen = 6
			}
			switch {
			case c.Index == 0:
				c12OrderAxioms(r)
				r.Nontrivial = true
				r.FP = "axioms"
				r.Sample = "order axioms over the path alphabet"
			case c.Index <= nEnum:
				k := c.Index - 1
				pre := []c12sym{syms[k/len(syms)], syms[k%len(syms)]}
				if k%len(syms) == 0 {
					// also cover the length-0 and length-1 sequences once
					c12Check(r, nil)
					c12Check(r, pre[:1])
				}
				c12Enum(r, syms, pre, maxLen)
				r.Nontrivial = r.Counters["accepted_by_spec"] > 0
				r.Count("enumeration_chunks_complete", 1)
				r.FP = fmt.Sprintf("enum:%v", pre)
				r.Sample = map[string]any{"enumerated_prefix": []string{pre[0].String(), pre[1].String()}, "max_len": maxLen, "sequences": r.Counters["sequences"]}
			default:
				// random longer sequences, biased towards valid continuations
				valid := []string{"a", "a/b", "a/b/c", "a/b/d", "a/b-c", "a/c", "a b", "a-b", "a.b", "A", "ab", "b", "b/x", "..a", "..a/x", "...", ".../y", "a/..b", "a/..b/c"}
				nseq := 2000
				var sample []string
				for s := 0; s < nseq; s++ {
					if s%4 == 2 {
						seq := c12TreeSeq(c.R)
						c12Check(r, seq)
						r.Count("mutated_tree_listings", 1)
						continue
					}
					if s%4 == 3 {
						// deep chains: a nested chain of directories of depth 1..40,
						// then returns to shallower levels with names below, equal
						// to and above the directory that was left
						seq := c12DeepSeq(c.R)
						c12Check(r, seq)
						r.Count("deep_chain_sequences", 1)
						continue
					}
					l := c.R.Range(3, 60)
					var seq []c12sym
					for i := 0; i < l; i++ {
						if c.R.P(4, 5) {
							seq = append(seq, c12sym{core.Pick(c.R, valid), c.R.Intn(3)})
						} else {
							seq = append(seq, core.Pick(c.R, syms))
						}
					}
					if c.R.P(1, 2) {
						// sort most of it to get long accepted prefixes
						for i := 1; i < len(seq); i++ {
							for j := i; j > 0 && tree.CmpPath(seq[j-1].p, seq[j].p) > 0; j-- {
								seq[j-1], seq[j] = seq[j], seq[j-1]
							}
						}
						if c.R.P(1, 2) && len(seq) > 3 {
							i := c.R.Intn(len(seq) - 1)
							seq[i], seq[i+1] = seq[i+1], seq[i]
						}
					}
					c12Check(r, seq)
					if s == 0 {
						for _, x := range seq {
							sample = append(sample, x.String())
						}
					}
				}
				r.Nontrivial = r.Counters["accepted_by_spec"] > 0
				r.FP = fmt.Sprintf("rand:%d", c.Index)
				r.Sample = sample
			}
			return r
		},
	})
}
