package main

import (
	"bytes"
	"fmt"
	"hash/fnv"
	"os"
	"path"
	"sort"
	"strings"

	"verif/internal/core"
	"verif/internal/tree"
)

// C15: copying onto existing content follows the overlay rules and is
// idempotent. The oracle is an executable overlay model (DESIGN "### C15",
// rules 1-7) over tree models; the real copy runs on disk inside a chroot
// jail (absolute symlink targets of the generated trees must not reach the
// host when a mutant writes through them).

var c15Names = []string{"a", "b", "ab", "c", "d", "e", "...", "..a"}

type c15Model struct {
	T        *tree.Tree // expected destination tree
	Err      bool       // the call is expected to fail
	ErrWhy   string
	Obstacle string // destination path that must stay in place when Err
	Any      string // non-empty: the model does not predict the outcome (reason)
	Landings []string
	// PathDirs are directories made for the path (rule 1 and the landing's
	// parent): their metadata is not demanded.
	PathDirs map[string]bool
	// Touched are destination paths created, replaced, merged or removed.
	Touched map[string]bool
	// XattrOld holds, for nested merged directories, the xattrs the
	// destination directory had before (allowed to stay).
	XattrOld map[string]map[string][]byte
	TopKept  map[string]bool
	// WildDotCleaned: source "dir/." with AllowWildcards (see c15Overlay)
	WildDotCleaned bool
	// wildcard source onto something that is not an existing directory,
	// modelled as the sequence of its matches
	SeqOntoNonDir, SeqDstMissing, FirstMatchDir bool
	NMatches                                    int
	Events                                      []string // collisions seen, e.g. "f>l:replace"
	// NondirDot: a non-directory source spelled "x/." was placed inside an
	// existing destination directory (it behaves exactly like "x").
	// DirOverNondir: a directory source (CopyDirContents off) met an existing
	// non-directory at dst: rule 5 decides (conflict, or the source wins).
	NondirDot, DirOverNondir bool
	// Origin names, for every destination path a non-directory source entry
	// landed on during this call, the source path of the LAST such landing
	// (the union of the matches applied in order: the last one wins).
	Origin map[string]string
	// LandedN counts landings per destination path during this call.
	LandedN map[string]int
	// Disturbed marks source inode groups (by canonical member) of which some
	// member's landing was overwritten or removed later in the same call, or
	// landed on a path another source had landed on: whether the remaining
	// images still share one inode is then not decided here.
	Disturbed map[string]bool
	src       *tree.Tree
	srcRoot   tree.Entry
	always    bool
}

func (m *c15Model) mkdirAll(p string) bool {
	cur := ""
	for _, c := range strings.Split(p, "/") {
		if c == "" {
			continue
		}
		cur = relJoin(cur, c)
		e := m.T.Get(cur)
		switch {
		case e == nil:
			m.T.Put(tree.Entry{Path: cur, Type: tree.Dir, Perm: 0755})
			m.PathDirs[cur] = true
			m.Touched[cur] = true
		case e.Type == tree.Dir:
		case e.Type == tree.Symlink:
			m.Any = "symlink on the destination path"
			return false
		default:
			m.Err, m.ErrWhy, m.Obstacle = true, "rule 1: non-directory in the way of the destination path", cur
			m.Events = append(m.Events, fmt.Sprintf("path>%c:conflict", e.Type))
			return false
		}
	}
	return true
}

func (m *c15Model) srcEntry(p string) *tree.Entry {
	if p == "" {
		e := m.srcRoot
		return &e
	}
	return m.src.Get(p)
}

func (m *c15Model) place(s *tree.Entry, L string) {
	ne := s.Clone()
	ne.Path = L
	ne.LinkTo = ""
	ne.Ino, ne.Nlink, ne.Ctime, ne.Dev = 0, 0, 0, 0
	m.T.Put(ne)
	m.Touched[L] = true
	delete(m.PathDirs, L)
	if m.LandedN[L] > 0 {
		if g := m.srcGroup(s.Path); g != "" {
			m.Disturbed[g] = true
		}
	}
	m.LandedN[L]++
	if s.Type != tree.Dir {
		m.Origin[L] = s.Path
	}
}

// srcGroup returns the canonical member of the source inode group p belongs
// to ("" when p has no further hard links).
func (m *c15Model) srcGroup(p string) string {
	if p == "" {
		return ""
	}
	return m.src.GroupOf(p)
}

// drop forgets what landed at or below L (it is about to be replaced or
// removed) and marks the inode groups that lose an image that way.
func (m *c15Model) drop(L string) {
	for p, o := range m.Origin {
		if under(p, L) {
			if g := m.srcGroup(o); g != "" {
				m.Disturbed[g] = true
			}
			delete(m.Origin, p)
		}
	}
}

// apply overlays the source entry at srcPath onto the destination path L.
func (m *c15Model) apply(srcPath, L string, top bool) bool {
	s := m.srcEntry(srcPath)
	var ex *tree.Entry
	if L == "" {
		ex = &tree.Entry{Type: tree.Dir}
	} else {
		ex = m.T.Get(L)
	}
	if s.Type == tree.Dir {
		switch {
		case ex == nil:
			m.place(s, L)
			m.Events = append(m.Events, "d>-:create")
		case ex.Type == tree.Dir:
			m.Touched[L] = true
			if top {
				// rule 3: an existing top-level landing directory keeps its own metadata
				m.TopKept[L] = true
				m.Events = append(m.Events, "d>d:merge-top")
			} else {
				old := ex.Xattrs
				ex.Perm, ex.UID, ex.GID, ex.Mtime = s.Perm, s.UID, s.GID, s.Mtime
				if len(s.Xattrs) > 0 {
					nx := map[string][]byte{}
					for k, v := range old {
						nx[k] = v
					}
					for k, v := range s.Xattrs {
						nx[k] = v
					}
					ex.Xattrs = nx
				}
				if m.XattrOld[L] == nil {
					m.XattrOld[L] = old
					if old == nil {
						m.XattrOld[L] = map[string][]byte{}
					}
				}
				delete(m.PathDirs, L)
				m.Events = append(m.Events, "d>d:merge")
			}
		default:
			if !m.always {
				m.Err, m.ErrWhy, m.Obstacle = true, "rule 5: directory onto non-directory", L
				m.Events = append(m.Events, fmt.Sprintf("d>%c:conflict", ex.Type))
				return false
			}
			m.Events = append(m.Events, fmt.Sprintf("d>%c:replace", ex.Type))
			m.drop(L)
			m.T.Remove(L)
			m.place(s, L)
		}
		var kids []string
		for _, e := range m.src.Entries {
			if tree.Parent(e.Path) == srcPath && e.Path != "" {
				kids = append(kids, e.Path)
			}
		}
		sort.Slice(kids, func(i, j int) bool { return tree.Base(kids[i]) < tree.Base(kids[j]) })
		for _, k := range kids {
			if !m.apply(k, relJoin(L, tree.Base(k)), false) {
				return false
			}
		}
		return true
	}
	switch {
	case ex == nil:
		m.Events = append(m.Events, fmt.Sprintf("%c>-:create", s.Type))
		m.place(s, L)
	case ex.Type == tree.Dir:
		if !m.always {
			m.Err, m.ErrWhy, m.Obstacle = true, "rule 5: non-directory onto directory", L
			m.Events = append(m.Events, fmt.Sprintf("%c>d:conflict", s.Type))
			return false
		}
		m.Events = append(m.Events, fmt.Sprintf("%c>d:replace", s.Type))
		for _, e := range m.T.Entries {
			if under(e.Path, L) {
				m.Touched[e.Path] = true
			}
		}
		m.drop(L)
		m.T.Remove(L)
		m.place(s, L)
	default:
		m.Events = append(m.Events, fmt.Sprintf("%c>%c:replace", s.Type, ex.Type))
		m.drop(L)
		m.T.Remove(L)
		m.place(s, L)
	}
	return true
}

// c15Matches expands a wildcard source the way the statement reads it: the
// entries below the non-wildcard prefix whose relative path matches the
// pattern, in walk order, not descending into a matched directory.
func c15Matches(src *tree.Tree, arg string) (matches []string, pattern bool, ok bool) {
	comps := strings.Split(strings.Trim(path.Clean("/"+arg), "/"), "/")
	i := 0
	for i < len(comps) && !strings.ContainsAny(comps[i], "*?[") {
		i++
	}
	if i == len(comps) {
		return nil, false, true
	}
	d1 := strings.Join(comps[:i], "/")
	d2 := strings.Join(comps[i:], "/")
	if d1 != "" {
		e := src.Get(d1)
		if e == nil || e.Type == tree.Symlink {
			return nil, true, false
		}
		if e.Type != tree.Dir {
			return nil, true, true
		}
	}
	skip := ""
	for _, e := range src.Entries { // protocol order == lexical pre-order walk
		if !properAncestor(d1, e.Path) && d1 != "" {
			continue
		}
		if skip != "" && under(e.Path, skip) {
			continue
		}
		rel := strings.TrimPrefix(strings.TrimPrefix(e.Path, d1), "/")
		if ok, _ := path.Match(d2, rel); ok {
			matches = append(matches, e.Path)
			if e.Type == tree.Dir {
				skip = e.Path
			}
		}
	}
	return matches, true, true
}

func c15Overlay(src *tree.Tree, srcRoot tree.Entry, dst *tree.Tree, srcArg, dstArg string, fl cpFlags) *c15Model {
	m := &c15Model{T: dst.Clone(), PathDirs: map[string]bool{}, Touched: map[string]bool{}, XattrOld: map[string]map[string][]byte{},
		TopKept: map[string]bool{}, src: src, srcRoot: srcRoot, always: fl.Always,
		Origin: map[string]string{}, LandedN: map[string]int{}, Disturbed: map[string]bool{}}
	// rule 1: the directory part of dst (all of it when it ends in a separator)
	ensure := dstArg
	if d, f := path.Split(dstArg); f != "" && f != "." && f != ".." {
		// ("x/.." names a directory as much as "x/../" does)
		ensure = d
	}
	if ensure != "" && !m.mkdirAll(cleanRel(ensure)) {
		return m
	}
	R := cleanRel(dstArg)
	srcs := []string{srcArg}
	if fl.Wild {
		ms, pattern, ok := c15Matches(src, srcArg)
		if !ok {
			m.Any = "wildcard prefix is not a plain directory"
			return m
		}
		if pattern {
			if len(ms) == 0 {
				m.Any = "wildcard without matches (the statement does not say)"
				return m
			}
			// rule 6, read as the statement has it: a wildcard source is the
			// union of its matches, i.e. the single-source copies applied in
			// match order, each one looking again at what dst is by then.
			// That reading is unambiguous also when dst is not (yet) a
			// directory; the only thing it cannot decide here is a dst that
			// an earlier match turned into a symlink (resolution of symlinks
			// in arguments is C14's business) - handled in the loop below.
			if re := m.T.Get(R); R != "" && (re == nil || re.Type != tree.Dir) {
				m.SeqOntoNonDir = true
				m.SeqDstMissing = re == nil
			}
			m.NMatches = len(ms)
			m.FirstMatchDir = m.srcEntry(ms[0]).Type == tree.Dir
			srcs = ms
		} else {
			// calibrated: with wildcards allowed the source argument is
			// cleaned before its base name is taken, so "dir/." names dir
			// (lands under its own name) instead of dir's contents
			if srcArg == "" {
				srcs = []string{"/"}
			} else {
				srcs = []string{path.Clean(srcArg)}
			}
			if strings.HasSuffix(srcArg, "/.") && path.Clean(srcArg) != "/" {
				m.WildDotCleaned = true
			}
		}
	}
	for _, s := range srcs {
		srel := cleanRel(s)
		se := m.srcEntry(srel)
		if se == nil {
			m.Any = "source does not exist"
			return m
		}
		var re *tree.Entry
		if R == "" {
			re = &tree.Entry{Type: tree.Dir}
		} else {
			re = m.T.Get(R)
		}
		if re != nil && re.Type == tree.Symlink {
			m.Any = "destination argument is a symlink (C14)"
			if len(m.Landings) > 0 {
				m.Any = "an earlier wildcard match left a symlink at dst; where later matches go depends on symlink resolution (C14)"
			}
			return m
		}
		// rule 2, from the statement: a source directory lands inside an
		// existing destination DIRECTORY under its own name unless
		// directory-contents mode is on; a file (any non-directory) copied to
		// an existing directory lands inside it. Everything else lands at dst
		// itself - in particular a directory source meeting an existing
		// non-directory, which is rule 5's conflict (error and the obstacle
		// stays, or with always-replace the source wins).
		base := path.Base(s)
		L := R
		sDir := se.Type == tree.Dir
		if !sDir && base == "." {
			// "x/." names the non-directory x itself
			base = path.Base(path.Clean("/" + s))
			if re != nil && re.Type == tree.Dir {
				m.NondirDot = true
			}
		}
		if sDir && !fl.CDC && re != nil && re.Type != tree.Dir {
			m.DirOverNondir = true
		}
		if re != nil && re.Type == tree.Dir && (!sDir || !fl.CDC) {
			if base != "." && base != "/" {
				L = relJoin(R, base)
			}
		}
		target := tree.Parent(L)
		if fl.CDC && sDir && re == nil {
			target = L
		}
		if !m.mkdirAll(target) {
			return m
		}
		m.Landings = append(m.Landings, L)
		if !m.apply(srel, L, true) {
			return m
		}
	}
	return m
}

func init() {
	core.Register(&core.Prop{
		ID:    "C15",
		Level: "exploration",
		Rule: "A third of the cases plant destination files with the size and mtime of the source file of the same path and other bytes; one destination in fourteen is spelled 'x/zz9/..'. source and destination trees (<=14 entries each, depth<=3) are generated independently over the shared names {a,b,ab,c,d,e,...,..a} (two legal names made of or starting with dots); source types f,d,l,fifo,char, destination additionally sockets, so every (source type, destination type) pair collides. " +
			"src argument: a source entry, the root ('.', '/', '/.', ''), 'dir/.', or a wildcard ('*','a*','?','[a-c]*','dir/*','*/a'); dst argument: existing directory / non-directory, new name, nested not-yet-existing 'n1/n2', the root, a path below a non-directory; optional leading and trailing separator; flags = random subset of {CopyDirContents, AlwaysReplace, AllowWildcards}. About one case in twelve spells the source 'x/.' for an entry x of any type (three quarters non-directories: it behaves exactly like 'x'; violations there are reported as nondir-dot-source), one in twenty-four copies a directory (directory-contents off) onto an existing non-directory (rule 5: conflict, obstacle stays; with always-replace the source wins - reported as dir-over-nondir-always-replace). No argument traverses a symlink (C14 does that). One case in forty is the directed variant lazy-parent-obstacle: an include pattern selects an entry below an unselected directory where the destination has a symlink to one of its own directories (holding that name) or a file; the call has to fail and leave the destination exactly as it was, with and without always-replace. " +
			"fs.Copy runs on disk in a chroot jail and is compared with the executable overlay model (rules 1-7 of DESIGN C15): expected success => snapshot equals the model in paths, types, bytes, targets, rdev, mode/owner (not for directories made only for the path; an existing top-level landing directory keeps its own) and xattrs (nested merged directories: source's added, old ones may stay), unrelated entries keep inode and bytes; expected error => the call fails and the obstacle (with its subtree) keeps inode, type, bytes. A wildcard source is modelled as the sequence of single-source copies of its matches in walk order, each one re-evaluating whether dst exists and is a directory (also when dst does not exist yet or is a non-directory: the first match creates/replaces it, the later ones meet the result); one case in seven is drawn for exactly that: a pattern with >=2 matches whose first match is a directory (the lexically first source entry is turned into a directory in two thirds of them) onto a not-yet-existing plain or nested dst. Any outcome is accepted (and counted by reason) only for: a wildcard without matches, a wildcard prefix that is not a plain directory, and a dst that is a symlink or that an earlier match of the same call turned into a symlink (where later matches go is symlink resolution, C14). " +
			"Every successful copy is repeated: the second run is checked against the model applied to the first result, and when the landing path is the same the two snapshots must agree in everything but inode/ctime/atime and the mtime of proper ancestors of the landing path. " +
			"One case in three gives the source tree one or two hard-link groups (regular files, one time in five fifos; 1-3 further names in other directories, names from the same universe), half of them with the stacking shape arranged (D1/n member, D2/n other content, D3/m member, D1<D2<D3 top-level directories) and wildcards that sweep several directories ('*/*', '?/*', '*/<member name>') onto a directory; the model keeps, per destination path, the LAST source entry that landed there (union of the matches applied in order) and demands its bytes whatever the inode sharing (signature wildcard-link-content when that source is a member of a link group); destination paths whose last-landing sources are members of one source inode must share an inode, judged only for groups none of whose images was overwritten, removed or stacked during the call (others counted as link_groups_not_judged_image_overwritten_during_call). non-trivial = at least one source entry met an existing destination entry (merge, replace or conflict) or the destination path met a non-directory; distinct by (trees, arguments, flags) fingerprint",
		Assumptions: []string{
			"runs as root (mknod, chown, chroot) on tmpfs with user.* xattrs",
			"FollowLinks, include/exclude patterns and chown/mode/utime options are not varied here (C13, C14, C16); hard links only on the source side",
			"mtime equality with the source is left to C13; here mtimes are only compared between the first and the repeated copy",
			"a source directory copied to a not-yet-existing dst without CopyDirContents lands at dst the first time and, by rule 2, at dst/<base> the second time: the repeat is then checked against the model, not against snapshot equality (counted as idempotence_landing_shift_by_rule_2)",
		},
		Cases: func(tier string) int {
			if tier == "thorough" {
				return 1000000
			}
			return 10000
		},
		Batch: 250,
		MinNontrivial: func(tier string) int {
			if tier == "thorough" {
				return 30000
			}
			return 3000
		},
		BatchInit: copyJailInit(func(dir string) error {
			return os.WriteFile(dir+"/.verif-jail", []byte("jail"), 0644)
		}),
		Run: c15Run,
	})
}

// c15LazyParentObstacle: patterns select an entry below a directory they do
// not select; where that directory belongs the destination has something that
// is no directory (a symlink to a directory of the destination that holds an
// entry of the selected name, or a file). Rule: conflict - the call fails, the
// obstacle stays, and nothing else of the destination changes, whatever the
// always-replace flag says.
func c15LazyParentObstacle(r *core.Result, lr *core.Rand, srcRoot, dstRoot string) *core.Result {
	dirN := core.Pick(lr, []string{"a", "lib", "a-b"})
	leaf := core.Pick(lr, []string{"f", "x.txt", "sub"})
	srcT, dstT := &tree.Tree{}, &tree.Tree{}
	srcT.Put(tree.Entry{Path: dirN, Type: tree.Dir, Perm: 0755, Mtime: 1e18})
	switch lr.Intn(3) {
	case 0:
		srcT.Put(tree.Entry{Path: dirN + "/" + leaf, Type: tree.File, Perm: 0644, Mtime: 1e18, Data: []byte("from the source")})
	case 1:
		srcT.Put(tree.Entry{Path: dirN + "/" + leaf, Type: tree.Symlink, Perm: 0777, Mtime: 1e18, Target: "elsewhere"})
	default:
		srcT.Put(tree.Entry{Path: dirN + "/" + leaf, Type: tree.Dir, Perm: 0750, Mtime: 1e18})
		srcT.Put(tree.Entry{Path: dirN + "/" + leaf + "/inner", Type: tree.File, Perm: 0600, Mtime: 1e18, Data: []byte("inner")})
	}
	srcT.Put(tree.Entry{Path: "zz-unselected", Type: tree.File, Perm: 0644, Mtime: 1e18, Data: []byte("u")})
	symlinkObstacle := lr.P(2, 3)
	if symlinkObstacle {
		dstT.Put(tree.Entry{Path: dirN, Type: tree.Symlink, Perm: 0777, Mtime: 5, Target: "other"})
		dstT.Put(tree.Entry{Path: "other", Type: tree.Dir, Perm: 0755, Mtime: 5})
		if lr.P(1, 2) {
			dstT.Put(tree.Entry{Path: "other/" + leaf, Type: tree.File, Perm: 0600, Mtime: 5, Data: []byte("precious")})
		} else {
			dstT.Put(tree.Entry{Path: "other/" + leaf, Type: tree.Dir, Perm: 0700, Mtime: 5})
			dstT.Put(tree.Entry{Path: "other/" + leaf + "/precious", Type: tree.File, Perm: 0600, Mtime: 5, Data: []byte("precious")})
		}
	} else {
		dstT.Put(tree.Entry{Path: dirN, Type: tree.File, Perm: 0644, Mtime: 5, Data: []byte("a file where the directory belongs")})
	}
	dstT.Put(tree.Entry{Path: "keep", Type: tree.File, Perm: 0644, Mtime: 5, Data: []byte("k")})
	srcT.Sort()
	dstT.Sort()
	if err := tree.Materialise(srcRoot, srcT); err != nil {
		r.Inconclusive = "materialise: " + err.Error()
		return r
	}
	if err := tree.Materialise(dstRoot, dstT); err != nil {
		r.Inconclusive = "materialise: " + err.Error()
		return r
	}
	before, err := tree.Snapshot(dstRoot, tree.SnapOpt{})
	if err != nil {
		r.Inconclusive = "snapshot: " + err.Error()
		return r
	}
	fl := cpFlags{Always: lr.P(3, 4), CDC: true, Include: []string{dirN + "/" + leaf}}
	cerr := runCopy(srcRoot, "/", dstRoot, "/", fl)
	after, err := tree.Snapshot(dstRoot, tree.SnapOpt{})
	if err != nil {
		r.Violate("dest-unreadable", "cannot snapshot the destination after the copy: %v", err)
		return r
	}
	desc := fmt.Sprintf("lazy-parent-obstacle include=%s obstacle-symlink=%v flags=%s", fl.Include[0], symlinkObstacle, fl)
	r.Sample = map[string]any{"config": desc, "source": srcT.Lines(), "destination": dstT.Lines()}
	r.FP = desc + srcT.Fingerprint() + dstT.Fingerprint()
	r.Nontrivial = true
	r.Count("lazy_parent_obstacle_cases", 1)
	if cerr == nil {
		r.Violate("lazy-parent-obstacle-no-error", "%s: the copy succeeded although a non-directory stands where the selected entry's parent belongs", desc)
		return r
	}
	if d := tree.Diff(before, after, tree.Mask{Perm: true, Owner: true, Xattrs: true, Data: true, Target: true, Mtime: true, Links: true}); len(d) > 0 {
		r.Violate("lazy-parent-obstacle-dest-changed", "%s: the copy failed (%v) as it has to, but the destination is not what it was:\n%s", desc, cerr, strings.Join(trunc(d, 6), "\n"))
	}
	return r
}

func c15Tree(r *core.Rand, side string) *tree.Tree {
	o := tree.GenOpt{MaxEntries: 14, MaxDepth: 3, MaxFanout: 5, Names: c15Names, Types: "fdlpc", Xattrs: true,
		Owners: []uint32{0, 1234}, Special: true, MaxSize: 40, NoOrderBias: true, ReadOnly: true}
	t := tree.Gen(r, o)
	for i := range t.Entries {
		e := &t.Entries[i]
		if e.Type == tree.File {
			// contents that tell the two sides apart
			e.Data = append([]byte(side+":"+e.Path+":"), e.Data...)
		}
		if side == "dst" && e.Type == tree.Fifo && r.P(1, 2) {
			e.Type = tree.Sock
		}
	}
	return t
}

func c15Args(r *core.Rand, src, dst *tree.Tree) (srcArg, dstArg string, wild bool) {
	var sAll, sDirs []string
	for _, e := range src.Entries {
		sAll = append(sAll, e.Path)
		if e.Type == tree.Dir {
			sDirs = append(sDirs, e.Path)
		}
	}
	pick := func(xs []string, def string) string {
		if len(xs) == 0 {
			return def
		}
		return core.Pick(r, xs)
	}
	switch r.Weighted([]int{11, 3, 1, 5}) {
	case 0:
		srcArg = pick(sAll, ".")
		if r.P(1, 2) { // prefer shallow entries: they collide most
			var top []string
			for _, p := range sAll {
				if !strings.Contains(p, "/") {
					top = append(top, p)
				}
			}
			srcArg = pick(top, srcArg)
		}
	case 1:
		srcArg = core.Pick(r, []string{".", "/", "/.", ""})
	case 2:
		srcArg = pick(sDirs, "") + "/."
	case 3:
		srcArg = core.Pick(r, []string{"*", "a*", "?", "[a-c]*", pick(sDirs, "d") + "/*", "*/a", "*b", "??"})
		wild = true
	}
	if !wild {
		wild = r.P(1, 6)
	}
	if srcArg != "" && !strings.HasPrefix(srcArg, "/") && !strings.HasPrefix(srcArg, ".") && r.P(1, 4) {
		srcArg = "/" + srcArg
	}

	// destination candidates: no symlink on the way and not a symlink itself
	clean := func(p string) bool {
		cur := ""
		for _, c := range strings.Split(p, "/") {
			cur = relJoin(cur, c)
			if e := dst.Get(cur); e != nil && e.Type == tree.Symlink {
				return false
			}
		}
		return true
	}
	var dDirs, dNon []string
	for _, e := range dst.Entries {
		if !clean(e.Path) {
			continue
		}
		if e.Type == tree.Dir {
			dDirs = append(dDirs, e.Path)
		} else {
			dNon = append(dNon, e.Path)
		}
	}
	newName := func(dir string) string {
		names := append([]string{"new"}, c15Names...)
		core.Shuffle(r, names)
		for _, n := range names {
			if dst.Get(relJoin(dir, n)) == nil {
				return relJoin(dir, n)
			}
		}
		return relJoin(dir, "zz")
	}
	dirOrRoot := func() string {
		if len(dDirs) == 0 || r.P(1, 3) {
			return ""
		}
		return core.Pick(r, dDirs)
	}
	switch r.Weighted([]int{5, 3, 4, 3, 3, 2}) {
	case 0:
		dstArg = pick(dDirs, "")
	case 1:
		dstArg = pick(dNon, newName(""))
	case 2:
		dstArg = newName(dirOrRoot())
	case 3:
		dstArg = newName(dirOrRoot()) + "/" + core.Pick(r, []string{"n2", "a", "n2/n3"})
	case 4:
		dstArg = core.Pick(r, []string{"/", "", "."})
	case 5:
		dstArg = pick(dNon, newName("")) + "/" + core.Pick(r, c15Names)
	}
	if dstArg != "" && dstArg != "." && !strings.HasPrefix(dstArg, "/") && r.P(1, 3) {
		dstArg = "/" + dstArg
	}
	if dstArg != "" && dstArg != "." && !strings.HasSuffix(dstArg, "/") && r.P(1, 3) {
		dstArg += "/"
	}
	if dstArg != "" && dstArg != "." && !strings.HasSuffix(dstArg, "/") && r.P(1, 14) {
		// the same directory spelled through a name that does not exist and
		// the way back: nothing called zz9 may appear
		dstArg += "/zz9/.."
	}
	return
}

// c15Check compares an observed destination snapshot with the model.
func c15Check(r *core.Result, pre string, ctx string, m *c15Model, before, got *tree.Tree, cerr error) {
	if m.Any != "" {
		r.Count(pre+"model_accepts_any_outcome", 1)
		r.AddSet("any_outcome_reasons", m.Any)
		r.Count(pre+"accept_any["+m.Any+"]", 1)
		return
	}
	if m.Err {
		r.Count(pre+"expected_error", 1)
		if cerr == nil {
			r.Violate(pre+"conflict-not-reported", "%s: %s at %q, but the copy succeeded", ctx, m.ErrWhy, m.Obstacle)
		}
		// the obstacle stays in place: as it was before the call, or, when an
		// earlier source of the same call had already replaced it, as that
		// source left it
		for _, e := range m.T.Entries {
			if !under(e.Path, m.Obstacle) {
				continue
			}
			g := got.Get(e.Path)
			if g == nil {
				r.Violate(pre+"obstacle-gone", "%s: %s: obstacle entry %q was removed (err=%v)", ctx, m.ErrWhy, e.Path, cerr)
				continue
			}
			r.Count(pre+"obstacle_entries_compared", 1)
			bad := g.Type != e.Type || !bytes.Equal(g.Data, e.Data) || g.Target != e.Target
			if b := before.Get(e.Path); b != nil && !m.Touched[e.Path] && b.Ino != g.Ino {
				bad = true
			}
			if bad {
				r.Violate(pre+"obstacle-changed", "%s: %s: obstacle entry changed (err=%v):\nexpected %s\nafter    %s ino=%d", ctx, m.ErrWhy, cerr, e.String(), g.String(), g.Ino)
			}
		}
		return
	}
	r.Count(pre+"expected_success", 1)
	if cerr != nil {
		r.Violate(pre+"unexpected-error", "%s: the overlay rules give a result but the copy failed: %v", ctx, cerr)
		return
	}
	gi := got.Index()
	for _, e := range m.T.Entries {
		j, ok := gi[e.Path]
		if !ok {
			r.Violate(pre+"overlay-shape", "%s: missing in the destination: %s", ctx, e.String())
			continue
		}
		g := got.Entries[j]
		r.Count(pre+"entries_compared", 1)
		if g.Type != e.Type {
			r.Violate(pre+"overlay-shape", "%s: %q is %c, the overlay has %c", ctx, e.Path, g.Type, e.Type)
			continue
		}
		switch e.Type {
		case tree.File:
			if !bytes.Equal(e.Data, g.Data) {
				sg := "overlay-bytes"
				why := ""
				if o, ok := m.Origin[e.Path]; ok && m.srcGroup(o) != "" {
					// the last source that landed here is a member of a hard-link group
					sg = "wildcard-link-content"
					why = fmt.Sprintf(" (last source landing here: %q, hard-linked with %q)", o, m.src.Groups()[m.srcGroup(o)])
				}
				r.Violate(pre+sg, "%s: %q holds %q, the overlay has %q%s", ctx, e.Path, g.Data, e.Data, why)
			}
		case tree.Symlink:
			if e.Target != g.Target {
				r.Violate(pre+"overlay-bytes", "%s: %q -> %q, the overlay has -> %q", ctx, e.Path, g.Target, e.Target)
			}
		case tree.Char, tree.Block:
			if e.Major != g.Major || e.Minor != g.Minor {
				r.Violate(pre+"overlay-bytes", "%s: %q is device %d,%d, the overlay has %d,%d", ctx, e.Path, g.Major, g.Minor, e.Major, e.Minor)
			}
		}
		if !m.Touched[e.Path] {
			// unrelated destination entry: inode and bytes stay
			if b := before.Get(e.Path); b != nil {
				r.Count(pre+"unrelated_entries_compared", 1)
				if b.Ino != g.Ino {
					r.Violate(pre+"unrelated-touched", "%s: unrelated destination entry %q was re-created (inode %d -> %d)", ctx, e.Path, b.Ino, g.Ino)
				}
			}
		}
		if m.PathDirs[e.Path] {
			continue
		}
		var md []string
		if e.Type != tree.Symlink && e.Perm != g.Perm {
			md = append(md, fmt.Sprintf("mode %04o want %04o", g.Perm, e.Perm))
		}
		if e.UID != g.UID || e.GID != g.GID {
			md = append(md, fmt.Sprintf("owner %d:%d want %d:%d", g.UID, g.GID, e.UID, e.GID))
		}
		if e.Type == tree.File || e.Type == tree.Dir {
			if old, nested := m.XattrOld[e.Path]; nested {
				src := map[string][]byte{}
				for k, v := range e.Xattrs {
					if ov, ok := old[k]; !ok || !bytes.Equal(ov, v) {
						src[k] = v
					}
				}
				for k, v := range src {
					if gv, ok := g.Xattrs[k]; !ok || !bytes.Equal(gv, v) {
						md = append(md, "xattr "+k+" of the source directory missing")
					}
				}
				for k, v := range g.Xattrs {
					if ev, ok := e.Xattrs[k]; !ok || !bytes.Equal(ev, v) {
						md = append(md, "xattr "+k+" from nowhere")
					}
				}
			} else if !tree.XattrEq(e.Xattrs, g.Xattrs) {
				md = append(md, "xattrs")
			}
		}
		if len(md) > 0 {
			kind := "replaced or created entry"
			if m.TopKept[e.Path] {
				kind = "existing top-level landing directory (keeps its own)"
			} else if !m.Touched[e.Path] {
				kind = "unrelated entry"
			}
			r.Violate(pre+"overlay-meta", "%s: %q (%s): %s\nwant %s\ngot  %s", ctx, e.Path, kind, strings.Join(md, "; "), e.String(), g.String())
		}
	}
	mi := m.T.Index()
	for _, g := range got.Entries {
		if _, ok := mi[g.Path]; !ok {
			r.Violate(pre+"overlay-shape", "%s: not in the overlay: %s", ctx, g.String())
		}
	}
	// images of one source inode: destination paths whose last landing
	// sources are members of one hard-link group share an inode - judged only
	// for groups none of whose images was overwritten, removed or stacked
	// during the call
	images := map[string][]string{}
	for p, o := range m.Origin {
		if grp := m.srcGroup(o); grp != "" {
			images[grp] = append(images[grp], p)
		}
	}
	for grp, ps := range images {
		if len(ps) < 2 {
			continue
		}
		sort.Strings(ps)
		if m.Disturbed[grp] {
			r.Count(pre+"link_groups_not_judged_image_overwritten_during_call", 1)
			continue
		}
		r.Count(pre+"link_groups_judged", 1)
		var first *tree.Entry
		for _, p := range ps {
			g := got.Get(p)
			if g == nil {
				continue
			}
			if first == nil {
				first = g
				continue
			}
			if g.Ino != first.Ino {
				r.Violate(pre+"link-group-split", "%s: %q and %q are images of one source inode (%q) and nothing else landed on them, but they do not share an inode (%d, %d)", ctx, first.Path, p, m.src.Groups()[grp], first.Ino, g.Ino)
				break
			}
		}
	}
}

func c15Run(c *core.Ctx) *core.Result {
	r := &core.Result{}
	// cases that exercise one of two named rules report under the rule's name
	relabel := ""
	defer func() {
		if relabel != "" {
			for i := range r.Viols {
				r.Viols[i].Msg = "[" + r.Viols[i].Sig + "] " + r.Viols[i].Msg
				r.Viols[i].Sig = relabel
			}
		}
	}()
	if !needRoot(r) {
		return r
	}
	if !inJail() {
		r.Inconclusive = "not inside the chroot jail"
		return r
	}
	// (in half of the cases the path of the destination root starts with the
	// characters of the source root's path without lying below it)
	srcRoot, dstRoot := c.Dir+"/s", c.Dir+core.Pick(core.NewRand(core.Mix(c.Seed, "C15-root-names", c.Index)), []string{"/d", "/s.d"})
	for _, d := range []string{srcRoot, dstRoot} {
		if err := os.Mkdir(d, 0755); err != nil {
			r.Inconclusive = err.Error()
			return r
		}
	}
	if lr := core.NewRand(core.Mix(c.Seed, "C15-lazy-parent-obstacle", c.Index)); lr.P(1, 40) {
		return c15LazyParentObstacle(r, lr, srcRoot, dstRoot)
	}
	srcT := c15Tree(c.R, "src")
	dstT := c15Tree(c.R, "dst")
	if c.R.P(1, 12) {
		dstT = &tree.Tree{} // empty destination
	}
	// destination files that look like the source file of the same path to
	// a quick check - same size, same time stamp - and hold other bytes
	// (two trees stamped with one epoch, an edit that kept the mtime)
	if tr := core.NewRand(core.Mix(c.Seed, "C15-same-size-and-mtime", c.Index)); tr.P(1, 3) {
		for i := range dstT.Entries {
			d := &dstT.Entries[i]
			se := srcT.Get(d.Path)
			if se == nil || se.Type != tree.File || d.Type != tree.File || se.LinkTo != "" || d.LinkTo != "" || srcT.GroupOf(se.Path) != "" || dstT.GroupOf(d.Path) != "" || !tr.P(2, 3) {
				continue
			}
			nd := append([]byte(nil), se.Data...)
			copy(nd, "dst")
			if string(nd) == string(se.Data) {
				continue
			}
			d.Data, d.Mtime = nd, se.Mtime
			r.Count("destination_files_with_the_size_and_mtime_of_the_source_file", 1)
		}
	}
	// a fixed share of cases: wildcard with several matches, the first of
	// them a directory, onto a destination that does not exist yet - the
	// first match creates dst and the later ones meet it
	seqMode := c.R.P(1, 7)
	if seqMode && c.R.P(2, 3) && len(srcT.Entries) > 0 {
		// make the lexically first top-level source entry a directory
		first := &srcT.Entries[0]
		if first.Type != tree.Dir && !strings.Contains(first.Path, "/") {
			first.Type, first.Data, first.Target, first.Major, first.Minor = tree.Dir, nil, "", 0, 0
			first.Perm = core.Pick(c.R, []uint32{0755, 0700, 0750})
			first.Xattrs = nil
			kid := tree.Entry{Path: first.Path + "/" + core.Pick(c.R, c15Names), Type: tree.File, Perm: 0644, Mtime: 1_400_000_000_000_000_000, Data: []byte("src:seq-kid")}
			srcT.Entries = append(srcT.Entries, kid)
			srcT.Sort()
		}
	}
	// one case in three: the source carries hard-link groups (regular files,
	// sometimes fifos) with members in different directories. Drawn from a
	// generator of its own so that the other cases stay what they were.
	lr := core.NewRand(core.Mix(c.Seed, "C15-links", c.Index))
	linkMode := lr.P(1, 3)
	forced := false
	if linkMode {
		forced = c15AddLinks(lr, srcT)
	}
	if err := tree.Materialise(srcRoot, srcT); err != nil {
		r.Inconclusive = "materialise src: " + err.Error()
		return r
	}
	if err := tree.Materialise(dstRoot, dstT); err != nil {
		r.Inconclusive = "materialise dst: " + err.Error()
		return r
	}
	// the source root's own metadata matters when the root itself is copied
	rootMeta := tree.Entry{Type: tree.Dir, Perm: core.Pick(c.R, []uint32{0755, 0750, 0711}), UID: core.Pick(c.R, []uint32{0, 1234}), GID: 0, Mtime: 1_300_000_000_000_000_123}
	if err := tree.ApplyMeta(srcRoot, &rootMeta); err != nil {
		r.Inconclusive = err.Error()
		return r
	}
	var fl cpFlags
	fl.CDC, fl.Always = c.R.P(1, 2), c.R.P(2, 5)
	srcArg, dstArg, wild := c15Args(c.R, srcT, dstT)
	if seqMode {
		srcArg, dstArg, wild = c15SeqArgs(c.R, srcT, dstT, srcArg, dstArg)
	}
	if linkMode && len(srcT.Groups()) > 0 && (forced || lr.P(1, 2)) {
		// wildcards that sweep several directories, so that entries with the
		// same base name from different directories land on one path
		var members []string
		for _, g := range srcT.Groups() {
			members = append(members, g...)
		}
		srcArg = core.Pick(lr, []string{"*/*", "?/*", "*/*", "*/" + tree.Base(core.Pick(lr, members)), "*"})
		wild = true
		if lr.P(2, 3) {
			// an existing directory (or one made by the trailing separator)
			var dirs []string
			for _, e := range dstT.Entries {
				if e.Type == tree.Dir && !strings.Contains(e.Path, "/") {
					dirs = append(dirs, e.Path)
				}
			}
			if len(dirs) > 0 && lr.P(1, 2) {
				dstArg = core.Pick(lr, dirs)
			} else {
				dstArg = core.Pick(lr, []string{"out/", "/", "", "out/n2/"})
			}
		}
	}
	// two further modes, drawn from a generator of their own: (1) a source
	// spelled "x/." for an entry x of any type (mostly non-directories) onto
	// an existing directory or the root; (2) a directory source, directory
	// contents mode off, onto an existing non-directory
	xr := core.NewRand(core.Mix(c.Seed, "C15-rules", c.Index))
	switch xr.Weighted([]int{2, 1, 21}) {
	case 0:
		var non, all []string
		for _, e := range srcT.Entries {
			all = append(all, e.Path)
			if e.Type != tree.Dir {
				non = append(non, e.Path)
			}
		}
		if len(all) > 0 {
			x := core.Pick(xr, all)
			if len(non) > 0 && xr.P(3, 4) {
				x = core.Pick(xr, non)
			}
			srcArg = x + "/."
			if xr.P(1, 4) {
				srcArg = "/" + srcArg
			}
			wild = xr.P(1, 8)
			if xr.P(2, 3) {
				var dirs []string
				for _, e := range dstT.Entries {
					if e.Type == tree.Dir && !strings.Contains(e.Path, "/") {
						dirs = append(dirs, e.Path)
					}
				}
				if len(dirs) > 0 && xr.P(1, 2) {
					dstArg = core.Pick(xr, dirs)
				} else {
					dstArg = core.Pick(xr, []string{"/", "", ".", "new/"})
				}
			}
			fl.Always = xr.P(1, 2)
		}
	case 1:
		var sdirs, dnon []string
		for _, e := range srcT.Entries {
			if e.Type == tree.Dir {
				sdirs = append(sdirs, e.Path)
			}
		}
		for _, e := range dstT.Entries {
			if e.Type != tree.Dir && e.Type != tree.Symlink && !strings.Contains(e.Path, "/") {
				dnon = append(dnon, e.Path)
			}
		}
		if len(sdirs) > 0 && len(dnon) > 0 {
			srcArg, dstArg, wild = core.Pick(xr, sdirs), core.Pick(xr, dnon), false
			fl.CDC = false
			fl.Always = xr.P(1, 2)
		}
	}
	fl.Wild = wild

	sample := map[string]any{"src_tree": srcT.Lines(), "dst_tree": dstT.Lines(), "src": srcArg, "dst": dstArg, "flags": fl.String()}
	r.Sample = sample
	h := fnv.New64a()
	fmt.Fprintf(h, "%s|%s|%q|%q|%s", srcT.Fingerprint(), dstT.Fingerprint(), srcArg, dstArg, fl)
	r.FP = fmt.Sprintf("%x", h.Sum64())
	ctx := fmt.Sprintf("src=%q dst=%q [%s]", srcArg, dstArg, fl)

	srcSnap, err := tree.Snapshot(srcRoot, tree.SnapOpt{})
	if err != nil {
		r.Inconclusive = err.Error()
		return r
	}
	before, err := tree.Snapshot(dstRoot, tree.SnapOpt{})
	if err != nil {
		r.Inconclusive = err.Error()
		return r
	}
	if re, err := tree.LstatEntry(srcRoot, tree.SnapOpt{}); err == nil {
		rootMeta = *re
		rootMeta.Type = tree.Dir
	}
	m := c15Overlay(srcSnap, rootMeta, before, srcArg, dstArg, fl)

	switch {
	case m.NondirDot:
		relabel = "nondir-dot-source"
	case m.DirOverNondir && fl.Always:
		relabel = "dir-over-nondir-always-replace"
	}
	cerr := runCopy(srcRoot, srcArg, dstRoot, dstArg, fl)
	rootGone := func(when string) bool {
		// the destination root itself must survive as the directory it was
		// (never walked into when it is not: it may have become a fifo)
		e, err := tree.LstatEntry(dstRoot, tree.SnapOpt{NoData: true})
		if err != nil || e.Type != tree.Dir {
			what := "removed"
			if err == nil {
				what = fmt.Sprintf("replaced by an entry of type %c", e.Type)
			}
			r.Violate("dst-root-replaced", "%s: after %s the destination root itself was %s (err=%v)", ctx, when, what, cerr)
			return true
		}
		return false
	}
	if rootGone("the copy") {
		return r
	}
	got, err := tree.Snapshot(dstRoot, tree.SnapOpt{})
	if err != nil {
		r.Violate("dst-unreadable", "%s: destination cannot be snapshotted after the copy: %v", ctx, err)
		return r
	}
	if cerr != nil {
		sample["error"] = cerr.Error()
	}
	sample["model"] = map[string]any{"err": m.Err, "why": m.ErrWhy, "obstacle": m.Obstacle, "any": m.Any, "landings": m.Landings, "events": m.Events}
	switch {
	case m.NondirDot:
		r.Count("nondir_dot_source_into_existing_directory", 1)
		if fl.Always {
			r.Count("nondir_dot_source_into_existing_directory_always_replace", 1)
		}
	case m.DirOverNondir:
		r.Count("dir_source_onto_existing_non_directory", 1)
		if fl.Always {
			r.Count("dir_source_onto_existing_non_directory_always_replace", 1)
		}
	}
	c15Check(r, "", ctx, m, before, got, cerr)

	// what the case exercised
	collided := false
	for _, ev := range m.Events {
		r.AddSet("type_pair_outcomes", ev)
		r.Count("overlay_events", 1)
		if !strings.Contains(ev, ">-:") {
			collided = true
		}
	}
	r.Nontrivial = collided && m.Any == ""
	if m.WildDotCleaned {
		r.Count("dir_slash_dot_source_with_wildcards_lands_under_own_name", 1)
	}
	r.AddSet("flag_combinations", fl.String())
	if len(srcSnap.Groups()) > 0 {
		r.Count("cases_source_has_hard_link_groups", 1)
		if forced {
			r.Count("cases_stacking_shape_arranged", 1)
		}
		stacked := 0
		for _, n := range m.LandedN {
			if n > 1 {
				stacked++
			}
		}
		if stacked > 0 {
			r.Count("cases_links_and_some_destination_path_landed_on_twice", 1)
		}
		if len(m.Disturbed) > 0 && m.Any == "" && !m.Err {
			r.Count("cases_link_group_image_overwritten_during_call", 1)
		}
	}
	if strings.HasSuffix(dstArg, "/..") {
		r.Count("dst_ending_in_dotdot", 1)
	}
	if strings.HasSuffix(dstArg, "/") {
		r.Count("dst_with_trailing_separator", 1)
	}
	nestedNew := false
	for p := range m.PathDirs {
		if before.Get(p) == nil {
			nestedNew = true
		}
	}
	if nestedNew {
		r.Count("dst_nested_not_yet_existing", 1)
	}
	if fl.Wild && strings.ContainsAny(srcArg, "*?[") {
		r.Count("wildcard_sources", 1)
		if m.NMatches > 1 {
			r.Count("wildcard_sources_with_several_matches", 1)
		}
		if m.SeqOntoNonDir {
			r.Count("wildcard_onto_non_directory_modelled_as_sequence", 1)
			if m.SeqDstMissing && m.NMatches > 1 {
				r.Count("wildcard_several_matches_onto_missing_dst", 1)
				if m.FirstMatchDir {
					r.Count("wildcard_several_matches_onto_missing_dst_first_match_dir", 1)
					if m.Any == "" && !m.Err {
						r.Count("wildcard_several_matches_onto_missing_dst_first_match_dir_success_expected", 1)
					}
				}
			}
		}
	}
	for i, L := range m.Landings {
		if i < len(m.Landings) && L != cleanRel(dstArg) {
			r.Count("landed_inside_dst_under_own_name", 1)
			break
		}
	}
	if len(r.Viols) > 0 || m.Any != "" || m.Err || cerr != nil {
		return r
	}

	// rule 7: repeat the successful copy
	m2 := c15Overlay(srcSnap, rootMeta, got, srcArg, dstArg, fl)
	cerr2 := runCopy(srcRoot, srcArg, dstRoot, dstArg, fl)
	if rootGone("the repeated copy") {
		return r
	}
	got2, err := tree.Snapshot(dstRoot, tree.SnapOpt{})
	if err != nil {
		r.Violate("dst-unreadable", "%s: destination cannot be snapshotted after the repeated copy: %v", ctx, err)
		return r
	}
	r.Count("repeats_run", 1)
	sample["model_repeat"] = map[string]any{"err": m2.Err, "why": m2.ErrWhy, "obstacle": m2.Obstacle, "any": m2.Any, "landings": m2.Landings}
	c15Check(r, "repeat-", ctx+" (repeated)", m2, got, got2, cerr2)
	if strings.Join(m.Landings, "|") != strings.Join(m2.Landings, "|") {
		r.Count("idempotence_landing_shift_by_rule_2", 1)
		return r
	}
	if m2.Any != "" {
		return r
	}
	if m2.Err {
		// same landing, and the rules applied to the first result conflict:
		// cannot happen for an overlay (every source entry meets its own image)
		r.Violate("idempotence", "%s: the first copy succeeded, the rules applied to its result give a conflict at %q (%s)", ctx, m2.Obstacle, m2.ErrWhy)
		return r
	}
	if cerr2 != nil {
		return r
	}
	r.Count("idempotence_checked", 1)
	anc := func(p string) bool {
		for _, L := range m2.Landings {
			if properAncestor(p, L) {
				return true
			}
		}
		return false
	}
	i2 := got2.Index()
	for _, a := range got.Entries {
		j, ok := i2[a.Path]
		if !ok {
			r.Violate("idempotence", "%s: the repeated copy removed %s", ctx, a.String())
			continue
		}
		b := got2.Entries[j]
		var d []string
		for _, f := range sameAll(&a, &b) {
			switch f {
			case "inode", "ctime":
			case "mtime":
				if a.Type == tree.Dir && anc(a.Path) {
					r.Count("idempotence_ancestor_dir_mtime_moved", 1)
					continue
				}
				d = append(d, f)
			default:
				d = append(d, f)
			}
		}
		r.Count("idempotence_entries_compared", 1)
		if len(d) > 0 {
			r.Violate("idempotence", "%s: the repeated copy changed %q (%s):\nfirst  %s\nsecond %s", ctx, a.Path, strings.Join(d, ","), a.String(), b.String())
		}
	}
	i1 := got.Index()
	for _, b := range got2.Entries {
		if _, ok := i1[b.Path]; !ok {
			r.Violate("idempotence", "%s: the repeated copy added %s", ctx, b.String())
		}
	}
	return r
}

// c15SeqArgs draws arguments for the "wildcard onto a not yet existing dst"
// mode: a pattern with at least two matches, preferably with a directory as
// its first match, and a destination name that does not exist (plain or
// nested, no trailing separator - that would create it first).
func c15SeqArgs(r *core.Rand, src, dst *tree.Tree, defSrc, defDst string) (string, string, bool) {
	var sDirs []string
	for _, e := range src.Entries {
		if e.Type == tree.Dir {
			sDirs = append(sDirs, e.Path)
		}
	}
	pats := []string{"*", "?", "[a-c]*", "a*", "??", "*b", "[a-e]", "*/a", "*/*"}
	for _, d := range sDirs {
		pats = append(pats, d+"/*", d+"/?")
	}
	core.Shuffle(r, pats)
	best, several := "", ""
	for _, p := range pats {
		ms, _, ok := c15Matches(src, p)
		if !ok || len(ms) < 2 {
			continue
		}
		if several == "" {
			several = p
		}
		if src.Get(ms[0]).Type == tree.Dir {
			best = p
			break
		}
	}
	if best == "" {
		best = several
	}
	if best == "" {
		return defSrc, defDst, strings.ContainsAny(defSrc, "*?[")
	}
	// destination: a name that does not exist, below the root or an existing
	// real directory (no symlink on the way)
	parents := []string{""}
	for _, e := range dst.Entries {
		if e.Type != tree.Dir {
			continue
		}
		ok := true
		cur := ""
		for _, c := range strings.Split(e.Path, "/") {
			cur = relJoin(cur, c)
			if x := dst.Get(cur); x == nil || x.Type != tree.Dir {
				ok = false
			}
		}
		if ok {
			parents = append(parents, e.Path)
		}
	}
	par := core.Pick(r, parents)
	name := "new"
	for _, n := range append([]string{"new"}, c15Names...) {
		if dst.Get(relJoin(par, n)) == nil {
			name = n
			if r.P(1, 2) {
				break
			}
		}
	}
	d := relJoin(par, name)
	if r.P(1, 3) {
		d += "/" + core.Pick(r, []string{"n2", "a", "n2/n3"})
	}
	if r.P(1, 3) {
		d = "/" + d
	}
	if r.P(1, 4) {
		best = "/" + best
	}
	return best, d, true
}

// c15AddLinks adds one or two hard-link groups to a source tree: further
// names, in other directories, for an existing regular file (one time in
// five for a fifo). In half of the cases it also arranges the shape in which
// a wildcard over several directories stacks two different files on one
// destination name between two members of a group: D1/n (member), D2/n
// (other content), D3/m (member) with D1 < D2 < D3 in walk order. Reports
// whether that shape was arranged.
func c15AddLinks(r *core.Rand, t *tree.Tree) (forced bool) {
	dirs := []string{""}
	for _, e := range t.Entries {
		if e.Type == tree.Dir {
			dirs = append(dirs, e.Path)
		}
	}
	free := func(p string) bool {
		if t.Get(p) != nil {
			return false
		}
		// the parent must be a directory of the tree (or the root)
		par := tree.Parent(p)
		if par == "" {
			return true
		}
		e := t.Get(par)
		return e != nil && e.Type == tree.Dir
	}
	addMember := func(of string, p string) bool {
		src := t.Get(of)
		if src == nil || !free(p) {
			return false
		}
		ne := src.Clone()
		ne.Path = p
		ne.LinkTo = of
		t.Entries = append(t.Entries, ne)
		t.Sort()
		return true
	}
	if r.P(1, 2) {
		// the stacking shape, on top-level directories
		var tops []string
		for _, e := range t.Entries {
			if e.Type == tree.Dir && !strings.Contains(e.Path, "/") {
				tops = append(tops, e.Path)
			}
		}
		names := append([]string(nil), c15Names...)
		core.Shuffle(r, names)
		for _, n := range names {
			if len(tops) >= 3 {
				break
			}
			if t.Get(n) == nil {
				t.Entries = append(t.Entries, tree.Entry{Path: n, Type: tree.Dir, Perm: 0755, Mtime: 1_350_000_000_000_000_000})
				tops = append(tops, n)
			}
		}
		t.Sort()
		if len(tops) >= 3 {
			sort.Strings(tops)
			i := r.Intn(len(tops) - 2)
			d1, d2, d3 := tops[i], tops[i+1], tops[i+2]
			n := core.Pick(r, c15Names)
			mname := core.Pick(r, c15Names)
			e1 := t.Get(d1 + "/" + n)
			if e1 == nil {
				t.Entries = append(t.Entries, tree.Entry{Path: d1 + "/" + n, Type: tree.File, Perm: 0644, Mtime: 1_360_000_000_000_000_000, Data: []byte("src:" + d1 + "/" + n + ":first-member")})
				t.Sort()
				e1 = t.Get(d1 + "/" + n)
			}
			if e1.Type == tree.File && e1.LinkTo == "" && mname != n {
				if e2 := t.Get(d2 + "/" + n); e2 == nil {
					t.Entries = append(t.Entries, tree.Entry{Path: d2 + "/" + n, Type: tree.File, Perm: 0600, Mtime: 1_370_000_000_000_000_000, Data: []byte("src:" + d2 + "/" + n + ":other-content")})
					t.Sort()
				}
				if e2 := t.Get(d2 + "/" + n); e2 != nil && e2.Type != tree.Dir {
					forced = addMember(d1+"/"+n, d3+"/"+mname)
				}
			}
		}
	}
	groups := r.Range(1, 2)
	if forced {
		groups--
	}
	for g := 0; g < groups; g++ {
		var cands []string
		want := byte(tree.File)
		if r.P(1, 5) {
			want = tree.Fifo
		}
		for _, e := range t.Entries {
			if e.Type == want && e.LinkTo == "" {
				cands = append(cands, e.Path)
			}
		}
		if len(cands) == 0 {
			continue
		}
		of := core.Pick(r, cands)
		for k := r.Range(1, 3); k > 0; k-- {
			addMember(of, relJoin(core.Pick(r, dirs), core.Pick(r, c15Names)))
		}
	}
	t.Recanon()
	return forced
}
