package main

import (
	"bytes"
	"context"
	"errors"
	"fmt"
	"io"
	gofs "io/fs"
	"os"
	"path"
	"path/filepath"
	"runtime"
	"sort"
	"strings"
	"sync/atomic"
	"syscall"

	"github.com/tonistiigi/fsutil"
	"verif/internal/core"
	"verif/internal/refs"
	"verif/internal/tree"
	"verif/internal/wire"
)

// C18: fsutil.FollowLinks yields a terminating, closed, minimal include set.
//
// Oracle = refs.Resolve (chroot-style walk over the tree model). For every
// request without wildcards, every symlink the model traverses and the final
// location it reaches must be covered by the returned list; the same for
// every directory entry matching a wildcard in the LAST component. Wildcards
// in MIDDLE components: only termination and the shape of the list are
// demanded (the statement does not fix their expansion).

// ---------------------------------------------------------------------------
// workload: link graphs

var c18Names = []string{"a", "b", "c", "l", "m", "t", "x", "y", "a-b", "l2", "k"}

func c18Meta(e *tree.Entry) {
	e.Mtime = 1600000000_000000000
	switch e.Type {
	case tree.Dir:
		e.Perm = 0755
	case tree.Symlink:
		e.Perm = 0777
	default:
		e.Perm = 0644
	}
}

func relTo(dir, p string) string {
	if dir == "" {
		return p
	}
	if strings.HasPrefix(p, dir+"/") {
		return p[len(dir)+1:]
	}
	return strings.Repeat("../", strings.Count(dir, "/")+1) + p
}

type c18gen struct {
	r *core.Rand
	t *tree.Tree
}

func (g *c18gen) skeleton(prefix string, depth, budget int) int {
	n := g.r.Range(1, 4)
	names := append([]string(nil), c18Names...)
	core.Shuffle(g.r, names)
	// bias towards the sibling set a, a-b (byte order and path order disagree)
	if g.r.P(1, 3) {
		names = append([]string{"a", "a-b"}, names...)
		if n < 2 {
			n = 2
		}
	}
	used := map[string]bool{}
	for _, nm := range names {
		if n == 0 || budget <= 0 {
			break
		}
		if used[nm] {
			continue
		}
		used[nm] = true
		n--
		budget--
		p := nm
		if prefix != "" {
			p = prefix + "/" + nm
		}
		w := []int{4, 3, 5}
		if depth >= 3 {
			w[0] = 0
		}
		if nm == "a" && g.r.P(2, 3) && depth < 3 {
			w = []int{1, 0, 0}
		}
		typ := []byte{tree.Dir, tree.File, tree.Symlink}[g.r.Weighted(w)]
		e := tree.Entry{Path: p, Type: typ}
		c18Meta(&e)
		if typ == tree.File {
			e.Data = g.r.Bytes(g.r.Range(0, 12))
			if len(e.Data) == 0 {
				e.Data = []byte{}
			}
		}
		g.t.Entries = append(g.t.Entries, e)
		if typ == tree.Dir {
			budget = g.skeleton(p, depth+1, budget)
		}
	}
	return budget
}

func (g *c18gen) target(p string, all []string, links []string) string {
	r := g.r
	dir := tree.Parent(p)
	nm := func() string { return core.Pick(r, c18Names) }
	switch r.Weighted([]int{6, 4, 5, 2, 2, 2, 3, 2, 2, 4, 1, 1}) {
	case 0: // relative path to an existing entry
		if len(all) > 0 {
			return relTo(dir, core.Pick(r, all))
		}
		return nm()
	case 1: // absolute path to an existing entry
		if len(all) > 0 {
			return "/" + core.Pick(r, all)
		}
		return "/" + nm()
	case 2: // sibling name (possibly another link, possibly missing)
		return nm()
	case 3: // self loop
		return tree.Base(p)
	case 4: // growing cycle
		return tree.Base(p) + "/" + nm()
	case 5:
		return "."
	case 6: // up, possibly beyond the root
		return core.Pick(r, []string{"..", "../..", "../../../" + nm(), "../" + nm(), "../../" + nm() + "/" + nm()})
	case 7: // dangling
		return core.Pick(r, []string{"nope", "nope/x", "/nope"})
	case 8: // dot and dotdot inside the target
		return "./" + nm() + "/../" + nm()
	case 9: // through another link
		if len(links) > 0 {
			l := core.Pick(r, links)
			if r.P(1, 2) {
				return "/" + l + "/" + nm()
			}
			return relTo(dir, l) + "/" + nm()
		}
		return nm() + "/" + nm()
	case 10:
		return "/"
	default:
		if len(all) > 0 {
			return relTo(dir, core.Pick(r, all)) + "/"
		}
		return nm() + "/"
	}
}

func c18GenTree(r *core.Rand) *tree.Tree {
	g := &c18gen{r: r, t: &tree.Tree{}}
	g.skeleton("", 0, r.Range(2, 12))
	t := g.t
	t.Sort()
	put := func(p string, typ byte, target string) {
		if t.Get(p) != nil {
			return
		}
		for a := tree.Parent(p); a != ""; a = tree.Parent(a) {
			if e := t.Get(a); e == nil || e.Type != tree.Dir {
				return
			}
		}
		e := tree.Entry{Path: p, Type: typ, Target: target}
		c18Meta(&e)
		if typ == tree.File {
			e.Data = []byte("data:" + p)
		}
		t.Put(e)
	}
	dirs := []string{""}
	for _, e := range t.Entries {
		if e.Type == tree.Dir {
			dirs = append(dirs, e.Path)
		}
	}
	inDir := func(d, n string) string {
		if d == "" {
			return n
		}
		return d + "/" + n
	}
	// explicit shapes
	if r.P(1, 5) { // cycle of k links
		d := core.Pick(r, dirs)
		k := r.Range(2, 4)
		for i := 0; i < k; i++ {
			put(inDir(d, fmt.Sprintf("cy%d", i)), tree.Symlink, fmt.Sprintf("cy%d", (i+1)%k))
		}
	}
	if r.P(1, 5) { // chain
		d := core.Pick(r, dirs)
		k := r.Range(2, 6)
		if r.P(1, 6) {
			// around the 40-link limit (the kernel fails on the 41st link)
			k = r.Range(38, 43)
		}
		for i := 0; i < k; i++ {
			tg := fmt.Sprintf("ch%d", i+1)
			if i == k-1 {
				tg = core.Pick(r, []string{"chend", "/", ".", "nope"})
			}
			put(inDir(d, fmt.Sprintf("ch%d", i)), tree.Symlink, tg)
		}
		put(inDir(d, "chend"), tree.File, "")
	}
	if r.P(1, 25) {
		// a name that is also a glob pattern, reached through a link, next to
		// the name the pattern would match (known finding K9: the resolved
		// target is used as an include pattern as it is)
		switch r.Intn(3) {
		case 0:
			put("q[1]", tree.File, "")
			put("q1", tree.File, "")
			put("lq", tree.Symlink, "q[1]")
		case 1:
			// ... or starts with the exclusion marker of a pattern list
			put("!imp", tree.File, "")
			put("lq", tree.Symlink, "!imp")
		default:
			// ... or ends in white space, which a pattern list trims
			put("data ", tree.File, "")
			put("data", tree.File, "")
			put("lq", tree.Symlink, "data ")
		}
	}
	if r.P(1, 25) {
		// the library layout: many links in one directory, each the head of
		// a chain of its own (w/l07 -> ../ws/m07 -> t07). One wildcard
		// request matches them all; every match is a lookup of its own with
		// its own budget of 40 links, together they follow more than 40
		put("w", tree.Dir, "")
		put("ws", tree.Dir, "")
		for i, n := 0, r.Range(21, 26); i < n; i++ {
			put(fmt.Sprintf("w/l%02d", i), tree.Symlink, fmt.Sprintf("../ws/m%02d", i))
			put(fmt.Sprintf("ws/m%02d", i), tree.Symlink, fmt.Sprintf("t%02d", i))
			put(fmt.Sprintf("ws/t%02d", i), tree.File, "")
		}
	}
	if r.P(1, 25) {
		// a link whose target holds a component longer than NAME_MAX: a legal
		// link text, it names nothing (the lookup fails with ENAMETOOLONG)
		put(inDir(core.Pick(r, dirs), "lng"), tree.Symlink, core.Pick(r, []string{strings.Repeat("a", 300), "a/" + strings.Repeat("n", 256), "/" + strings.Repeat("x", 255) + "y/z"}))
	}
	if r.P(1, 25) {
		// a colon in names behind a link (a volume separator elsewhere, an
		// ordinary byte here)
		put("logs", tree.Dir, "")
		put("logs/10:30", tree.Dir, "")
		put("logs/10:30/out", tree.File, "")
		put("logs/c:", tree.File, "")
		put("latest", tree.Symlink, core.Pick(r, []string{"logs/10:30/out", "/logs/10:30/out", "logs/c:"}))
		put("lcd", tree.Symlink, "logs/10:30")
	}
	if r.P(1, 6) { // a link to a directory with two files: the shared-prefix shape
		put("t", tree.Dir, "")
		put("t/x", tree.File, "")
		put("t/y", tree.File, "")
		put(inDir(core.Pick(r, dirs), "lt"), tree.Symlink, "/t")
	}
	var all, links []string
	for _, e := range t.Entries {
		all = append(all, e.Path)
		if e.Type == tree.Symlink {
			links = append(links, e.Path)
		}
	}
	for i := range t.Entries {
		e := &t.Entries[i]
		if e.Type == tree.Symlink && e.Target == "" {
			e.Target = g.target(e.Path, all, links)
		}
	}
	return t
}

func c18HasWild(s string) bool { return strings.ContainsAny(s, "*?[") }

func c18GenRequests(r *core.Rand, t *tree.Tree) []string {
	var all, links, dirs []string
	for _, e := range t.Entries {
		all = append(all, e.Path)
		switch e.Type {
		case tree.Symlink:
			links = append(links, e.Path)
		case tree.Dir:
			dirs = append(dirs, e.Path)
		}
	}
	nm := func() string { return core.Pick(r, c18Names) }
	n := r.Weighted([]int{0, 5, 5, 3, 2})
	var out []string
	idx := refs.Index(t)
	// a long chain is requested near its head, so that the walk crosses
	// 37..43 links: the limit itself is part of what is explored
	if e := t.Get("lq"); e != nil && (e.Target == "q[1]" || e.Target == "!imp" || e.Target == "data ") && r.P(3, 4) {
		out = append(out, "lq")
	}
	for _, e := range t.Entries {
		if e.Type == tree.Symlink && tree.Base(e.Path) == "lng" && r.P(3, 4) {
			out = append(out, e.Path)
		}
	}
	if r.P(1, 40) {
		out = append(out, core.Pick(r, []string{strings.Repeat("q", 300), "a/" + strings.Repeat("q", 256) + "/x"}))
	}
	if e := t.Get("lcd"); e != nil && e.Target == "logs/10:30" && r.P(3, 4) {
		out = append(out, core.Pick(r, []string{"latest", "lcd/out", "lcd", "/latest"}))
	}
	if e := t.Get("w/l20"); e != nil && e.Type == tree.Symlink && r.P(3, 4) {
		out = append(out, core.Pick(r, []string{"w/*", "w/l*", "w/l??", "*/l*"}))
	}
	for _, e := range t.Entries {
		if e.Type == tree.Symlink && tree.Base(e.Path) == "ch37" && r.P(3, 4) {
			out = append(out, joinRel(tree.Parent(e.Path), fmt.Sprintf("ch%d", r.Intn(4))))
		}
	}
	for len(out) < n {
		var q string
		switch r.Weighted([]int{4, 8, 5, 2, 4, 3, 1, 2}) {
		case 0:
			q = core.Pick(r, all)
		case 1: // through a link, with a remainder that exists below the link's destination when possible
			if len(links) == 0 {
				continue
			}
			l := core.Pick(r, links)
			q = l
			k := r.Range(0, 2)
			for i := 0; i < k; i++ {
				res := refs.Resolve(idx, q)
				if res.Status == refs.Reached && res.FinalType == tree.Dir && r.P(3, 4) {
					if ch := refs.Children(t, res.Final); len(ch) > 0 {
						q += "/" + core.Pick(r, ch)
						continue
					}
				}
				q += "/" + nm()
			}
		case 2: // shares a prefix with an earlier request
			if len(out) == 0 {
				continue
			}
			prev := core.Pick(r, out)
			if c18HasWild(prev) {
				continue
			}
			comps := strings.Split(strings.Trim(prev, "/"), "/")
			keep := r.Range(1, len(comps))
			q = strings.Join(comps[:keep], "/")
			res := refs.Resolve(idx, q)
			if res.Status == refs.Reached && res.FinalType == tree.Dir && r.P(3, 4) {
				if ch := refs.Children(t, res.Final); len(ch) > 0 {
					q += "/" + core.Pick(r, ch)
					break
				}
			}
			q += "/" + nm()
		case 3: // missing
			q = core.Pick(r, []string{"nope", "nope/x/y", nm() + "/nope"})
		case 4: // wildcard in the last component
			d := ""
			if r.P(2, 3) {
				cands := append(append([]string{}, dirs...), links...)
				if len(cands) > 0 {
					d = core.Pick(r, cands) + "/"
				}
			}
			q = d + core.Pick(r, []string{"*", "l*", "?", "a*", "c*", "[a-l]*", "*2", "t*"})
		case 5: // wildcard in a middle component
			q = core.Pick(r, []string{"*", "l*", "a*", "?", "c*"}) + "/" + nm()
			if r.P(1, 3) {
				q += "/" + core.Pick(r, []string{nm(), "*"})
			}
			if r.P(1, 3) && len(dirs) > 0 {
				q = core.Pick(r, dirs) + "/" + q
			}
		case 6:
			q = core.Pick(r, []string{".", "/", ""})
		case 7: // D11 shape: a sibling whose name extends a directory name with a byte below '/'
			if e := t.Get("a"); e != nil && len(out)+2 <= 4 {
				out = append(out, "a-b")
				if ch := refs.Children(t, "a"); len(ch) > 0 && e.Type == tree.Dir {
					out = append(out, "a/"+core.Pick(r, ch))
				} else {
					out = append(out, "a/"+nm())
				}
				q = "a"
			} else {
				continue
			}
		}
		if q != "" && q != "/" && q != "." && r.P(1, 10) {
			q = "/" + q
		} else if q != "" && !strings.HasPrefix(q, "/") && r.P(1, 12) {
			// a request that starts above the root: the root is "/", so the
			// leading ".." elements stay there
			q = core.Pick(r, []string{"../", "../../", "./../"}) + q
		}
		out = append(out, q)
	}
	core.Shuffle(r, out)
	return out
}

// ---------------------------------------------------------------------------
// counting / bounding FS wrapper

var errStepBound = errors.New("verif: step bound exceeded")
var errSafetyCap = errors.New("verif: memory safety cap exceeded")

// countFS counts Walk calls. Past the step bound the call fails (so that a
// non-terminating resolver unwinds instead of eating the machine). A
// resolver that recurses without a guard on a growing cycle (l -> l/x) keeps
// one ever longer path per level alive, quadratic in the number of steps:
// every 256 calls the heap and stack in use are sampled and the call is
// failed when they grew by more than memCap bytes; hitting that cap before
// the step bound makes the case inconclusive, never a violation.
type countFS struct {
	fs     fsutil.FS
	walks  atomic.Int64
	bound  int64
	memCap uint64
	mem0   uint64
	capHit atomic.Bool
}

func memInUse() uint64 {
	var ms runtime.MemStats
	runtime.ReadMemStats(&ms)
	return ms.HeapAlloc + ms.StackInuse
}

func (c *countFS) Walk(ctx context.Context, target string, fn gofs.WalkDirFunc) error {
	n := c.walks.Add(1)
	if c.bound > 0 && n > c.bound {
		return errStepBound
	}
	if c.memCap > 0 && n%256 == 0 {
		if c.capHit.Load() {
			return errSafetyCap
		}
		if m := memInUse(); m > c.mem0 && m-c.mem0 > c.memCap {
			c.capHit.Store(true)
			return errSafetyCap
		}
	}
	return c.fs.Walk(ctx, target, fn)
}

func (c *countFS) Open(p string) (io.ReadCloser, error) { return c.fs.Open(p) }

// ---------------------------------------------------------------------------
// oracle

type c18Demand struct {
	Path string `json:"path"`
	What string `json:"what"` // "symlink" | "final"
	Req  string `json:"request"`
	// CutByLinkGuard: when the model's walk of the request list is cut short
	// at every second traversal of a symlink (any remainder), this location
	// is no longer reached - the signature of D9 (the cycle guard is keyed on
	// the link alone).
	CutByLinkGuard bool `json:"cut_by_link_keyed_guard"`
	// LexDotDot: behind a link whose target has a ".." after a named
	// component (lexical and physical interpretation may differ).
	LexDotDot bool `json:"after_lexical_dotdot"`
}

// c18Trace is one complete walk of the model: a plain request, or one
// expansion branch of a request with wildcards.
type c18Trace struct {
	Req    string
	Demand bool // false: branch of a request with a middle-component wildcard (bookkeeping only)
	Steps  []refs.Step
	Status int
	Final  string
	Type   byte
}

type c18Model struct {
	Traces      []c18Trace
	Demands     []c18Demand
	RootReached []string // demanding requests that reach the root
	// every root-reaching walk is explained by lexical dotdot; the root is
	// not reached under the link-keyed guard
	RootAllLex, RootCutByLinkGuard bool
	MidWild                        int
	Plain, Last                    int
	nextID                         int
	// some walk (demanding or not) passes a link whose target walks
	// differently from its lexically cleaned form; some demanding walk ends
	// with ELOOP
	AnyLexDiffers, AnyLoop bool
	Repeat                 map[string]bool // links traversed with >= 2 different remainders
	Status                 map[string]int
	Links                  int
	MaxChain               int
	Resolved               map[string]refs.Resolution // plain requests
	// per plain request: its walk is cut by the link-keyed guard / passes a lexical-dotdot link
	ReqCutByLinkGuard, ReqLexDotDot map[string]bool
}

func c18MatchComp(pat, name string) bool {
	ok, err := filepath.Match(pat, name)
	return err == nil && ok
}

// c18Covers: elem equals p, is an ancestor of p, or (elem is a pattern) its
// components match the leading components of p.
func c18Covers(elem, p string) bool {
	if elem == p || strings.HasPrefix(p, elem+"/") {
		return true
	}
	if !c18HasWild(elem) {
		return false
	}
	ec := strings.Split(elem, "/")
	pc := strings.Split(p, "/")
	if len(pc) < len(ec) {
		return false
	}
	for i := range ec {
		if !c18MatchComp(ec[i], pc[i]) {
			return false
		}
	}
	return true
}

func joinRest(a, b string) string {
	switch {
	case a == "":
		return b
	case b == "":
		return a
	}
	return a + "/" + b
}

// expand walks comps from dir; at the first wildcard component it branches
// over the matching names of the directory reached (shell-glob style). For
// requests with a wildcard in the last component this is the statement's
// demand; for middle-component wildcards it is used for bookkeeping only.
func (m *c18Model) expand(t *tree.Tree, idx map[string]*tree.Entry, req string, demand bool, dir string, comps []string, links int, prefix []refs.Step, depth int) {
	wi := -1
	for i, c := range comps {
		if c18HasWild(c) {
			wi = i
			break
		}
	}
	if wi < 0 || depth > 6 {
		res := refs.ResolveFrom(idx, dir, strings.Join(comps, "/"), links)
		for i := range res.Steps {
			m.nextID++
			res.Steps[i].ID = m.nextID
		}
		steps := append(append([]refs.Step{}, prefix...), res.Steps...)
		m.Traces = append(m.Traces, c18Trace{Req: req, Demand: demand, Steps: steps, Status: res.Status, Final: res.Final, Type: res.FinalType})
		return
	}
	rest := strings.Join(comps[wi:], "/")
	pre := refs.ResolveFrom(idx, dir, strings.Join(comps[:wi], "/"), links)
	steps := append([]refs.Step{}, prefix...)
	for _, s := range pre.Steps {
		s.Rest = joinRest(s.Rest, rest)
		m.nextID++
		s.ID = m.nextID
		steps = append(steps, s)
	}
	matched := false
	if pre.Status == refs.Reached && pre.FinalType == tree.Dir {
		for _, ch := range refs.Children(t, pre.Final) {
			if !c18MatchComp(comps[wi], ch) {
				continue
			}
			if e := idx[joinRest(pre.Final, ch)]; !demand && (e == nil || e.Type != tree.Symlink) {
				// bookkeeping for middle-component wildcards follows what
				// FollowLinks does: only matching symlinks are expanded
				continue
			}
			matched = true
			m.expand(t, idx, req, demand, pre.Final, append([]string{ch}, comps[wi+1:]...), pre.Links, steps, depth+1)
		}
	}
	if !matched {
		// the links of the prefix walk are demanded, no final location
		st := refs.Dangling
		if pre.Status != refs.Reached {
			st = pre.Status
		}
		m.Traces = append(m.Traces, c18Trace{Req: req, Demand: demand, Steps: steps, Status: st})
	}
}

// c18LexDiffers: walking the link's target differs from walking its
// lexically cleaned form (a ".." behind a symlink, a missing name or a
// non-directory): the signature of the lexical-dotdot family.
func c18LexDiffers(idx map[string]*tree.Entry, s refs.Step) bool {
	if !refs.LexicalDotDot(s.Target) {
		return false
	}
	dir := tree.Parent(s.Link)
	a := refs.ResolveFrom(idx, dir, s.Target, 0)
	b := refs.ResolveFrom(idx, dir, path.Clean(s.Target), 0)
	if a.Status != b.Status || a.Final != b.Final || len(a.Steps) != len(b.Steps) {
		return true
	}
	for i := range a.Steps {
		if a.Steps[i].Link != b.Steps[i].Link {
			return true
		}
	}
	return false
}

func c18BuildModel(t *tree.Tree, reqs []string) *c18Model {
	m := &c18Model{Status: map[string]int{}, Resolved: map[string]refs.Resolution{}, Repeat: map[string]bool{},
		ReqCutByLinkGuard: map[string]bool{}, ReqLexDotDot: map[string]bool{}}
	idx := refs.Index(t)
	for _, q := range reqs {
		comps := strings.Split(strings.Trim(q, "/"), "/")
		nw, wildAt := 0, -1
		for i, c := range comps {
			if c18HasWild(c) {
				nw++
				if wildAt < 0 {
					wildAt = i
				}
			}
		}
		switch {
		case nw == 0:
			m.Plain++
			m.Resolved[q] = refs.Resolve(idx, q)
			m.expand(t, idx, q, true, "", comps, 0, nil, 0)
		case nw == 1 && wildAt == len(comps)-1:
			m.Last++
			m.expand(t, idx, q, true, "", comps, 0, nil, 0)
		default:
			m.MidWild++
			m.expand(t, idx, q, false, "", comps, 0, nil, 0)
		}
	}
	// pass 1: remainders per link over the whole list
	rem := map[string]map[string]bool{}
	for _, tr := range m.Traces {
		for _, s := range tr.Steps {
			if rem[s.Link] == nil {
				rem[s.Link] = map[string]bool{}
			}
			rem[s.Link][s.Rest] = true
		}
	}
	for l, rs := range rem {
		if len(rs) >= 2 {
			m.Repeat[l] = true
		}
	}
	// pass 2: the same walks under D9's guard: the second traversal of a
	// link (whatever the remainder) ends the walk. Requests in list order,
	// wildcard branches in directory order, shared prefix events once.
	type dk struct{ p, w string }
	reach := map[dk]bool{}
	seenLink := map[string]bool{}
	evDone, evCut := map[int]bool{}, map[int]bool{}
	trCut := make([]bool, len(m.Traces))
	for ti, tr := range m.Traces {
		cut := false
		for _, s := range tr.Steps {
			if evDone[s.ID] {
				if evCut[s.ID] {
					cut = true
					break
				}
				continue
			}
			evDone[s.ID] = true
			reach[dk{s.Link, "symlink"}] = true
			if seenLink[s.Link] {
				evCut[s.ID] = true
				cut = true
				break
			}
			seenLink[s.Link] = true
		}
		trCut[ti] = cut
		if !cut && tr.Demand && tr.Status == refs.Reached {
			reach[dk{tr.Final, "final"}] = true
		}
	}
	// pass 3: demands
	m.RootAllLex = true
	m.RootCutByLinkGuard = !reach[dk{"", "final"}]
	for ti, tr := range m.Traces {
		lex, lexLoose := false, false
		for _, s := range tr.Steps {
			if tr.Demand {
				m.Links++
				m.Demands = append(m.Demands, c18Demand{Path: s.Link, What: "symlink", Req: tr.Req, CutByLinkGuard: !reach[dk{s.Link, "symlink"}], LexDotDot: lex})
			}
			if c18LexDiffers(idx, s) {
				lex = true
				m.AnyLexDiffers = true
			}
			if refs.LexicalDotDot(s.Target) {
				lexLoose = true
			}
		}
		if !tr.Demand {
			continue
		}
		if trCut[ti] {
			m.ReqCutByLinkGuard[tr.Req] = true
		}
		if lexLoose {
			m.ReqLexDotDot[tr.Req] = true
		}
		if len(tr.Steps) > m.MaxChain {
			m.MaxChain = len(tr.Steps)
		}
		m.Status[refs.StatusName[tr.Status]]++
		if tr.Status == refs.Loop {
			m.AnyLoop = true
		}
		if tr.Status == refs.Reached {
			if tr.Final == "" {
				m.RootReached = append(m.RootReached, tr.Req)
				m.RootAllLex = m.RootAllLex && lex
			} else {
				m.Demands = append(m.Demands, c18Demand{Path: tr.Final, What: "final", Req: tr.Req, CutByLinkGuard: !reach[dk{tr.Final, "final"}], LexDotDot: lex})
			}
		}
	}
	return m
}

func c18Sorted(res []string) bool {
	if sort.StringsAreSorted(res) {
		return true
	}
	return sort.SliceIsSorted(res, func(i, j int) bool { return tree.CmpPath(res[i], res[j]) < 0 })
}

type c18Case struct {
	Source   string   `json:"source"`
	Tree     []string `json:"tree"`
	Requests []string `json:"requests"`
	Result   []string `json:"result,omitempty"`
}

func c18Lines(t *tree.Tree) []string {
	var out []string
	for _, e := range t.Entries {
		switch e.Type {
		case tree.Dir:
			out = append(out, e.Path+"/")
		case tree.Symlink:
			out = append(out, e.Path+" -> "+e.Target)
		default:
			out = append(out, e.Path)
		}
	}
	return out
}

func init() {
	core.Register(&core.Prop{
		ID:    "C18",
		Level: "exploration",
		Rule: "random link graphs over a small name universe (files, directories <= depth 3, symlinks with targets drawn from: relative/absolute path of an existing entry, sibling name, self loop, growing cycle l -> l/x, '.', '..' up to beyond the root, dangling, './n/../m', path through another link, '/', trailing slash; plus explicit k-cycles, chains of 2-6 and 38-43 links, a link to a directory with two files) x request lists of 1-4 paths (existing entry, link + 0-2 further components, path sharing a prefix with an earlier request, missing path, wildcard in the last component, wildcard in a middle component, root, the sibling set a / a-b / a/x, optional leading '/') x {synthetic in-memory FS, on-disk fsutil.NewFS}. " +
			"fsutil.FollowLinks runs on an FS wrapper that counts Walk calls (and fails the call past the step bound 64*(requests+1)*(entries+1)*40); its result is checked for order, prefix-freeness, root collapse and coverage of every symlink traversed / final location reached by the independent chroot-style resolver (refs.Resolve, Linux semantics, 40-link limit) for plain requests and for every match of a last-component wildcard; then the tree is transferred with FollowPaths=requests by the real Send/Receive into an empty directory and every plain request that resolves to an entry in the source must resolve in the copy to the same path, type and bytes. " +
			"non-trivial = the model traverses at least one symlink for some request; distinct by (tree, request list, source kind) fingerprint",
		Assumptions: []string{
			"entry names and link targets contain no wildcard characters (* ? [ \\), except the shapes q[1] / q1 / lq -> q[1], lq -> '!imp' and lq -> 'data ' that exhibit known finding K9; requests are lexically clean (no '.'/'..' components except the request '.')",
			"'covered' = an element equals the location, is an ancestor of it, or is a wildcard pattern whose components match its leading components (the list is used as include patterns)",
			"a request whose walk ends at a missing component, at a non-directory in the middle, or with ELOOP demands only the symlinks traversed (first 40)",
			"wildcards in middle components: only termination, order and prefix-freeness are demanded",
			"the converse of root collapse (empty list only if the root is reached) is demanded only for lists without middle-component wildcards and without a walk that ends in ELOOP (following more than 40 links is not forbidden)",
		},
		Cases: func(tier string) int {
			if tier == "thorough" {
				return 1000000
			}
			return 6000
		},
		Batch:         250,
		MinNontrivial: func(tier string) int { return 2000 },
		Run:           c18Run,
	})
}

func c18Run(c *core.Ctx) *core.Result {
	r := &core.Result{}
	R := c.R
	model := c18GenTree(R)
	reqs := c18GenRequests(R, model)
	synthetic := R.P(1, 2)
	var fs fsutil.FS
	t := model
	srcKind := "synth"
	if synthetic {
		fs = newSynthFS(model)
	} else {
		srcKind = "disk"
		src := filepath.Join(c.Dir, "src")
		os.Mkdir(src, 0755)
		if err := tree.Materialise(src, model); err != nil {
			r.Inconclusive = "materialise: " + err.Error()
			return r
		}
		snap, err := tree.Snapshot(src, tree.SnapOpt{})
		if err != nil {
			r.Inconclusive = "snapshot: " + err.Error()
			return r
		}
		t = snap
		fs, err = fsutil.NewFS(src)
		if err != nil {
			r.Inconclusive = "NewFS: " + err.Error()
			return r
		}
	}
	sample := &c18Case{Source: srcKind, Tree: c18Lines(t), Requests: reqs}
	r.Sample = sample
	r.FP = fmt.Sprintf("%s|%q|%s", t.Fingerprint(), reqs, srcKind)
	r.AddSet("source_kinds", srcKind)

	m := c18BuildModel(t, reqs)
	r.Nontrivial = m.Links > 0
	r.Count("requests", int64(len(reqs)))
	r.Count("requests_plain", int64(m.Plain))
	r.Count("requests_wildcard_last", int64(m.Last))
	r.Count("requests_wildcard_middle_shape_only", int64(m.MidWild))
	for k, v := range m.Status {
		r.Count("model_walks_"+k, int64(v))
	}
	r.Count("model_symlinks_traversed", int64(m.Links))
	r.Count("coverage_demands", int64(len(m.Demands)))
	if m.MaxChain >= 10 {
		r.Count("cases_with_chain_ge_10_links", 1)
	}
	if m.Status["loop"] > 0 {
		r.Count("cases_with_eloop", 1)
	}
	if len(m.RootReached) > 0 {
		r.Count("cases_root_reached", 1)
	}
	if len(m.Repeat) > 0 {
		r.Count("cases_link_repeated_with_other_remainder", 1)
	}
	r.AddSet("request_list_sizes", fmt.Sprint(len(reqs)))

	// --- the call under test, on the counting wrapper
	bound := int64(64) * int64(len(reqs)+1) * int64(len(t.Entries)+1) * 40
	cf := &countFS{fs: fs, bound: bound, memCap: 192 << 20, mem0: memInUse()}
	res, err := fsutil.FollowLinks(cf, reqs)
	walks := cf.walks.Load()
	r.Count("walk_calls", walks)
	if walks*1000 > bound {
		r.Count("cases_above_0.1_percent_of_step_bound", 1)
	}
	if cf.capHit.Load() && walks <= bound {
		r.Count("safety_cap_hits", 1)
		r.Inconclusive = fmt.Sprintf("safety cap: FollowLinks allocated more than 192MiB within %d Walk calls (step bound %d not reached); not decided", walks, bound)
		runtime.GC()
		return r
	}
	if walks > bound {
		r.ViolateD("followlinks-step-bound", sample, "FollowLinks made more than %d Walk calls (64*(requests+1)*(entries+1)*40) for %d requests on %d entries: bounded termination violated (the wrapper aborted the call: %v)", bound, len(reqs), len(t.Entries), err)
		return r
	}
	if err != nil {
		sig := "followlinks-error"
		if errors.Is(err, syscall.ENOTDIR) {
			// a wildcard below a non-directory: readDir's own callback returns
			// ENOTDIR; fsutil's on-disk FS turns that into SkipDir, an FS that
			// propagates callback errors (as io/fs.WalkDirFunc prescribes) does not
			sig = "followlinks-enotdir-error"
		}
		r.ViolateD(sig, sample, "FollowLinks(%q) failed on a fault-free tree (%s source): %v", reqs, srcKind, err)
		return r
	}
	sample.Result = res
	r.Count("result_elements", int64(len(res)))

	// --- shape
	if !c18Sorted(res) {
		r.ViolateD("followlinks-unsorted", sample, "result %q is sorted neither in byte order nor in path order", res)
	}
	for _, e := range res {
		if e == "." || e == "" || e == "/" {
			r.ViolateD("followlinks-root-not-collapsed", sample, "result %q contains the root as %q instead of being empty", res, e)
		} else if strings.HasPrefix(e, "/") || strings.HasSuffix(e, "/") || e != filepath.Clean(e) || e == ".." || strings.HasPrefix(e, "../") {
			r.ViolateD("followlinks-unclean", sample, "result element %q is not a clean path relative to the root", e)
		}
	}
	for i, o := range res {
		for j, in := range res {
			if i == j {
				continue
			}
			if in == o && i < j {
				r.ViolateD("followlinks-duplicate", sample, "result %q contains %q twice", res, o)
			}
			if strings.HasPrefix(in, o+"/") {
				// D11: an element that sorts (byte order) between the two and is not inside o
				d11 := false
				for _, k := range res {
					if k > o && k < in && !strings.HasPrefix(k, o+"/") {
						d11 = true
					}
				}
				if d11 {
					r.Count("d11_cases", 1)
					r.ViolateD("D11-dedupe-order", sample, "result %q: %q is inside %q (an element sorting between them in byte order hid the prefix from dedupePaths)", res, in, o)
				} else {
					r.ViolateD("followlinks-not-prefix-free", sample, "result %q: %q is inside %q", res, in, o)
				}
			}
		}
	}

	// --- root collapse and coverage
	if len(m.RootReached) > 0 {
		if len(res) != 0 {
			sig := "followlinks-root-not-empty"
			switch {
			case m.RootAllLex:
				sig = "followlinks-lexical-dotdot"
			case m.RootCutByLinkGuard:
				sig = "D9-followlinks-guard"
				r.Count("d9_cases", 1)
			case m.AnyLexDiffers:
				sig = "followlinks-lexical-dotdot"
			}
			r.ViolateD(sig, sample, "request(s) %q reach the tree root, the result must be empty but is %q", m.RootReached, res)
		}
	} else if len(res) == 0 {
		// an empty list means "no filter": everything is covered
		switch {
		case m.MidWild > 0 || m.AnyLoop:
			// middle-component wildcards are not modelled; a walk the model ends
			// with ELOOP may reach the root when more than 40 links are followed
			r.Count("empty_result_not_judged", 1)
		case m.AnyLexDiffers:
			r.ViolateD("followlinks-lexical-dotdot", sample, "result is empty (= no filter) although no request reaches the root when link targets are walked (a lexically cleaned target does)")
		default:
			r.ViolateD("followlinks-empty-without-root", sample, "result is empty (= no filter) although no request reaches the root")
		}
	} else {
		type key struct{ p, w string }
		done := map[key]bool{}
		for _, d := range m.Demands {
			if done[key{d.Path, d.What}] {
				continue
			}
			cov := false
			for _, e := range res {
				if c18Covers(e, d.Path) {
					cov = true
					break
				}
			}
			if cov {
				continue
			}
			done[key{d.Path, d.What}] = true
			// classification: every demand for the same location must be explained
			lex, expl := true, true
			for _, d2 := range m.Demands {
				if d2.Path == d.Path && d2.What == d.What {
					lex = lex && d2.LexDotDot
					expl = expl && (d2.CutByLinkGuard || d2.LexDotDot)
				}
			}
			sig := "followlinks-uncovered"
			switch {
			case lex:
				sig = "followlinks-lexical-dotdot"
			case expl:
				sig = "D9-followlinks-guard"
				r.Count("d9_cases", 1)
			case m.AnyLexDiffers:
				// the lexical interpretation traverses other links than the walk
				// does, which also shifts where the link-keyed guard cuts
				sig = "followlinks-lexical-dotdot"
			}
			r.ViolateD(sig, map[string]any{"case": sample, "demand": d}, "request %q: the %s %q reached by the chroot-style resolver is not covered by the result %q", d.Req, d.What, d.Path, res)
		}
	}

	// --- end to end: transfer with FollowPaths, every plain request resolves in the copy
	ffs, err := fsutil.NewFilterFS(fs, &fsutil.FilterOpt{FollowPaths: reqs})
	if err != nil {
		r.ViolateD("followpaths-filter-error", sample, "NewFilterFS with FollowPaths=%q failed: %v", reqs, err)
		return r
	}
	dest := filepath.Join(c.Dir, "dest")
	os.Mkdir(dest, 0755)
	sres := runSync(syncOpt{Cfg: wire.Config{Cap: core.Pick(R, []int{0, 8, 64})}, Src: ffs, Dest: dest})
	if sres.TimedOut {
		r.Inconclusive = "watchdog: transfer did not finish"
		return r
	}
	if sres.SendErr != nil || sres.RecvErr != nil {
		r.Count("e2e_transfers_failed_diagnostic", 1)
		if len(r.Viols) == 0 {
			r.Inconclusive = fmt.Sprintf("transfer failed (not covered by the statement): send=%v recv=%v", sres.SendErr, sres.RecvErr)
		}
		return r
	}
	r.Count("e2e_transfers", 1)
	got, err := tree.Snapshot(dest, tree.SnapOpt{})
	if err != nil {
		r.Inconclusive = "snapshot dest: " + err.Error()
		return r
	}
	r.Count("e2e_entries_transferred", int64(len(got.Entries)))
	if len(got.Entries) < len(t.Entries) {
		r.Count("e2e_proper_subset_transferred", 1)
	}
	gidx := refs.Index(got)
	sidx := refs.Index(t)
	for _, q := range reqs {
		sr, ok := m.Resolved[q]
		if !ok || sr.Status != refs.Reached {
			continue
		}
		r.Count("e2e_requests_checked", 1)
		dr := refs.Resolve(gidx, q)
		bad := ""
		switch {
		case dr.Status != refs.Reached:
			bad = fmt.Sprintf("does not resolve in the copy (%s after %q)", refs.StatusName[dr.Status], dr.Final)
		case dr.Final != sr.Final:
			bad = fmt.Sprintf("resolves to %q in the copy", dr.Final)
		case sr.Final != "":
			se, de := sidx[sr.Final], gidx[dr.Final]
			if se.Type != de.Type {
				bad = fmt.Sprintf("resolves to a %c in the copy, %c in the source", de.Type, se.Type)
			} else if se.Type == tree.File && !bytes.Equal(se.Data, de.Data) {
				bad = "resolves to a file with different bytes"
			}
		}
		if bad != "" {
			sig := "followpaths-unresolvable"
			switch {
			case m.ReqLexDotDot[q]:
				sig = "followlinks-lexical-dotdot"
			case strings.ContainsAny(sr.Final, "*?[") || strings.HasPrefix(sr.Final, "!") || strings.TrimSpace(sr.Final) != sr.Final:
				sig = "followpaths-target-read-as-pattern"
			case m.ReqCutByLinkGuard[q]:
				sig = "D9-followlinks-guard"
			}
			r.ViolateD(sig, sample, "request %q resolves to %q in the source but %s (FollowPaths=%q, include set %q, transferred %q)", q, sr.Final, bad, reqs, res, got.Paths())
		}
	}
	// requests with wildcards (in any component): every match that is reached
	// through real directories only and is not itself a symlink is a
	// requested path as well; it must be in the copy, same type, same bytes
	for _, q := range reqs {
		if !strings.ContainsAny(q, "*?[") || strings.Contains(q, "..") {
			continue
		}
		// matches whose last element is a symlink (reached through a wildcard in
		// an earlier component and real directories): the link is a requested
		// path too and must resolve in the copy like in the source
		comps := strings.Split(strings.Trim(q, "/"), "/")
		if len(comps) > 1 && !strings.ContainsAny(comps[len(comps)-1], "*?[") {
			for _, mp := range c18Expand(t, sidx, q, true) {
				if sidx[mp].Type != tree.Symlink {
					continue
				}
				sr := refs.Resolve(sidx, mp)
				if sr.Status != refs.Reached {
					continue
				}
				r.Count("e2e_middle_wildcard_link_matches_checked", 1)
				dr := refs.Resolve(gidx, mp)
				if dr.Status != refs.Reached || dr.Final != sr.Final {
					r.ViolateD("followlinks-middle-wildcard-link", sample, "request %q matches the symlink %q (through real directories), which resolves to %q in the source but %s in the copy (FollowPaths=%q, include set %q)", q, mp, sr.Final, refs.StatusName[dr.Status]+" "+dr.Final, reqs, res)
				}
			}
		}
		for _, mp := range c18ExpandPlain(t, sidx, q) {
			r.Count("e2e_wildcard_matches_checked", 1)
			se := sidx[mp]
			de, ok := gidx[mp]
			bad := ""
			switch {
			case !ok:
				bad = "is missing in the copy"
			case se.Type != de.Type:
				bad = fmt.Sprintf("is a %c in the copy, %c in the source", de.Type, se.Type)
			case se.Type == tree.File && !bytes.Equal(se.Data, de.Data):
				bad = "has different bytes in the copy"
			}
			if bad != "" {
				r.ViolateD("followpaths-wildcard-match-lost", sample, "request %q matches %q in the source (through directories only, no symlink involved) but it %s (FollowPaths=%q, include set %q, transferred %q)", q, mp, bad, reqs, res, got.Paths())
			}
		}
	}
	return r
}

// c18ExpandPlain expands the wildcards of a request against the tree,
// component by component, through real directories only; matches that are
// symlinks (or lie behind one) are left out.
func c18ExpandPlain(t *tree.Tree, idx map[string]*tree.Entry, q string) []string {
	return c18Expand(t, idx, q, false)
}

// c18Expand is c18ExpandPlain; with linkLast the last element may be a symlink.
func c18Expand(t *tree.Tree, idx map[string]*tree.Entry, q string, linkLast bool) []string {
	comps := strings.Split(strings.Trim(q, "/"), "/")
	cur := []string{""}
	for ci, c := range comps {
		if c == "" || c == "." {
			continue
		}
		var next []string
		for _, d := range cur {
			for _, name := range refs.Children(t, d) {
				if ok, err := filepath.Match(c, name); err != nil || !ok {
					continue
				}
				p := name
				if d != "" {
					p = d + "/" + name
				}
				e := idx[p]
				if e == nil || (e.Type == tree.Symlink && !(linkLast && ci == len(comps)-1)) {
					continue
				}
				if ci < len(comps)-1 && e.Type != tree.Dir {
					continue
				}
				next = append(next, p)
			}
		}
		cur = next
	}
	if len(cur) == 1 && cur[0] == "" {
		return nil
	}
	return cur
}
