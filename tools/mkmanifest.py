#!/usr/bin/env python3
"""Regenerates /verif/MANIFEST.json from the table below (keeps it valid at all times)."""
import json, os, subprocess
HERE = os.path.dirname(os.path.dirname(os.path.abspath(__file__)))
ALL = ["C%02d" % i for i in range(1, 21)]

# id -> (category, technique, level text, level note, design ref)
CHECKS = {
 "C12": ("exploration", "runtime differential monitor: real Validator vs executable specification on exhaustively enumerated bounded sequences + random long ones; order axioms on all pairs/triples",
         "Every sequence up to the length bound over a 25-path x {dir,file,delete} alphabet is executed against a fresh real Validator and compared (decision and rejection index) with a 15-line specification; ComparePath is compared with component-wise comparison and the strict-total-order axioms on all pairs/triples of an adversarial path alphabet. Held on the executions observed; bounded, not a proof.",
         "Trusts the specification in harness/cmd/vrun/c12.go and Go's path.Clean; unix separators only.", "DESIGN.md §5 C12"),
}
NOT_YET = "monitor for this property is designed in DESIGN.md §5 but not built yet in this round; not claimed until it runs"

def main():
    src = []
    try:
        out = subprocess.check_output(["git", "-C", "/repo", "log", "--format=%H %s"], text=True)
        for l in out.splitlines():
            h, s = l.split(" ", 1)
            if s.startswith("verif-hook:"):
                src.append(h)
    except Exception:
        pass
    m = {
        "version": 1,
        "setup_cmd": "./check build",
        "hooks": {
            "guard": "verif",
            "enable": "go build -tags verif (every ./check invocation builds the harness against /repo's working tree through a replace directive)",
            "baseline_off_cmd": "cd /repo && GOFLAGS=-mod=mod GOPROXY=off GOSUMDB=off go test -vet=off -count=1 -timeout 25m ./...",
            "source_commits": src,
            "add_only": True,
        },
        "engines": [{
            "name": "vrun", "path": "harness/cmd/vrun",
            "serves_properties": sorted(CHECKS),
            "kind_free_text": "Go harness: seeded workload generators, instrumented in-memory stream, independent snapshot walker, reference peers and executable specifications; one child process per batch of cases; go race detector for C08",
        }],
        "checks": [],
        "not_applicable": [],
        "notes": "Technique family: runtime monitoring. Verdicts are three-valued (violated / held on what was observed / inconclusive); see DESIGN.md. known_findings.json lists genuine defects that are recorded rather than repaired, and the ones repaired by fix: commits.",
    }
    for pid in ALL:
        if pid in CHECKS:
            cat, tech, text, note, ref = CHECKS[pid]
            m["checks"].append({
                "property_id": pid,
                "quick_cmd": "./check %s quick" % pid,
                "thorough_cmd": "./check %s thorough" % pid,
                "evidence_file": "/verif/evidence/%s.json" % pid,
                "replay_cmd_template": "./check %s --replay {path}" % pid,
                "engine": "vrun",
                "level_claimed": {"category": cat, "text": text, "design_ref": ref},
                "level_note": note,
                "technique": tech,
            })
        else:
            m["not_applicable"].append({"property_id": pid, "reason": NOT_YET})
    json.dump(m, open(os.path.join(HERE, "MANIFEST.json"), "w"), indent=1)
    print("MANIFEST.json: %d checks, %d not claimed" % (len(m["checks"]), len(m["not_applicable"])))

main()
