#!/usr/bin/env python3
"""Regenerates /verif/MANIFEST.json from the table below (keeps it valid at all times)."""
import json, os, subprocess
HERE = os.path.dirname(os.path.dirname(os.path.abspath(__file__)))
ALL = ["C%02d" % i for i in range(1, 21)]

# id -> (category, technique, level text, level note, design ref)
CHECKS = {
 "C14": ("exploration", "runtime monitor in a chroot jail: before/after snapshot (all fields incl. inode and ctime) of sentinels outside both roots, provenance of every byte in the destination, fate of destination symlinks, landing path compared with an independent chroot-style resolver",
         "Generated (source tree, destination tree, src path, dst path) with symlinks (absolute, '..'-laden, dangling, looping) to outside sentinels at every component and leaf x {follow-links, wildcards, always-replace, dir-contents, chown/utime/mode}, sources spelled 'x/.' for entries of every type; link groups below a replaced directory; destination files that share an inode with an outside file. Held on the executions observed; known finding: lexical join in the dependency's RootPath.",
         "Trusts chroot(2), the snapshot walker and the chroot-style resolver in copyB_common.go; no concurrent modification.", "DESIGN.md §5 C14"),
 "C15": ("exploration", "runtime monitor: destination snapshot vs an executable overlay model (7 calibrated rules) incl. expected-error outcomes, obstacle preservation and a repeated copy for idempotence",
         "Source/destination pairs over a shared 8-name universe (incl. two dot-only/dot-leading names) so that every type pair collides x {dir-contents, always-replace, wildcards, trailing separator, nested not-yet-existing dst, non-directory source spelled 'x/.', directory onto a non-directory}; all 49 (src type, dst type, outcome) classes are observed. Where the statement is silent every outcome is accepted and counted. Held on the executions observed.",
         "Trusts the overlay model in c15.go (calibrated against the repository's copy tests).", "DESIGN.md §5 C15"),
 "C17": ("exploration", "runtime monitor: archive/tar reader over WriteTar's output compared member by member with the independently predicted view; independent round trip through GNU tar extraction and snapshot comparison",
         "Generated trees (as C01, names >100 bytes, non-ASCII) x {unfiltered, include, exclude, both} x {on-disk FS, synthetic FS, SubDirFS with one or two sub-roots in prefix relation}; attribute names holding '=' and '%'; a quarter of the exports follow a rewriting export of the same FS object. Views affected by K1 are not judged. Held on the executions observed.",
         "Trusts archive/tar, GNU tar 1.34 and the snapshot walker; mtime to the second.", "DESIGN.md §5 C17"),
 "C18": ("exploration", "runtime differential monitor: FollowLinks result vs an independent chroot-style resolver (40-link limit) for coverage, order, prefix-freeness and root collapse; Walk-call step bound for termination; end-to-end transfer with FollowPaths and re-resolution in the copy",
         "Link graphs (chains incl. 38-43 links, 21-25 two-link chains under one wildcard, cycles, self loops, growing cycles, '..' beyond the root, dangling, absolute) x request lists (shared prefixes, wildcards, missing paths). Termination decided by a step bound on FS.Walk calls, not by time. Held on the executions observed; known findings: lexically cleaned link targets (K2), middle wildcard ending in a link (K8), resolved target read as a pattern (K9).",
         "Trusts the reference resolver in internal/refs/resolver.go; wildcard requests: result shape, termination, and end-to-end presence of every match reached through real directories only.", "DESIGN.md §5 C18"),
 "C20": ("exploration", "runtime monitor: value round trips across the hand-optimised codec and the generic protobuf runtime in both directions, framing through util.NewProtoStream with fragmenting readers, aliasing monitor (read buffers poisoned after each RecvMsg), panic capture and allocation accounting (runtime.MemStats) on arbitrary inputs; Go native fuzz targets as an extra workload generator",
         "Generated and mutated Stat/Packet values, packet sequences read back under 60 fragmentations incl. 1-byte reads, empty and >32 KiB packets, cut streams, arbitrary byte strings and frame streams (incl. a 4 GiB announcement in a memory-limited sub-process), valid non-canonical encodings, 24 streams received at once in one process, messages beyond the 32-bit length prefix. Held on the executions observed; known finding: invalid UTF-8 names are rejected by the generic runtime.",
         "Trusts the independent field-wise comparator and reference framer in internal/codec; allocation measured single-threaded per child with repeat-and-minimum to damp GC noise.", "DESIGN.md §5 C20"),
 "C08": ("exploration", "Go race detector (halt_on_error) + overlap detector inside the harness stream (in-flight counters with seeded dwell) + outcome comparison across schedules of the same case; the quick workloads of the other transfer checks (fault plans, metadata-only, histories, copy, tar) repeated under the race detector",
         "Each fixed (source of 100-400 multi-chunk files, prior destination) case is run under schedules drawn from stream capacity x per-operation delays in stream calls, source reads and callbacks x GOMAXPROCS; outcomes (dest, REQ set, notifications with digests) must equal the reference schedule's up to the hard-link exception; any race report or overlapping SendMsg/RecvMsg on one endpoint is a violation. Held on the schedules observed (distinct interleaving fingerprints are counted).",
         "Only interleavings the Go runtime produced in the run; the race detector sees executed paths only; harness code is itself race-free (it runs under the same detector).", "DESIGN.md §5 C08"),
 "C03": ("exploration", "runtime monitor in a chroot jail: hostile packet scripts sent over real pipes to a receiver process; before/after snapshot (inode, mode, owner, mtime, ctime, bytes, xattrs) of everything outside dest; independent stream specification decides which scripts are malformed and which entries must not have been applied",
         "Generated hostile scripts (every malformation class the statement lists, at every position of a valid STAT sequence; mode words with two type bits; hard links to inodes shared with the outside; the writer's temporary names planted as symlinks with the name generator pinned through the verif hook; receivers with a rejecting Filter; content after a terminator) against destinations full of outward symlinks, in normal/merge/metadata-only mode. Containment is checked on every script (also when the receiver crashes), rejection and not-applied-after-offence on malformed ones. Held on the executions observed.",
         "Trusts chroot(2) and the snapshot walker; single attacker (the peer), no concurrent local attacker; receiver crash counts as a failed call.", "DESIGN.md §5 C03, §4.6"),
 "C04": ("fault_enumeration", "fault injection at every operation index of a fixed transfer + structural quiescence detector (goroutine stack sampling) for termination and leaks + C01 oracle for false success + follow-up clean transfer; SIGKILL of a receiver process over real pipes",
         "For a fixed 12-entry transfer every operation index of every fault class is enumerated (stream send/recv error and EOF on both endpoints, cancellation of either context, walk error, an entry vanishing between listing and lstat, an unreadable source root, read error at 5 offsets, hasher/notify error, SIGKILL of the receiver after k packets), plus sampled faults with >132 requests pending. No stream operation may start on an endpoint after its call returned (known finding K12: a rare residue, rate-bounded). Termination is decided structurally (teardown once, quiescence afterwards = violation), never by a timer. Held on the fault runs observed; plans whose operation was never reached are reported as not fired.",
         "fsutil uses no timers (a quiescent process cannot progress on its own); teardown = both directions fail, and - in one of the two runs of every plan - both contexts cancelled (the other run keeps the contexts alive and uses a transport that ignores them); Open errors and receiver-side disk errors are not injected.", "DESIGN.md §5 C04, §4.7"),
 "C06": ("exploration", "online protocol monitor: an independent reference receiver (written from the protocol text) drives the real Send with request scripts and checks every emitted packet; progress callbacks recorded",
         "Source views x request scripts (any subset/order, bursts >132, requests racing the STAT stream, duplicate/unknown/non-file ids, a sequential receiver that writes all requests before it reads on - known finding K11), disk-backed fan-out views under a descriptor limit x stream capacities and delays; STAT sequence compared with the independent snapshot, DATA reassembled per id and compared with the file bytes. Held on the sessions observed.",
         "Trusts the reference receiver (refrecv.go) to be conforming; ids are zero-based STAT positions per receive.go's header.", "DESIGN.md §5 C06, §4.4"),
 "C07": ("exploration", "online protocol monitor: an independent reference sender announces synthetic STAT sequences to the real Receive with seeded chunkings/interleavings; REQ/FIN ordering decided on the receiver-side event log; dest bytes read at the instant FIN arrives",
         "STAT sequences (incl. fan-out of 350-900 files announced before the first answer) x prior destinations (incl. a directory of 140-400 entries that the sequence replaces by a looping / unenterable symlink) x DATA chunkings (1 B .. 1 MiB) x id interleavings x STAT/DATA races x early close x receiver options {rejecting Filter, unprivileged receiver}; REQ set compared with the identity model, final dest with the announced tree. Held on the sessions observed.",
         "Trusts the reference sender (refsend.go) to be conforming; identity model as C02.", "DESIGN.md §5 C07, §4.4"),
 "C11": ("exploration", "runtime monitor: STAT stream of the real Send over filtered views validated by an independent stream validator (order, parents, link targets), transfer into an empty dest compared with the reference-filtered source with re-canonicalised link groups, every regular file opened through the view",
         "Trees with link groups straddling included/excluded paths x include/exclude/follow-path configurations x nested filter stacks (reference applied level by level), a quarter of the levels with a Map that rewrites owner and time stamp; hidden files opened under unclean spellings; a second, unfiltered transfer into the result. Known finding K1 triaged as in C10. Held on the executions observed.",
         "Reference filter as C10; follow-paths resolved by fsutil.FollowLinks itself (C18 checks it).", "DESIGN.md §5 C11"),
 "C13": ("exploration", "runtime differential monitor: snapshot(src) vs snapshot(dst) after fs.Copy under the statement's mask; option overrides evaluated independently (/bin/chmod for symbolic modes); change notifier calls recorded",
         "Generated source trees (all types, link groups incl. special files, sockets and symlinks with several names, special bits, owners, ns mtimes, xattrs) x {whole tree, sub-directory, single file, single symlink} x option sets {chown, octal/symbolic mode, utime, xattr error handler, follow-links} x destination {plain, set-group-id directory of a foreign group} x destination root spellings; mount points below the source; wildcard copies with a requested time stamp. Held on the executions observed.",
         "Trusts the snapshot walker and /bin/chmod as evaluator of symbolic modes (both GNU and POSIX readings admitted where they differ); root.", "DESIGN.md §5 C13"),
 "C16": ("exploration", "runtime differential monitor: set of paths written by fs.Copy with include/exclude patterns vs naive reference filter vs fsutil.Walk with the same patterns; metadata of on-demand ancestors compared with the source directory",
         "The trees and pattern grammar of C10 (a third with hard-link groups; source root spelled unclean), into empty and populated destinations (incl. type-conflicting obstacles at unselected paths, with and without always-replace), and as an ordinary user over trees with directories it may not list; K1 triaged as in C10. Held on the executions observed.",
         "Reference filter as C10; root, and uid 1234 emulated by switching the effective uid/gid of the process.", "DESIGN.md §5 C16"),
 "C19": ("exploration", "runtime monitor: listing file decoded as little-endian length-prefixed records and compared with the STATs seen on the wire; dest minus listing compared with the projection of the source; REQ ids and notifications checked",
         "Trees (incl. listings of several 32 KiB chunks and a single stat larger than a chunk) x selectors x sources containing an entry named .fsutil-metadata x prior destinations holding a listing file/symlink/directory. Held on the executions observed.",
         "Selectors are closed under hard-link sources as the statement requires; identity model as C02.", "DESIGN.md §5 C19"),
 "C01": ("exploration", "runtime monitor: real Send+Receive over an instrumented in-memory stream; independent lstat/readlink/xattr/sha256 snapshot of dest compared with the expected tree (source view, identity-retention and merge-overlay models) under the statement's mask",
         "Thousands of generated (source tree, prior destination, configuration) cases incl. unprivileged receiver, synthetic source, merge mode, dirty destinations; a violation is any demanded field that differs after both calls returned nil. Held on the executions observed; known finding: mtimes outside the int64 nanosecond window (K10).",
         "Trusts the independent snapshot walker (x/sys/unix) and the expectation models in c01.go; Linux, root, tmpfs/ext4 with mknod+xattrs; unprivileged receiver emulated by switching euid/egid.", "DESIGN.md §5 C01"),
 "C02": ("exploration", "runtime monitor over edit histories: REQ ids from the packet log mapped through the STAT sequence and compared with the identity model; inode/bytes of untouched entries compared before/after",
         "Generated edit histories (incl. single-field edits, unchanged re-syncs, DiffNone rounds, a non-idempotent rewriting Filter); requests must equal the set the identity model computes, untouched entries keep their inode and bytes, an unchanged re-sync sends no request and no notification. Held on the executions observed.",
         "Trusts the identity model (identityEqual/changedSet in the harness) incl. the encoded hard-link timing exception; root.", "DESIGN.md §5 C02"),
 "C05": ("exploration", "runtime monitor: every NotifyHashed call recorded and checked against a notification model (apply events to old snapshot == new snapshot; exactly-once per changed path; no unchanged path; deletes == top-most removed paths; digests recomputed from the stat on the wire and the bytes in dest)",
         "Generated edit histories incl. pure directory metadata edits, synthetic sources announcing more bytes than they send, adjacent deleted directories, subtree deletions, type swaps, out-of-order content completion. Held on the executions observed.",
         "Trusts the notification model in c05.go and the harness hasher; add vs modify not demanded; hard-link timing exception as in C02.", "DESIGN.md §5 C05"),
 "C09": ("exploration", "runtime differential monitor: callback sequences of Walk/WalkDir/FS.Walk(sub-target)/SubDirFS vs an independent recursive lstat listing sorted component-wise; link names on procfs/sysfs vs an independent readlink",
         "Generated trees over an adversarial name pool (bytes below and above '/', 255-byte names), all entry types, hard-link groups, depth<=6; every reported stat is compared field by field. Held on the executions observed.",
         "Trusts the snapshot walker and tree.CmpPath; root; link names demanded for regular files only.", "DESIGN.md §5 C09"),
 "C10": ("exploration", "runtime differential monitor: filtered fsutil.WalkDir callback sequence vs naive per-entry reference filter (fresh matcher on the full listing + ancestors); map-function clauses checked on the recorded map/report event sequence",
         "Generated (tree, include list, exclude list, map function) cases over sibling-confusable names and a pattern grammar; known finding K1 (moby/patternmatcher) is triaged by comparing with the incremental-unpruned reference; one filter object in eight is walked again, re-entrantly and from another goroutine. Held on the executions observed.",
         "Single-pattern matching is moby/patternmatcher's on both sides; where the statement is silent (map result on lazily emitted parents) every outcome is accepted.", "DESIGN.md §5 C10"),
 "C12": ("exploration", "runtime differential monitor: real Validator vs executable specification on exhaustively enumerated bounded sequences + random long ones; order axioms on all pairs/triples",
         "Every sequence up to the length bound over a 32-path x {dir,file,delete} alphabet (dir/file records as add or modify records, delete records with and without file info) is executed against a fresh real Validator and compared (decision and rejection index) with a 15-line specification; ComparePath is compared with component-wise comparison and the strict-total-order axioms on all pairs/triples of an adversarial path alphabet. Held on the executions observed; bounded, not a proof.",
         "Trusts the specification in harness/cmd/vrun/c12.go and Go's path.Clean; unix separators only.", "DESIGN.md §5 C12"),
}
NOT_YET = "monitor for this property is designed in DESIGN.md §5 but not built yet in this round; not claimed until it runs"

def main():
    src = []
    try:
        out = subprocess.check_output(["git", "-C", "/repo", "log", "--format=%H %s"], text=True)
        for l in out.splitlines():
            h, s = l.split(" ", 1)
            if s.startswith("verif-hook:"):
                src.append(h)
    except Exception:
        pass
    m = {
        "version": 1,
        "setup_cmd": "./check build",
        "hooks": {
            "guard": "verif",
            "enable": "go build -tags verif (every ./check invocation builds the harness against /repo's working tree through a replace directive)",
            "baseline_off_cmd": "cd /repo && GOFLAGS=-mod=mod GOPROXY=off GOSUMDB=off go test -vet=off -count=1 -timeout 25m ./...",
            "source_commits": src,
            "add_only": True,
        },
        "engines": [{
            "name": "vrun", "path": "harness/cmd/vrun",
            "serves_properties": sorted(CHECKS),
            "kind_free_text": "Go harness: seeded workload generators, instrumented in-memory stream, independent snapshot walker, reference peers and executable specifications; one child process per batch of cases; go race detector for C08",
        }],
        "checks": [],
        "not_applicable": [],
        "notes": "Technique family: runtime monitoring. Verdicts are three-valued (violated / held on what was observed / inconclusive); see DESIGN.md. known_findings.json lists genuine defects that are recorded rather than repaired, and the ones repaired by fix: commits.",
    }
    for pid in ALL:
        if pid in CHECKS:
            cat, tech, text, note, ref = CHECKS[pid]
            m["checks"].append({
                "property_id": pid,
                "quick_cmd": "./check %s quick" % pid,
                "thorough_cmd": "./check %s thorough" % pid,
                "evidence_file": "/verif/evidence/%s.json" % pid,
                "replay_cmd_template": "./check %s --replay {path}" % pid,
                "engine": "vrun",
                "level_claimed": {"category": cat, "text": text, "design_ref": ref},
                "level_note": note,
                "technique": tech,
            })
        else:
            m["not_applicable"].append({"property_id": pid, "reason": NOT_YET})
    json.dump(m, open(os.path.join(HERE, "MANIFEST.json"), "w"), indent=1)
    print("MANIFEST.json: %d checks, %d not claimed" % (len(m["checks"]), len(m["not_applicable"])))

main()
