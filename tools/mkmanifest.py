#!/usr/bin/env python3
"""Regenerates /verif/MANIFEST.json from the table below (keeps it valid at all times)."""
import json, os, subprocess
HERE = os.path.dirname(os.path.dirname(os.path.abspath(__file__)))
ALL = ["C%02d" % i for i in range(1, 21)]

# id -> (category, technique, level text, level note, design ref)
CHECKS = {
 "C01": ("exploration", "runtime monitor: real Send+Receive over an instrumented in-memory stream; independent lstat/readlink/xattr/sha256 snapshot of dest compared with the expected tree (source view, identity-retention and merge-overlay models) under the statement's mask",
         "Thousands of generated (source tree, prior destination, configuration) cases incl. unprivileged receiver, synthetic source, merge mode, dirty destinations; a violation is any demanded field that differs after both calls returned nil. Held on the executions observed.",
         "Trusts the independent snapshot walker (x/sys/unix) and the expectation models in c01.go; Linux, root, tmpfs/ext4 with mknod+xattrs; unprivileged receiver emulated by switching euid/egid.", "DESIGN.md §5 C01"),
 "C02": ("exploration", "runtime monitor over edit histories: REQ ids from the packet log mapped through the STAT sequence and compared with the identity model; inode/bytes of untouched entries compared before/after",
         "Generated edit histories (incl. single-field edits, unchanged re-syncs, DiffNone rounds); requests must equal the set the identity model computes, untouched entries keep their inode and bytes, an unchanged re-sync sends no request and no notification. Held on the executions observed.",
         "Trusts the identity model (identityEqual/changedSet in the harness) incl. the encoded hard-link timing exception; root.", "DESIGN.md §5 C02"),
 "C05": ("exploration", "runtime monitor: every NotifyHashed call recorded and checked against a notification model (apply events to old snapshot == new snapshot; exactly-once per changed path; no unchanged path; deletes == top-most removed paths; digests recomputed from the stat on the wire and the bytes in dest)",
         "Generated edit histories incl. pure directory metadata edits, adjacent deleted directories, subtree deletions, type swaps, out-of-order content completion. Held on the executions observed.",
         "Trusts the notification model in c05.go and the harness hasher; add vs modify not demanded; hard-link timing exception as in C02.", "DESIGN.md §5 C05"),
 "C09": ("exploration", "runtime differential monitor: callback sequences of Walk/WalkDir/FS.Walk(sub-target)/SubDirFS vs an independent recursive lstat listing sorted component-wise",
         "Generated trees over an adversarial name pool (bytes below and above '/', 255-byte names), all entry types, hard-link groups, depth<=6; every reported stat is compared field by field. Held on the executions observed.",
         "Trusts the snapshot walker and tree.CmpPath; root; link names demanded for regular files only.", "DESIGN.md §5 C09"),
 "C10": ("exploration", "runtime differential monitor: filtered fsutil.WalkDir callback sequence vs naive per-entry reference filter (fresh matcher on the full listing + ancestors); map-function clauses checked on the recorded map/report event sequence",
         "Generated (tree, include list, exclude list, map function) cases over sibling-confusable names and a pattern grammar; known finding K1 (moby/patternmatcher) is triaged by comparing with the incremental-unpruned reference. Held on the executions observed.",
         "Single-pattern matching is moby/patternmatcher's on both sides; where the statement is silent (map result on lazily emitted parents) every outcome is accepted.", "DESIGN.md §5 C10"),
 "C12": ("exploration", "runtime differential monitor: real Validator vs executable specification on exhaustively enumerated bounded sequences + random long ones; order axioms on all pairs/triples",
         "Every sequence up to the length bound over a 25-path x {dir,file,delete} alphabet is executed against a fresh real Validator and compared (decision and rejection index) with a 15-line specification; ComparePath is compared with component-wise comparison and the strict-total-order axioms on all pairs/triples of an adversarial path alphabet. Held on the executions observed; bounded, not a proof.",
         "Trusts the specification in harness/cmd/vrun/c12.go and Go's path.Clean; unix separators only.", "DESIGN.md §5 C12"),
}
NOT_YET = "monitor for this property is designed in DESIGN.md §5 but not built yet in this round; not claimed until it runs"

def main():
    src = []
    try:
        out = subprocess.check_output(["git", "-C", "/repo", "log", "--format=%H %s"], text=True)
        for l in out.splitlines():
            h, s = l.split(" ", 1)
            if s.startswith("verif-hook:"):
                src.append(h)
    except Exception:
        pass
    m = {
        "version": 1,
        "setup_cmd": "./check build",
        "hooks": {
            "guard": "verif",
            "enable": "go build -tags verif (every ./check invocation builds the harness against /repo's working tree through a replace directive)",
            "baseline_off_cmd": "cd /repo && GOFLAGS=-mod=mod GOPROXY=off GOSUMDB=off go test -vet=off -count=1 -timeout 25m ./...",
            "source_commits": src,
            "add_only": True,
        },
        "engines": [{
            "name": "vrun", "path": "harness/cmd/vrun",
            "serves_properties": sorted(CHECKS),
            "kind_free_text": "Go harness: seeded workload generators, instrumented in-memory stream, independent snapshot walker, reference peers and executable specifications; one child process per batch of cases; go race detector for C08",
        }],
        "checks": [],
        "not_applicable": [],
        "notes": "Technique family: runtime monitoring. Verdicts are three-valued (violated / held on what was observed / inconclusive); see DESIGN.md. known_findings.json lists genuine defects that are recorded rather than repaired, and the ones repaired by fix: commits.",
    }
    for pid in ALL:
        if pid in CHECKS:
            cat, tech, text, note, ref = CHECKS[pid]
            m["checks"].append({
                "property_id": pid,
                "quick_cmd": "./check %s quick" % pid,
                "thorough_cmd": "./check %s thorough" % pid,
                "evidence_file": "/verif/evidence/%s.json" % pid,
                "replay_cmd_template": "./check %s --replay {path}" % pid,
                "engine": "vrun",
                "level_claimed": {"category": cat, "text": text, "design_ref": ref},
                "level_note": note,
                "technique": tech,
            })
        else:
            m["not_applicable"].append({"property_id": pid, "reason": NOT_YET})
    json.dump(m, open(os.path.join(HERE, "MANIFEST.json"), "w"), indent=1)
    print("MANIFEST.json: %d checks, %d not claimed" % (len(m["checks"]), len(m["not_applicable"])))

main()
