#!/bin/bash
# tools/seeded.sh <id> <worktree> [props...]  - confirm a seeded break and record which checks catch it
set -u
export GOFLAGS=-mod=mod GOPROXY=off GOSUMDB=off GOTOOLCHAIN=local
id=$1; wt=$2; shift 2; props="$@"
out=/verif/seeded/$id; mkdir -p $out
cd $wt || exit 1
demo_cmd=$(python3 -c "import json;print(json.load(open('SEEDED_META.json'))['demo'])" 2>/dev/null)
git diff -- . ':(exclude)SEEDED_*' > /tmp/seed_src_$id.diff
[ -s /tmp/seed_src_$id.diff ] || cp SEEDED_PATCH.diff /tmp/seed_src_$id.diff
cp /tmp/seed_src_$id.diff $out/patch.diff
demos=$(git ls-files --others --exclude-standard | grep -v '^SEEDED_' )
for f in $demos; do mkdir -p $out/demo/$(dirname $f); cp $f $out/demo/$f; done
cp SEEDED_META.json $out/agent_meta.json 2>/dev/null
pkgs=$(for f in $demos; do case $f in *_test.go) echo ./$(dirname $f);; esac; done | sort -u)
runfilter='TestSeeded|TestSeed|Seeded'
echo "== demo WITH change"; go test -vet=off -count=1 -run "$runfilter" $pkgs > $out/demo_with.log 2>&1; with=$?; tail -3 $out/demo_with.log
git apply -R /tmp/seed_src_$id.diff
echo "== demo WITHOUT change"; go test -vet=off -count=1 -run "$runfilter" $pkgs > $out/demo_without.log 2>&1; without=$?; tail -3 $out/demo_without.log
git apply /tmp/seed_src_$id.diff
echo "== suite WITH change (demo moved aside)"
mkdir -p /tmp/seed_aside_$id; for f in $demos; do mkdir -p /tmp/seed_aside_$id/$(dirname $f); mv $f /tmp/seed_aside_$id/$f; done
go test -vet=off -count=1 ./... > $out/suite_with.log 2>&1; suite=$?; grep -v "no test files" $out/suite_with.log | tail -3
for f in $demos; do mv /tmp/seed_aside_$id/$f $f; done
echo "demo_with_exit=$with demo_without_exit=$without suite_exit=$suite"
# run the checks against /repo with the patch applied
cd /verif
rebased=""
for f in $(ls -t $out/patch_rebased_on_*.diff 2>/dev/null); do
  if git -C /repo apply --check $f 2>/dev/null; then rebased=$f; break; fi
done
if git -C /repo apply --check $out/patch.diff 2>/dev/null; then
  git -C /repo apply $out/patch.diff
elif [ -n "$rebased" ]; then
  echo "using hand-rebased variant $(basename $rebased)"
  git -C /repo apply $rebased
elif git -C /repo apply --3way $out/patch.diff >/dev/null 2>&1 && ! git -C /repo diff --name-only --diff-filter=U | grep -q .; then
  # the agent's worktree is older than /repo: merged three-way, kept as a rebased variant
  h=$(git -C /repo log --format=%h -1)
  git -C /repo diff HEAD > $out/patch_rebased_on_$h.diff
  git -C /repo reset -q
  echo "patch rebased on $h (3-way)"
  (cd /repo && go build ./... ) || { echo "REBASED PATCH DOES NOT BUILD"; git -C /repo checkout -- .; exit 1; }
else
  git -C /repo reset -q; git -C /repo checkout -- .
  echo "PATCH DOES NOT APPLY TO /repo"; exit 1
fi
res=""
for p in $props; do
  ./check $p quick > $out/check_$p.log 2>&1; rc=$?
  nv=$(grep -c '^VIOLATION' $out/check_$p.log)
  tier=quick
  if [ $rc -eq 0 ] && [ -z "${QUICK_ONLY:-}" ]; then ./check $p thorough > $out/check_${p}_thorough.log 2>&1; rc=$?; nv=$(grep -c '^VIOLATION' $out/check_${p}_thorough.log); tier=thorough; fi
  echo "check $p ($tier): exit=$rc violations=$nv"; res="$res $p:$tier:$rc:$nv"
done
git -C /repo checkout -- . ; git -C /repo status --short
python3 - <<PY
import json
m={"property":"$id".split('-')[0],"demo_fails_with_change":$with!=0,"demo_passes_without_change":$without==0,"suite_passes_with_change":$suite==0,"checks":"$res".split()}
try: m["agent"]=json.load(open("$out/agent_meta.json"))
except Exception: pass
json.dump(m,open("$out/meta.json","w"),indent=1)
PY
