#!/usr/bin/env python3
"""Mutant catalogue: realistic breaks applied to /repo (and reverted), to show
which check catches which change.  usage: mutants.py [name ...] [--tests]
Each mutant: (name, file, old, new, [properties expected to fire]).
Results are appended to /verif/mutants/results.jsonl."""
import subprocess, sys, json, os, time
WORK = "/tmp/mutwork"
REPO = WORK + "/repo"
ENV = dict(os.environ, GOFLAGS="-mod=mod", GOPROXY="off", GOSUMDB="off", GOTOOLCHAIN="local")
M = []
def mut(name, file, old, new, props): M.append((name, file, old, new, props))

exec(open(os.path.join(os.path.dirname(__file__), "mutant_list.py")).read())

def sh(cmd, **kw):
    try:
        return subprocess.run(cmd, shell=True, env=ENV, capture_output=True, text=True, timeout=900, **kw)
    except subprocess.TimeoutExpired as e:
        class R: pass
        r = R(); r.returncode = 124; r.stdout = (e.stdout or b"").decode() if isinstance(e.stdout, bytes) else (e.stdout or ""); r.stderr = "timeout"
        return r

def main():
    args = [a for a in sys.argv[1:] if not a.startswith("--")]
    run_tests = "--tests" in sys.argv
    # work on a scratch copy of /repo and of the harness so that /repo stays untouched
    sh("rm -rf %s && mkdir -p %s/home && cp -r /repo %s/repo && rm -rf %s/repo/.git && cp -r /verif/harness %s/harness && cp /verif/known_findings.json %s/home/" % (WORK, WORK, WORK, WORK, WORK, WORK))
    sh("sed -i 's#=> /repo#=> %s/repo#' %s/harness/go.mod && cp /repo/go.sum %s/harness/go.sum" % (WORK, WORK, WORK))
    for name, file, old, new, props in M:
        if args and name not in args: continue
        path = os.path.join(REPO, file)
        src = open(path).read()
        if src.count(old) != 1:
            print("SKIP %s: pattern occurs %d times" % (name, src.count(old))); continue
        open(path, "w").write(src.replace(old, new))
        try:
            b = sh("cd %s && go build ./... && cd %s/harness && CGO_ENABLED=0 go build -tags verif -o ../bin/vrun ./cmd/vrun && if echo '%s' | grep -q C08; then go build -race -tags verif -o ../bin/vrun.race ./cmd/vrun; fi" % (REPO, WORK, " ".join(props)))
            if b.returncode != 0:
                print("NOBUILD", name, b.stderr[:300]); continue
            tests = None
            if run_tests:
                t = sh("cd %s && go test -vet=off -count=1 ./... 2>&1 | tail -5" % REPO)
                tests = "FAIL" not in t.stdout
            res = {}
            for p in props:
                t0 = time.time()
                c = sh("cd %s && VERIF_HOME=%s/home bin/vrun%s run %s quick" % (WORK, WORK, ".race" if p == "C08" else "", p))
                viol = [l for l in c.stdout.splitlines() if l.startswith("VIOLATION")]
                res[p] = {"exit": c.returncode, "violations": len(viol), "s": round(time.time() - t0, 1)}
            caught = [p for p in props if res[p]["exit"] == 1]
            print("%-40s tests_pass=%s caught_by=%s missed_by=%s" % (name, tests, caught, [p for p in props if p not in caught]), flush=True)
            with open("/verif/mutants/results.jsonl", "a") as f:
                f.write(json.dumps({"mutant": name, "file": file, "tests_pass": tests, "results": res}) + "\n")
        finally:
            open(path, "w").write(src)
    sh("rm -rf %s" % WORK)
main()
